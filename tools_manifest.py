"""Regenerates MANIFEST.json from the table below (run: /venv/bin/python tools_manifest.py)."""
import json, os

CHECKS = {
 "C01": ("model_checking", "explicit-state model checking (product BFS of emitted design x reference coroutine machine; bounded-exhaustive program enumeration)",
         "explicit-state product BFS of the emitted VHDL (under vsim) against a reference coroutine machine over all input valuations per clock, exhausting the reachable state space of every program of a bounded grammar (plus loop-first programs, match renderings, factory-made waiters and an idle-reset stratum)",
         "trusted base: vsim (own simulator) and the reference machine of DESIGN.md Appendix B; bounded program size"),
 "C06": ("exploration", "bounded-exhaustive enumeration of name assignments / design shapes, each analysed by an independent VHDL front end",
         "every upstream corpus design, every assignment of collision-alphabet names to <=2 (thorough <=3) declaration slots, a generated select_with family (selector type x coverage x default x context) and a set of structural variants (extern libraries, architecture names, duplicate choices, array selectors, integer-to-view casts, ...) are compiled and the emitted text is checked by vfront's LRM rule set",
         "legality = vfront's reading of IEEE 1076-2008 for the emitted subset (validated on the corpus ghdl accepted upstream)"),
 "C07": ("exploration", "bounded-exhaustive enumeration of writer/reader placements; driver sets recomputed from the emitted text",
         "all placements of up to 2 (thorough 3) accesses to one object over 11 site kinds (concurrent, sequential, always block/expression, raw context incl. the else branch of its edge test, nested block, instance outputs) x 6 access kinds, also with identically named contexts; source-level expectation + driver table of the emitted architecture",
         "driver table computed by vfront; weakest reading for disjoint slices driven from different contexts (no rejection demanded)"),
 "C03": ("model_checking", "explicit-state model checking (product BFS of emitted design x reference interpreter of the body; bounded-exhaustive body enumeration)",
         "explicit-state product BFS of the emitted VHDL against a direct interpreter of the abstract sequential body over all 16 input valuations per clock; every body of a bounded grammar incl. 22 fixed fragments (helpers with nested returns, loops, local signals, whole-record push, merged constants); continuous outputs compared before and registers after every clock",
         "trusted base: vsim and the reference interpreter written from the property statement (verif/gen/seqbody.py)"),
 "C04": ("model_checking", "explicit-state model checking over (state, reset) pairs: product BFS with reset levels and asynchronous reset pulses as environment events",
         "C01/C03 program families x 10 reset flavours (sync/async x polarity, step_cond, with_params, contexts without pushed signals) x objects with/without default/noreset x on_reset; BFS visits every reachable (state, reset) pair and compares with a reference that models reset as re-initialisation; plus derived resets (or_reset/and_reset x polarity x async override) and clock/reset taken from elements of one vector, explored over all single-input changes and clock edges; reset-equivalence product (reset-then-run vs power-up-then-run) for Executor processes and nested records of signals defaulted from Null/Full/kwargs",
         "inputs incl. reset are defined from time 0; single clock; vsim trusted"),
 "C05": ("exploration", "bounded-exhaustive matrix of (source type, target type, assignment form) x all source values, simulated",
         "all ordered type pairs over Bit/bool/BitVector/Unsigned/Signed[1..4(6)] + run-time Integer + int/bit-string literals of every length x 40 assignment forms (incl. select_with without default) (signal/variable/push/slice/element/port/view/return and branch merges, Null merges, expression-result sources, instances inside contexts); must-reject table from the statement; every accepted design simulated for every source value; per-form vacuity guard",
         "vector->bool (truth test) and int->Bit/BitVector are left open (not covered by the statement)"),
 "C08": ("exploration", "bounded-exhaustive control-flow shapes x def/use placements; dynamic POISON check under exhaustive input enumeration",
         "all programs of a control-flow grammar x definition/use placements in clocked/clockless sequential contexts, helper returns (incl. boolean helpers with several return paths) and coroutine states; reference interpreter decides must-reject; accepted designs run in vsim POISON mode under every input valuation / reachable state",
         "POISON: every process variable declared without initial value is a compiler intermediate"),
 "C12": ("model_checking", "explicit-state equivalence checking (product BFS of hierarchical design x flat design) + structural comparison of the emitted text",
         "instantiation trees (4 leaf templates x fixed topologies with slice/bit/typed-view/expression actuals on inputs and outputs, nesting, instances inside contexts, OpenEntity/ConnectedEntity, plus 940 generated two-instance sequences) rendered hierarchically and flat; BFS over the product under all inputs; port lists, port maps, entity order, emitted-entity set, to_dir files compared with the source",
         "flat rendering calls the same logic function on the same actuals; vsim trusted"),
 "C16": ("model_checking", "explicit-state model checking (product BFS of marker-wrapper design x reference counter models with admissible-state sets)",
         "wait_for / Waiter / delayed / DelayLine / continuous_counter / ClockDivider / ToggleSignal / debounce configurations (constant, run-time and Duration arguments; contexts without / with sync / async reset, without / with a step condition driven by the environment) each explored to exhaustion under every admissible input per clock against counters written from the docstrings and upstream mocks",
         "phases the documentation leaves open are modelled as nondeterminism; vsim trusted; see notes/C16.md"),
 "C18": ("exploration", "bounded-exhaustive enumeration of helper call shapes x every input value at Python level and in compiled wrappers; CRC by exhaustive message-prefix tree",
         "all 38 named helpers x widths 1..6 (thorough 1..9) x every input value, evaluated on constants and in compiled std.concurrent wrappers under vsim; CRC for all polynomials of width 3..5 and all messages <=6 bits under all step splits against polynomial long division",
         "oracle = plain-int definitions from the .pyi docstrings; undocumented corner inputs are outside the alphabet (notes/C18.md)"),
 "C02": ("exploration", "bounded-exhaustive enumeration of well-typed expression trees x every operand valuation, simulated in concurrent and clocked contexts",
         "all depth-1 expressions over the operator alphabet for widths 1..3 incl. mixed widths (thorough 1..4 + depth 2) placed in std.concurrent and clocked contexts; every operand valuation applied under vsim and compared with reference semantics written from the statement and .pyi docs; result types checked via declared port types and a pyeval probe",
         "reference = verif/ref/values.py; division by zero, negative shifts, out-of-range indices outside the alphabet (notes/C02.md)"),
 "C09": ("exploration", "bounded-exhaustive three-way comparison (Python objects / constant folding in synthesizable context / run-time logic) for every operation and operand valuation",
         "every depth-1 operator/conversion/method x both operand orders x Python ints on either side x every valuation for widths 1..3 (thorough 1..4): Python-level result, folded constant read back by simulation, and run-time result must agree in type, width and value",
         "a way that rejects makes no claim; vsim trusted (notes/C09.md)"),
 "C10": ("exploration", "bounded-exhaustive differential testing against CPython (signatures x call shapes, operator dispatch matrices, class/closure/expression/statement grammars)",
         "170k (thorough 2M) generated compile-time programs evaluated by CPython and inside a std.concurrent body (value handed to a pyeval probe); cohdl must produce a structurally equal value or reject; CPython binding errors must be rejected",
         "and/or compared by truth value; programs without structural equality are not generated (see final report in notes)"),
 "C13": ("exploration", "explicit enumeration of all orders of first use of parametrised types from the import-time cache state + exhaustive view-chain checks (Python level and emitted designs)",
         "all orders of <=3 (thorough <=4) type expressions over qualifiers x kinds x widths, full lattice invariant after every prefix; view chains of length <=2 checked for aliasing at Python level and by simulating compiled wrappers for every input value; distinct roots built from one initialiser must not alias (822 cases incl. array init/reset values and views through Variable indices)",
         "class caches are saved/restored between orders (cross-checked against forked processes)"),
 "C14": ("model_checking", "explicit-state model checking (product BFS of wrapper design x deque/list model x environment) incl. exact liveness on the reachable graph",
         "std.Fifo / std.Stack configurations (types, N, delays up to 4, one/two contexts, stack modes) explored to exhaustion under every push/pop/reset request combination per clock; cycle-exact oracle for zero-delay, safety + liveness oracle for delayed variants",
         "single clock; delayed variants are not required to be cycle-exact (weakest reading) (notes/C14.md)"),
 "C15": ("model_checking", "explicit-state model checking (product BFS of two-process wrapper x hand-over monitor)",
         "SyncFlag / Mailbox in six usage idioms (plus capitalised names with an observing third context and loop-first producers) x delays {0..2}^2 (thorough {0..4}^2) x one/two contexts explored to exhaustion under every send/willing choice per clock; exactly-once, order, payload and observation rules R1-R5 plus liveness",
         "single clock; latency left open (notes/C15.md)"),
 "C17": ("exploration", "bounded-exhaustive enumeration of serialisable type compositions x every value / bit pattern, Python level and compiled round-trip wrappers",
         "type compositions of nesting <=2 (thorough <=3) with total width <=8 (10): round-trip identities, count_bits, independently recomputed layout, compile-time == emitted logic, BitField ranges",
         "layout reference written from the .pyi docs and upstream serialization test (notes/C17.md)"),
 "C19": ("exploration", "bounded-exhaustive enumeration of fixed-point formats, format pairs, resize styles and every raw value against exact rational arithmetic",
         "all formats [l:r] in -3..3 width<=5 (thorough -4..4 width<=6) for SFixed/UFixed: + - * == (run-time and constant operands on either side) resize (2x2 styles; direct, held and nested call shapes) constructors, Python level and compiled wrappers under vsim, compared with fractions.Fraction",
         "quick hardware level complete for -2..2 plus a seed-chosen sixth of the remaining pairs (notes/C19.md)"),
 "C20": ("model_checking", "explicit-state model checking (product BFS of register-map design x byte-array model + AXI monitor x protocol-respecting master environment)",
         "fixed register-map layouts (fields, arrays, AddrRange/Memory, interconnect) on addr_map_entity; per alphabet variant the reachable product space is exhausted under all per-clock valid/ready/payload choices; handshake, exactly-once response, strobe-exact write, read value, unmapped and notification rules; plus generated nesting trees (depth <=4, offsets per level) with an independent address oracle",
         "data abstraction: two data words, four strobes (assumption recorded in the evidence); reset not asserted (notes/C20.md)"),
 "C11": ("model_checking", "explicit-state search over histories of compilations on the real process-wide compiler state (os.fork as state snapshot) + fresh-interpreter variants under several hash seeds",
         "every sequence of <=2 compilations over a 46-design alphabet (34 accepted, 12 rejected - one per failure stage; dynamic ports, module globals, attributes, library paths, reset inverters on class-level ports, expr_fn closures) and <=3 over a core, plus alternation histories (a b)^12 (thorough ^25) with and without gc between builds, executed in one interpreter with fork snapshots; after every history the output must equal the fresh-interpreter golden bytes / the same rejection; every accepted design also compiled in fresh interpreters under several PYTHONHASHSEED values and perturbed allocation",
         "alphabet of designs is fixed; histories beyond the stated depth and interpreter state outside the compiler are not covered (notes/C11.md)"),
}
ORDER = sorted(CHECKS)
NA = []

def main():
    here = os.path.dirname(os.path.abspath(__file__))
    checks = []
    for pid in ORDER:
        level, tech, text, note = CHECKS[pid]
        checks.append({
            "property_id": pid,
            "quick_cmd": f"/venv/bin/python -W ignore -m verif.runner check {pid} --tier quick",
            "thorough_cmd": f"/venv/bin/python -W ignore -m verif.runner check {pid} --tier thorough",
            "evidence_file": f"/verif/evidence/{pid}.json",
            "replay_cmd_template": f"/venv/bin/python -W ignore -m verif.runner check {pid} --replay {{path}}",
            "engine": "explorer" if level == "model_checking" else "enumerator",
            "level_claimed": {"category": level, "text": text, "design_ref": f"DESIGN.md section 4/{pid}"},
            "level_note": note,
            "technique": tech,
        })
    m = {
        "version": 1,
        "setup_cmd": "/venv/bin/python -m verif.selftest --quick",
        "hooks": {
            "guard": "COHDL_VERIF",
            "enable": "no hooks are needed: checks drive the public compiler entry points of the editable install of /repo",
            "baseline_off_cmd": "cd /repo && /venv/bin/python -m pytest -ra -q -p no:cacheprovider --timeout=900 --continue-on-collection-errors",
            "source_commits": [],
            "add_only": True,
        },
        "engines": [
            {"name": "vsim", "path": "verif/vhdl", "serves_properties": ORDER, "kind_free_text": "own VHDL-2008 subset front end (vfront) + delta-cycle simulator (trusted base), validated against upstream cocotb testbenches"},
            {"name": "explorer", "path": "verif/mc/explorer.py", "serves_properties": [p for p in ORDER if CHECKS[p][0] == "model_checking"], "kind_free_text": "explicit-state product BFS (design x reference x environment)"},
            {"name": "enumerator", "path": "verif/gen", "serves_properties": [p for p in ORDER if CHECKS[p][0] != "model_checking"], "kind_free_text": "bounded-exhaustive generators of programs / expressions / placements / histories"},
        ],
        "checks": checks,
        "not_applicable": NA,
    }
    with open(os.path.join(here, "MANIFEST.json"), "w") as f:
        json.dump(m, f, indent=1)
    print("wrote MANIFEST.json with", len(checks), "checks")

if __name__ == "__main__":
    main()

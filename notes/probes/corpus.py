import sys, types, importlib, pkgutil, os, inspect, traceback, re, collections
sys.path.insert(0, "/repo/tests")
class _Any:
    def __init__(self,*a,**k): pass
    def __call__(self,*a,**k):
        if len(a)==1 and callable(a[0]) and not k: return a[0]
        return _Any()
    def __getattr__(self,n): return _Any()
    def __mro_entries__(self, bases): return (object,)
def stub(name):
    m = types.ModuleType(name)
    def _ga(n):
        if n.startswith('__'): raise AttributeError(n)
        return _Any()
    m.__getattr__ = _ga
    m.__path__ = []
    sys.modules[name]=m
    return m
for n in ["cocotb","cocotb.clock","cocotb.triggers","cocotb.binary","cocotb_test","cocotb_test.simulator","cocotbext","cocotbext.axi","cocotbext.spi","cocotbext.uart","cocotb.types","cocotb.handle","cocotb.utils","cocotb.result"]:
    stub(n)
import cohdl
from cohdl import std
root="/repo/tests/reference_builds"
ok=0; fail=[]; out={}
for dp, dn, fn in os.walk(root):
    for f in sorted(fn):
        if not f.startswith("test_") or not f.endswith(".py"): continue
        path=os.path.join(dp,f)
        mod = os.path.relpath(path,"/repo/tests")[:-3].replace("/",".")
        try:
            m = importlib.import_module(mod)
        except BaseException as e:
            fail.append((mod,"IMPORT",repr(e)[:200])); continue
        ents=[v for k,v in vars(m).items() if isinstance(v,type) and issubclass(v,cohdl.Entity) and v.__module__==m.__name__ and k.startswith("test_")]
        if not ents:
            ents=[v for k,v in vars(m).items() if isinstance(v,type) and issubclass(v,cohdl.Entity) and v.__module__==m.__name__]
        for E in ents[-1:]:
            try:
                s = std.VhdlCompiler.to_string(E)
                out[mod+":"+E.__name__]=s; ok+=1
            except BaseException as e:
                fail.append((mod,E.__name__,repr(e)[:300]))
print("ok",ok,"fail",len(fail))
for f in fail: print(f)
import pickle; pickle.dump(out,open("/tmp/exp/corpus.pkl","wb"))
print(sum(len(s) for s in out.values()),"bytes of VHDL")

import sys, os, tempfile, importlib.util, re
from cohdl import std
d = tempfile.mkdtemp()
src = '''
from cohdl import std, Entity, Port, Bit, Unsigned, Signal, Variable
import cohdl
async def sub(e):
    await e.i0
    if e.i1:
        return
    await cohdl.true
class T(Entity):
    clk = Port.input(Bit); rst = Port.input(Bit); i0 = Port.input(Bit); i1 = Port.input(Bit)
    o0 = Port.output(Unsigned[2], default=0); p0 = Port.output(Bit, default=False); o1 = Port.output(Unsigned[2], default=0)
    def architecture(self):
        v = Variable[Unsigned[2]](0)
        @std.sequential(std.Clock(self.clk), std.Reset(self.rst, is_async=True, active_low=True))
        async def proc():
            nonlocal v
            await cohdl.true
            self.o0 <<= 1
            while self.i0:
                self.p0 ^= True
                await sub(self)
                if self.i1:
                    continue
                v @= v + 1
                self.o1 <<= v
            await cohdl.false
'''
p = os.path.join(d, "gen_mod_1.py"); open(p,"w").write(src)
spec = importlib.util.spec_from_file_location("gen_mod_1", p); m = importlib.util.module_from_spec(spec); sys.modules["gen_mod_1"]=m; spec.loader.exec_module(m)
s = std.VhdlCompiler.to_string(m.T)
print(s[s.index("architecture"):])

from cohdl import std, Entity, Port, Bit, BitVector, Unsigned, Signed, Signal, Variable
import cohdl, sys, re, traceback
def comp(E, show=True, grep=None, arch=True):
    try:
        s = std.VhdlCompiler.to_string(E)
        if show:
            if grep:
                for l in s.splitlines():
                    if re.search(grep,l): print("   ", l)
            else: print(s[s.index("architecture"):] if arch else s)
        return s
    except BaseException as e:
        print("  REJECTED:", type(e).__name__, str(e).splitlines()[0][:200])

print("== H: names")
class H(Entity):
    clk = Port.input(Bit)
    to_unsigned = Port.input(Unsigned[4])
    signal = Port.input(Bit, name="signal")
    context = Port.input(Bit)
    o = Port.output(Unsigned[4])
    Clk2 = Port.input(Bit, name="CLK")
    def architecture(self):
        rising_edge = Signal[Bit](False, name="rising_edge")
        boolean = Signal[Unsigned[4]](0, name="boolean")
        a__b = Signal[Bit](False, name="a__b")
        @std.sequential(std.Clock(self.clk))
        def p():
            nonlocal rising_edge, boolean, a__b
            rising_edge <<= self.signal ^ self.context ^ self.Clk2
            a__b <<= rising_edge
            boolean <<= self.to_unsigned + 1
            if a__b:
                self.o <<= boolean + 1
comp(H, arch=False)

from cohdl import std, Entity, Port, Bit, BitVector, Unsigned, Signed, Signal, Variable
import cohdl, sys, re, traceback
def comp(E, show=True, grep=None, arch=True):
    try:
        s = std.VhdlCompiler.to_string(E)
        if show:
            if grep:
                for l in s.splitlines():
                    if re.search(grep,l): print("   ", l)
            else: print(s[s.index("architecture"):] if arch else s)
        return s
    except BaseException as e:
        print("  REJECTED:", type(e).__name__, str(e).splitlines()[0][:200])

print("== I: sequential w/o reads")
class I(Entity):
    o = Port.output(Bit)
    def architecture(self):
        @std.sequential
        def p():
            self.o <<= True
comp(I)
print("== J: instance output drives parent input")
class Sub(Entity):
    a = Port.input(Bit); o = Port.output(Bit)
    def architecture(self):
        @std.concurrent
        def l(): self.o <<= ~self.a
class J(Entity):
    a = Port.input(Bit); b = Port.input(Bit); o = Port.output(Bit)
    def architecture(self):
        Sub(a=self.a, o=self.b)
        @std.concurrent
        def l(): self.o <<= self.b
comp(J)
print("== K: always + process drive same signal")
class K(Entity):
    clk = Port.input(Bit); a = Port.input(Bit); o = Port.output(Bit); o2=Port.output(Bit)
    def architecture(self):
        s = Signal[Bit](False)
        @std.sequential(std.Clock(self.clk))
        def p():
            nonlocal s
            with cohdl.always:
                s <<= self.a
            s <<= ~self.a
            self.o <<= s
comp(K)

from cohdl import std, Entity, Port, Bit, BitVector, Unsigned, Signed, Signal, Variable
import cohdl, sys, re, traceback
def comp(E, show=True, grep=None, arch=True):
    try:
        s = std.VhdlCompiler.to_string(E)
        if show:
            if grep:
                for l in s.splitlines():
                    if re.search(grep,l): print("   ", l)
            else: print(s[s.index("architecture"):] if arch else s)
        return s
    except BaseException as e:
        print("  REJECTED:", type(e).__name__, str(e).splitlines()[0][:200])

print("== B: singleton leak")
class B1(Entity):
    clk = Port.input(Bit); x = Port.input(Bit); o = Port.output(Bit)
    def architecture(self):
        @std.sequential(std.Clock(self.clk))
        async def p():
            while True:
                if self.x:
                    continue
                await self.x
comp(B1)
class B2(Entity):
    clk = Port.input(Bit); x = Port.input(Bit); o = Port.output(Bit)
    def architecture(self):
        @std.sequential(std.Clock(self.clk))
        async def p():
            await self.x
            self.o <<= True
comp(B2, show=False) and print("  B2 ok")

print("== C/D: local fn defaults, starred tuple")
res = {}
class C(Entity):
    o = Port.output(Unsigned[8])
    def architecture(self):
        @std.concurrent
        def l():
            def f(a, b=3): return a + b
            t = (*[1,2], 3)
            self.o <<= f(1) + len(t)
comp(C, grep="buffer_o <=|o <=")

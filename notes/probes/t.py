import time
t0=time.time()
from cohdl import std, Entity, Port, Bit, BitVector, Unsigned, Signed, Signal, Variable
import cohdl
print("import", time.time()-t0)
def mk(i):
    class T(Entity):
        clk = Port.input(Bit); reset = Port.input(Bit); a = Port.input(Bit); b = Port.input(Bit)
        cnt = Port.output(Unsigned[4], default=0); o = Port.output(Bit, default=False)
        def architecture(self):
            ctx = std.SequentialContext(std.Clock(self.clk), std.Reset(self.reset))
            @ctx
            async def proc():
                await self.a
                self.cnt <<= self.cnt + 1
                while self.b:
                    self.o <<= ~self.o
                    if self.a:
                        await self.b
                        continue
                    elif self.cnt == 3:
                        break
                    await cohdl.true
                self.o ^= True
    return T
t0=time.time()
for i in range(50):
    s = std.VhdlCompiler.to_string(mk(i))
print("50 compiles", time.time()-t0)

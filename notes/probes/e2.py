from cohdl import std, Entity, Port, Bit, BitVector, Unsigned, Signed, Signal, Variable
import cohdl, sys, re, traceback
def comp(E, show=True, grep=None):
    try:
        s = std.VhdlCompiler.to_string(E)
        if show:
            if grep:
                for l in s.splitlines():
                    if re.search(grep,l): print("   ", l)
            else: print(s[s.index("begin\n  \n"):] if "begin\n  \n" in s else s)
        return s
    except BaseException as e:
        print("  REJECTED:", type(e).__name__, str(e).splitlines()[0][:150])

print("== A: match without default, temp defined in one branch used after")
class A(Entity):
    clk = Port.input(Bit); x = Port.input(Unsigned[2]); a=Port.input(Bit); b=Port.input(Bit)
    o = Port.output(Bit)
    def architecture(self):
        @std.sequential(std.Clock(self.clk))
        def p():
            match self.x:
                case 0:
                    t = self.a | self.b
                case 1:
                    pass
            self.o <<= t
comp(A)
print("== A2: if version")
class A2(Entity):
    clk = Port.input(Bit); x = Port.input(Unsigned[2]); a=Port.input(Bit); b=Port.input(Bit)
    o = Port.output(Bit)
    def architecture(self):
        @std.sequential(std.Clock(self.clk))
        def p():
            if self.x == 0:
                t = self.a | self.b
            self.o <<= t
comp(A2)
print("== A3: for-break chain")
class A3(Entity):
    clk = Port.input(Bit); x = Port.input(Unsigned[2]); a=Port.input(Bit); b=Port.input(Bit)
    o = Port.output(Bit)
    def architecture(self):
        @std.sequential(std.Clock(self.clk))
        def p():
            for i in range(2):
                if self.x == i:
                    t = self.a | self.b
                    break
            self.o <<= t
comp(A3)

from cohdl import std, Entity, Port, Bit, BitVector, Unsigned, Signed, Signal, Variable
import cohdl, sys, re, traceback
def comp(E, show=True, grep=None, arch=True):
    try:
        s = std.VhdlCompiler.to_string(E)
        if show:
            if grep:
                for l in s.splitlines():
                    if re.search(grep,l): print("   ", l)
            else: print(s[s.index("architecture"):] if arch else s)
        return s
    except BaseException as e:
        print("  REJECTED:", type(e).__name__, str(e).splitlines()[0][:200])

print("== D: starred tuple")
class D(Entity):
    o = Port.output(Unsigned[8])
    def architecture(self):
        @std.concurrent
        def l():
            t = (*[1,2], 3)
            self.o <<= len(t)
comp(D, grep="o <=")
print("== E: const rmul")
class E(Entity):
    o = Port.output(Unsigned[8]); x = Port.input(Unsigned[4]); o2 = Port.output(Unsigned[8])
    def architecture(self):
        @std.concurrent
        def l():
            self.o <<= 3 * Unsigned[4](5)
            self.o2 <<= 3 * self.x
comp(E, grep="o <=|o2 <=|temp")
print("== F: x + (-1)")
class F(Entity):
    o = Port.output(Unsigned[4]); x = Port.input(Unsigned[4])
    def architecture(self):
        @std.concurrent
        def l():
            self.o <<= self.x + (-1)
comp(F, grep="<=")
print("== G: iterate slice of slice")
class G(Entity):
    o = Port.output(BitVector[3]); x = Port.input(BitVector[8])
    def architecture(self):
        @std.concurrent
        def l():
            for i, b in enumerate(self.x[7:2][3:1]):
                self.o[i] <<= b
comp(G, grep="<=")
print("== G2: iterate slice")
class G2(Entity):
    o = Port.output(BitVector[3]); x = Port.input(BitVector[8])
    def architecture(self):
        @std.concurrent
        def l():
            for i, b in enumerate(self.x[5:3]):
                self.o[i] <<= b
comp(G2, grep="<=")

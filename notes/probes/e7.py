from cohdl import std, Entity, Port, Bit, BitVector, Unsigned, Signed, Signal, Variable
import cohdl, sys, re, traceback
def comp(E, show=True, grep=None, arch=True):
    try:
        s = std.VhdlCompiler.to_string(E)
        if show:
            if grep:
                for l in s.splitlines():
                    if re.search(grep,l): print("   ", l)
            else: print(s[s.index("architecture"):] if arch else s)
        return s
    except BaseException as e:
        print("  REJECTED:", type(e).__name__, str(e).splitlines()[0][:200])
print("== SFixed from Signed (python level)")
try:
    x = std.SFixed[3:-2](Signed[4](3)); print("  ok", x)
except BaseException as e: print("  FAIL", type(e).__name__, e)
try:
    x = std.SFixed[3:-2](1.25); y = std.SFixed[1:-1](0.5); print("  add", x+y, "mul", x*y, x.resize(2,-1))
except BaseException as e: print("  FAIL", type(e).__name__, e)
print("== reflected op with subclass")
class A:
    def __init__(s,v): s.v=v
    def __add__(s,o): return ("A.add", s.v, o.v)
    def __radd__(s,o): return ("A.radd", s.v, o.v)
class B(A):
    def __radd__(s,o): return ("B.radd", s.v, o.v)
got=[]
@cohdl.pyeval
def probe(x): got.append(x)
class R(Entity):
    o = Port.output(Bit)
    def architecture(self):
        @std.concurrent
        def l():
            probe(A(1)+B(2))
            self.o <<= True
comp(R, show=False); print("  cohdl:", got, " cpython:", A(1)+B(2))
print("== stale global")
W=3
def helper(): return W
def build():
    class G(Entity):
        o = Port.output(Unsigned[8])
        def architecture(self):
            @std.concurrent
            def l(): self.o <<= helper()
    return G
comp(build(), grep="buffer_o <=")
W=5
comp(build(), grep="buffer_o <=")

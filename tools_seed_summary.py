"""writes seeded/SUMMARY.md from seeded/*/meta.json"""
import glob, json, os
rows = []
for f in sorted(glob.glob("/verif/seeded/*/meta.json")):
    m = json.load(open(f))
    readme = os.path.join(os.path.dirname(f), "README.md")
    first = ""
    if os.path.exists(readme):
        for l in open(readme):
            l = l.strip()
            if l and not l.startswith("#"):
                first = l[:160]
                break
    rows.append((m["seed_id"], m["property"], m.get("valid_seed"), ",".join(m.get("caught_by", [])) or "-",
                 "; ".join(f"{c}: exit {r['exit']} ({r['violations']} VIOLATION lines, {r['wall_s']} s)" for c, r in m["checks"].items()), first))
with open("/verif/seeded/SUMMARY.md", "w") as out:
    out.write("# Seeded property-breaking changes (written by independent sub-agents, evaluated with tools_seed.py)\n\n")
    out.write("| seed | property | valid (tests pass, demo fails only with patch) | caught by | check runs | change |\n|---|---|---|---|---|---|\n")
    for r in rows:
        out.write("| " + " | ".join(str(x).replace("|", "/") for x in r) + " |\n")
print(open("/verif/seeded/SUMMARY.md").read())

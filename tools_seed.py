"""Evaluate a seeded property-breaking change against the checks.

usage: /venv/bin/python tools_seed.py <src_dir> <seed_id> <property> [--checks C06,C01] [--tier quick] [--only names]

<src_dir> contains patch.diff, demo.py, README.md (written by an independent sub-agent).  The patch is applied in a scratch
worktree of /repo (never in /repo itself), the baseline suite and the demo are run there, then the listed checks are run
with PYTHONPATH pointing at the worktree (this shadows the editable install, equivalent to applying the patch to /repo).
Results are stored in /verif/seeded/<seed_id>/ (patch.diff, demo.py, README.md, meta.json).
"""
import json
import os
import re
import shutil
import subprocess
import sys
import time


def sh(cmd, env=None, cwd=None, timeout=3600):
    e = dict(os.environ)
    if env:
        e.update(env)
    t = time.time()
    p = subprocess.run(cmd, shell=True, capture_output=True, text=True, env=e, cwd=cwd, timeout=timeout)
    return p.returncode, p.stdout + p.stderr, round(time.time() - t, 1)


def main():
    args = sys.argv[1:]
    src, sid, prop = args[:3]
    checks = [prop]
    tier = "quick"
    only = None
    jobs = os.environ.get("VERIF_JOBS", "8")
    i = 3
    while i < len(args):
        if args[i] == "--checks":
            checks = args[i + 1].split(",")
        elif args[i] == "--tier":
            tier = args[i + 1]
        elif args[i] == "--only":
            only = args[i + 1]
        i += 2
    wt = f"/tmp/seedwt_{sid}"
    sh(f"git -C /repo worktree remove --force {wt}")
    rc, out, _ = sh(f"git -C /repo worktree add --detach {wt}")
    assert rc == 0, out
    meta = {"seed_id": sid, "property": prop, "base_commit": sh("git -C /repo rev-parse HEAD")[1].strip(), "checks": {}}
    try:
        rc, out, _ = sh(f"git -C {wt} apply {os.path.abspath(src)}/patch.diff")
        meta["patch_applies"] = rc == 0
        if rc != 0:
            print("PATCH DOES NOT APPLY", out)
            return 2
        env = {"PYTHONPATH": wt}
        rc, out, t = sh("/venv/bin/python -m pytest -q -p no:cacheprovider --timeout=900 --continue-on-collection-errors 2>&1 | tail -1", env=env, cwd=wt)
        meta["baseline_with_patch"] = out.strip()
        ok_base = "66 passed" in out
        rc1, out1, _ = sh(f"/venv/bin/python {os.path.abspath(src)}/demo.py", env=env, cwd="/tmp")
        rc0, out0, _ = sh(f"/venv/bin/python {os.path.abspath(src)}/demo.py", cwd="/tmp")
        meta["demo_exit_with_patch"] = rc1
        meta["demo_exit_without_patch"] = rc0
        meta["demo_output_with_patch"] = out1[-600:]
        print(f"baseline: {out.strip()} | demo with patch exit={rc1}, without exit={rc0}")
        for c in checks:
            cmd = f"/venv/bin/python -W ignore -m verif.runner check {c} --tier {tier}" + (f" --only {only}" if only else "")
            rc, out, t = sh(cmd, env={"PYTHONPATH": wt, "VERIF_JOBS": jobs}, cwd="/verif")
            viol = [l for l in out.splitlines() if l.startswith("VIOLATION")]
            whats = [l.strip() for l in out.splitlines() if l.strip().startswith("what:")]
            meta["checks"][c] = {"cmd": cmd, "exit": rc, "violations": len(viol), "wall_s": t, "first": whats[:3],
                                 "summary": out.strip().splitlines()[-1][:400] if out.strip() else ""}
            print(f"check {c}: exit={rc} violations={len(viol)} wall={t}s")
            for w in whats[:3]:
                print("   ", w[:300])
        meta["valid_seed"] = bool(ok_base and rc1 != 0 and rc0 == 0)
        meta["caught_by"] = [c for c, r in meta["checks"].items() if r["exit"] == 1]
    finally:
        sh(f"git -C /repo worktree remove --force {wt}")
        sh("git -C /verif checkout -- evidence/")
    dst = f"/verif/seeded/{sid}"
    os.makedirs(dst, exist_ok=True)
    for f in ("patch.diff", "demo.py", "README.md"):
        if os.path.exists(os.path.join(src, f)) and os.path.realpath(src) != os.path.realpath(dst):
            shutil.copy(os.path.join(src, f), dst)
    meta["what_it_needs"] = "see README.md"
    with open(os.path.join(dst, "meta.json"), "w") as f:
        json.dump(meta, f, indent=1)
    print("valid seed:", meta["valid_seed"], "caught by:", meta["caught_by"])
    return 0


if __name__ == "__main__":
    sys.exit(main())

"""Helpers to load generated CoHDL source as a real module and compile it with the real compiler."""
from __future__ import annotations

import atexit
import importlib.util
import itertools
import os
import shutil
import sys
import tempfile

_scratch = None
_counter = itertools.count()


def scratch_dir():
    global _scratch
    if _scratch is None or _scratch[0] != os.getpid():
        base = "/dev/shm" if os.path.isdir("/dev/shm") else None
        d = tempfile.mkdtemp(prefix="verif_cohdl_", dir=base)
        _scratch = (os.getpid(), d)
        atexit.register(shutil.rmtree, d, True)
        # multiprocessing children exit via os._exit: atexit does not run, use Finalize there
        try:
            from multiprocessing import util as _mpu

            _mpu.Finalize(None, shutil.rmtree, args=(d, True), exitpriority=10)
        except Exception:
            pass
    return _scratch[1]


def load_module(src: str, name_hint: str = "gen"):
    """Write src to a scratch file and import it as a fresh module (inspect.getsource works)."""
    d = scratch_dir()
    name = f"{name_hint}_{os.getpid()}_{next(_counter)}"
    path = os.path.join(d, name + ".py")
    with open(path, "w") as f:
        f.write(src)
    spec = importlib.util.spec_from_file_location(name, path)
    mod = importlib.util.module_from_spec(spec)
    sys.modules[name] = mod
    try:
        spec.loader.exec_module(mod)
    except BaseException:
        sys.modules.pop(name, None)
        raise
    return mod


def unload_module(mod):
    sys.modules.pop(mod.__name__, None)
    try:
        os.unlink(mod.__file__)
    except OSError:
        pass
    import linecache

    linecache.cache.pop(getattr(mod, "__file__", None), None)


def reset_compiler_state():
    """Best-effort reset of process-wide compiler state after a rejected compilation, so that one
    rejected generated program does not poison later compilations in the same worker.  (That such a
    reset is needed at all is what C11 checks; other checks must not inherit C11's findings.)"""
    try:
        from cohdl._core._ir import _repr as r

        for cls_name in ("StatemachineContext",):
            cls = getattr(r, cls_name, None)
            if cls is not None and getattr(cls, "_singleton", None) is not None:
                cls._singleton = None
    except Exception:
        pass


class CompileResult:
    __slots__ = ("ok", "vhdl", "error", "error_type")

    def __init__(self, ok, vhdl=None, error=None, error_type=None):
        self.ok = ok
        self.vhdl = vhdl
        self.error = error
        self.error_type = error_type


def compile_entity(entity_cls) -> CompileResult:
    from cohdl import std

    try:
        s = std.VhdlCompiler.to_string(entity_cls)
        return CompileResult(True, vhdl=s)
    except BaseException as e:  # compiler rejects with AssertionError & friends
        if isinstance(e, (KeyboardInterrupt, SystemExit, MemoryError)):
            raise
        reset_compiler_state()
        return CompileResult(False, error=f"{type(e).__name__}: {str(e)[:400]}", error_type=type(e).__name__)


def compile_source(src: str, entity: str = "T", keep_module=False):
    """Returns (CompileResult, module|None)."""
    try:
        mod = load_module(src)
    except BaseException as e:
        if isinstance(e, (KeyboardInterrupt, SystemExit, MemoryError)):
            raise
        reset_compiler_state()
        return CompileResult(False, error=f"import: {type(e).__name__}: {str(e)[:400]}", error_type=type(e).__name__), None
    res = compile_entity(getattr(mod, entity))
    if not keep_module:
        unload_module(mod)
        mod = None
    return res, mod

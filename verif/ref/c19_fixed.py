"""Reference semantics for C19 (fixed point), written from the property statement with exact rationals.

A format is (kind, left, right) with kind in {"S", "U"}; width = left-right+1.  A value of that format
with raw bit pattern `raw` (0 <= raw < 2**width) represents

    U:  raw * 2**right
    S:  (raw interpreted as two's complement of `width` bits) * 2**right

Nothing in here looks at cohdl.
"""
from __future__ import annotations

from fractions import Fraction

TRUNCATE, ROUND = "TRUNCATE", "ROUND"
WRAP, SATURATE = "WRAP", "SATURATE"


def width(fmt):
    return fmt[1] - fmt[2] + 1


def pow2(e) -> Fraction:
    return Fraction(2) ** e


def to_signed(raw, w):
    return raw - (1 << w) if raw >> (w - 1) & 1 else raw


def raw_int(fmt, raw):
    """integer the raw pattern stands for (before scaling)"""
    return to_signed(raw, width(fmt)) if fmt[0] == "S" else raw


def value(fmt, raw) -> Fraction:
    return raw_int(fmt, raw) * pow2(fmt[2])


def int_bounds(fmt):
    """inclusive bounds of the unscaled integer"""
    w = width(fmt)
    if fmt[0] == "S":
        return -(1 << (w - 1)), (1 << (w - 1)) - 1
    return 0, (1 << w) - 1


def bounds(fmt):
    lo, hi = int_bounds(fmt)
    return lo * pow2(fmt[2]), hi * pow2(fmt[2])


def representable(fmt, v: Fraction):
    q = Fraction(v) / pow2(fmt[2])
    if q.denominator != 1:
        return False
    lo, hi = int_bounds(fmt)
    return lo <= q <= hi


def encode(fmt, v: Fraction):
    """raw pattern of a representable number"""
    q = Fraction(v) / pow2(fmt[2])
    assert q.denominator == 1
    lo, hi = int_bounds(fmt)
    assert lo <= q <= hi
    return int(q) & ((1 << width(fmt)) - 1)


def type_contains(outer, inner):
    """every value of format `inner` is representable in format `outer`"""
    return all(representable(outer, value(inner, raw)) for raw in range(1 << width(inner)))


# ------------------------------------------------------------------------------------------------
# arithmetic: the result format is chosen by the implementation; what is fixed is the number
# ------------------------------------------------------------------------------------------------

def exact(op, va: Fraction, vb: Fraction) -> Fraction:
    if op == "add":
        return va + vb
    if op == "sub":
        return va - vb
    if op == "mul":
        return va * vb
    raise ValueError(op)


def expected_arith(op, fa, ra, fb, rb, fres):
    """number the result (of format fres) has to represent; None = no representable answer exists
    (the result format is too small: a violation by itself)."""
    v = exact(op, value(fa, ra), value(fb, rb))
    if op == "sub" and fa[0] == "U" and fb[0] == "U" and fres[0] == "U" and v < 0:
        # wraps modulo the result range [0, 2**(left+1))
        v = v % pow2(fres[1] + 1)
    return v


# ------------------------------------------------------------------------------------------------
# resize
# ------------------------------------------------------------------------------------------------

def floor_frac(q: Fraction) -> int:
    return q.numerator // q.denominator


def round_half_even(q: Fraction) -> int:
    f = floor_frac(q)
    rem = q - f
    if rem > Fraction(1, 2):
        return f + 1
    if rem < Fraction(1, 2):
        return f
    return f if f % 2 == 0 else f + 1


def resize_raw(fsrc, raw, ftgt, round_style, overflow_style):
    """raw pattern of the resized value in format ftgt"""
    q = value(fsrc, raw) / pow2(ftgt[2])  # in units of the target resolution
    if round_style == TRUNCATE:
        n = floor_frac(q)  # toward minus infinity
    elif round_style == ROUND:
        n = round_half_even(q)
    else:
        raise ValueError(round_style)
    lo, hi = int_bounds(ftgt)
    w = width(ftgt)
    if overflow_style == SATURATE:
        n = min(max(n, lo), hi)
    elif overflow_style == WRAP:
        n = (n - lo) % (1 << w) + lo
    else:
        raise ValueError(overflow_style)
    return n & ((1 << w) - 1)


# ------------------------------------------------------------------------------------------------
# plain integer vector types (constructor sources)
# ------------------------------------------------------------------------------------------------

def vec_fmt(kind, n):
    """Signed[n] / Unsigned[n] seen as a fixed point format with right = 0"""
    return (kind, n - 1, 0)


def selftest():
    """a few hand-computed anchors (values worked out on paper from the statement)"""
    S = lambda l, r: ("S", l, r)
    U = lambda l, r: ("U", l, r)
    assert value(S(2, -2), 0b10101) == Fraction(-11, 4)
    assert value(U(2, -2), 0b10101) == Fraction(21, 4)
    assert value(S(3, 1), 0b011) == 6
    # 1.25 -> [1:-1]: floor -> 1.0 (raw 2), round: 1.25/0.5 = 2.5 -> tie -> even 2
    assert resize_raw(S(2, -2), 0b00101, S(1, -1), TRUNCATE, WRAP) == 0b010
    assert resize_raw(S(2, -2), 0b00101, S(1, -1), ROUND, WRAP) == 0b010
    # 1.75 -> 3.5 -> tie -> even 4 -> out of [-4,3]: wrap -> -4 (100), saturate -> 3 (011)
    assert resize_raw(S(2, -2), 0b00111, S(1, -1), ROUND, WRAP) == 0b100
    assert resize_raw(S(2, -2), 0b00111, S(1, -1), ROUND, SATURATE) == 0b011
    # -0.25 -> trunc toward minus infinity at resolution 1 -> -1
    assert resize_raw(S(2, -2), 0b11111, S(2, 0), TRUNCATE, WRAP) == 0b111
    assert resize_raw(S(2, -2), 0b11111, S(2, 0), ROUND, WRAP) == 0b000
    # unsigned 7.75 -> [1:0]: trunc 7 -> wrap 3, saturate 3; round 8 -> wrap 0, saturate 3
    assert resize_raw(U(2, -2), 0b11111, U(1, 0), TRUNCATE, WRAP) == 3
    assert resize_raw(U(2, -2), 0b11111, U(1, 0), ROUND, WRAP) == 0
    assert resize_raw(U(2, -2), 0b11111, U(1, 0), ROUND, SATURATE) == 3
    assert resize_raw(U(2, -2), 0b01111, U(1, 0), ROUND, SATURATE) == 3  # 3.75 -> 4 -> clamp 3
    assert resize_raw(U(2, -2), 0b01111, U(1, 0), ROUND, WRAP) == 0
    # disjoint formats: 0.75 in [-1:-2] to [3:2] (resolution 4): floor 0, round 0.1875 -> 0
    assert resize_raw(U(-1, -2), 0b11, U(3, 2), ROUND, WRAP) == 0
    # -0.25 in S[-1:-2]... (raw 11 = -1 * 0.25) to S[3:2]: floor(-1/16) = -1 -> raw 11; round -> 0
    assert resize_raw(S(-1, -2), 0b11, S(3, 2), TRUNCATE, WRAP) == 0b11
    assert resize_raw(S(-1, -2), 0b11, S(3, 2), ROUND, WRAP) == 0
    assert expected_arith("sub", U(1, 0), 1, U(1, 0), 3, U(2, 0)) == 6  # 1-3 = -2 mod 8
    assert expected_arith("sub", S(1, 0), 1, S(1, 0), 3, S(2, 0)) == 2  # 1-(-1)
    assert type_contains(S(3, -2), S(2, -1)) and not type_contains(S(3, -2), S(3, -3))
    assert not type_contains(S(2, -2), S(3, -1))
    assert type_contains(S(3, -2), vec_fmt("U", 3)) and not type_contains(S(3, -2), vec_fmt("U", 4))
    assert type_contains(S(3, -2), vec_fmt("S", 4)) and not type_contains(S(3, 1), vec_fmt("S", 2))
    assert type_contains(U(0, 0), vec_fmt("U", 1)) and type_contains(U(0, -1), U(0, 0))
    return True


# ------------------------------------------------------------------------------------------------
# operation sequences on a variable: every operation result is a VALUE (snapshot at the time of the call)
# ------------------------------------------------------------------------------------------------
#
# State: v = number held by the variable (format A), r = last taken value (number, format or None when
# the format is chosen by the implementation), s = last sum, e = last comparison.  UNKNOWN marks a number
# the statement says nothing about (abs of the most negative value); it propagates.

UNKNOWN = "unknown"


def take_value(take, fa, v):
    """(number | UNKNOWN, format | None) of the value-returning operation `take` applied to number v of format fa"""
    t = take[0]
    if v is UNKNOWN:
        return UNKNOWN, (None if t in ("addz", "subz") else (fa[0],) + tuple(take[1]) if t in ("resize", "ctor") else fa)
    if t == "resize":
        ft = (fa[0],) + tuple(take[1])
        raw = resize_raw(fa, encode(fa, v), ft, take[2] or TRUNCATE, take[3] or WRAP)
        return value(ft, raw), ft
    if t == "abs":
        w = abs(v)
        return (w if representable(fa, w) else UNKNOWN), fa
    if t == "ctor":
        ft = (fa[0],) + tuple(take[1])
        return (v if representable(ft, v) else UNKNOWN), ft
    if t in ("bits", "raw", "value"):
        return v, fa
    if t in ("addz", "subz"):
        return v, None
    raise ValueError(take)


def run_sequence(fa, seq, a, b, signal=False, v_before=None):
    """Reference run of one activation.  fa: format of the variable; seq: tuple of letters; a, b: raw inputs.
    Prologue: v := value(a); r := value(a).   signal=True: v is a signal, reads see v_before during the whole
    activation and the last assignment becomes visible afterwards.
    -> dict(v=number visible to the epilogue, v_next=number held after the activation, r=(number, fmt), s=.., e=..)"""
    va = value(fa, a)
    vb = value(fa, b)
    cur = v_before if signal else va
    nxt = va
    r = (va, fa)
    s = None
    e = None
    for letter in seq:
        k = letter[0]
        if k == "take":
            r = take_value(letter[1], fa, cur)
        elif k == "upd_b":
            nxt = vb
            if not signal:
                cur = vb
        elif k == "upd_r":
            nxt = r[0]
            if not signal:
                cur = r[0]
        elif k == "add":
            s = UNKNOWN if (r[0] is UNKNOWN or cur is UNKNOWN) else r[0] + cur
        elif k == "eq":
            e = UNKNOWN if (r[0] is UNKNOWN or cur is UNKNOWN) else (r[0] == cur)
        else:
            raise ValueError(letter)
    return {"v": cur, "v_next": nxt, "r": r, "s": s, "e": e}

"""Reference semantics of CoHDL expressions (C02 / C09).

Written from the statement of property C02, the signatures in cohdl/_core/*.pyi and the upstream
testbenches under tests/reference_builds/general (test_operations_0x, test_unsigned_02, test_resize_01,
test_select_with_0x, test_any_all_01, tests/not_evaluated/test_resize.py) -- not from the implementation.

Types  (hashable tuples)
    ("bit",)  ("bool",)  ("int",)  ("bv", w)  ("u", w)  ("s", w)  ("enum", n)  ("arr", elemtype, n)
Values
    bit 0/1 ; bool True/False ; int python int ; vectors: the bit pattern as a non-negative int ;
    enum: position 0..n-1 ; arr: tuple of element values.

Expression nodes (tuples, see gen/expr_gen.py for the generator):
    ("in", type, slot)            operand supplied from outside (input port / constant), slot = operand number
    ("lit", k)                    python int literal
    ("const", type, value)        typed compile-time constant operand (Unsigned[2](2), Bit(1), True, En3.eb ...)
    ("bin", op, l, r)             op in add sub mul fdiv tdiv mod rem and or xor cat shl shr
    ("cmp", (op,...), (e,...))    comparison chain, op in eq ne lt le gt ge
    ("un", op, x)                 op in inv neg abs not
    ("bool", op, (e,...))         op in and or
    ("if", c, a, b)               a if c else b
    ("idx", x, i) ("idxrt", x, e) ("slice", x, hi, lo) ("part", fn, x, count, rest)   fn in msb lsb
    ("view", kind, x)             kind in signed unsigned bitvector
    ("resize", x, w|None, zeros)
    ("sel", arg, ((key, e),...), default|None)      select_with ; key = value of arg's type
    ("anyall", fn, (e,...))  ("anyvec", fn, x)  ("tobool", x)
    ("aidx", arr, i)  ("aidxrt", arr, e)
    ("multi", x, (part,...))      multi-part subscript x[3, 1:0]; part = ("i", k) | ("s", hi, lo); first part = msbs
    ("iter", consumer, x)         x consumed by iteration: reverse (std.reverse_bits) stretch2 (std.stretch(x, 2))
                                  anycomp (any([b for b in x])) allstar (all([*x])) catnot (std.concat(*[~b for b in x]))
    select_with keys may be ("alias", spelling, value) with spelling in int/str/typed: several python keys that
    denote the same selector value; the FIRST matching key wins
    ("null",) ("full",)           cohdl.Null / cohdl.Full as an alternative of if / ifret / sel: all zeros / all ones of the
                                  object the merged value is finally assigned to (upstream test_select_with_02)
    ("ifret", c, a, b)            like "if", written as a helper with two return statements (multi-return merge)
    ("shared", x, body)           x bound to a name, body uses it several times through ("bound", type)
    ("src", kind, x)              operand source (value and type of x): kind in always (t = cohdl.always(x)),
                                  alwaysblock (with cohdl.always: t = x), localsig (t = Signal[T](x)),
                                  localvar (t = Variable[T](x)), fn (return value of an inlined function)
    ("conv", form, dst_type, x)   conversion of x to dst_type by assignment / construction; form in
                                  assign (port <<= x) signal (Signal[D](x)) variable (Variable[D](x))
                                  temporary (Temporary[D](x)) varassign (v = Variable[D](); v @= x)

Three outcomes for (expression, valuation):
    a value            the documented value
    OPEN               accepted input without a documented value (integer literal that is not representable in
                       the type of the other operand): nothing is claimed about the value
    raise Outside      the valuation is outside the alphabet (division by zero, index out of range, negative
                       shift amount, select_with without default and no matching key): it is never applied
`typeof` raises IllTyped for trees that are not well-typed under the documented signatures.
"""
from __future__ import annotations


class IllTyped(Exception):
    pass


class Outside(Exception):
    pass


class _Open:
    def __repr__(self):
        return "OPEN"


OPEN = _Open()


class _NF:
    def __init__(self, full):
        self.full = full

    def __repr__(self):
        return "FULL" if self.full else "NULL"


FULLV = _NF(True)
NULLV = _NF(False)


def is_nf(node):
    return isinstance(node, tuple) and node and node[0] in ("null", "full")


def resolve_nf(t, v):
    """Null / Full take the type of the target"""
    if isinstance(v, _NF):
        if t == BOOL:
            return v.full
        return (mask(width(t)) if v.full else 0)
    return v

BIT = ("bit",)
BOOL = ("bool",)
INT = ("int",)


def bv(w):
    return ("bv", w)


def u(w):
    return ("u", w)


def s(w):
    return ("s", w)


def is_vec(t):
    return t[0] in ("bv", "u", "s")


def is_num(t):
    return t[0] in ("u", "s")


def width(t):
    if is_vec(t):
        return t[1]
    if t == BIT:
        return 1
    raise IllTyped(f"no width: {t}")


def mask(w):
    return (1 << w) - 1


def as_signed(v, w):
    return v - (1 << w) if (v >> (w - 1)) & 1 else v


def num(t, v):
    """numeric interpretation of a value of type t"""
    if t[0] == "s":
        return as_signed(v, t[1])
    return v


def wrap(t, n):
    """the value of type t congruent to the integer n modulo 2**width"""
    return n & mask(t[1])


def representable(t, k):
    if t[0] == "u":
        return 0 <= k < (1 << t[1])
    if t[0] == "s":
        return -(1 << (t[1] - 1)) <= k < (1 << (t[1] - 1))
    raise IllTyped(t)


def domain(t):
    """all values of a type (operand valuations)"""
    if t == BIT:
        return (0, 1)
    if t == BOOL:
        return (False, True)
    if t == INT:
        return INT_DOMAIN
    if is_vec(t):
        return range(1 << t[1])
    if t[0] == "enum":
        return range(t[1])
    if t[0] == "arr":
        import itertools

        return list(itertools.product(domain(t[1]), repeat=t[2]))
    raise IllTyped(t)


# run-time Integer operands cannot be enumerated completely; this is the value set used for them
INT_DOMAIN = (-2, -1, 0, 1, 2, 3, 4)


def truth(t, v):
    if t == INT:
        return v != 0
    if t == BIT:
        return v == 1
    if t == BOOL:
        return bool(v)
    if is_vec(t):
        return v != 0
    raise IllTyped(f"truth value of {t}")


def tname(t):
    """canonical short name: u3 s2 bv4 bit bool int enum3"""
    if t in (BIT, BOOL, INT):
        return t[0]
    if t[0] == "arr":
        return f"arr{t[2]}x{tname(t[1])}"
    return f"{t[0]}{t[1]}"


ARITH = ("add", "sub", "mul", "fdiv", "tdiv", "mod", "rem")
BITWISE = ("and", "or", "xor")
CMP = ("eq", "ne", "lt", "le", "gt", "ge")


def _trunc_div(a, b):
    q = abs(a) // abs(b)
    return -q if (a < 0) != (b < 0) else q


def is_lit(node):
    return node[0] == "lit"


# ---------------------------------------------------------------------------------------------
# static typing
# ---------------------------------------------------------------------------------------------
def typeof(node):
    k = node[0]
    if k == "in":
        return node[1]
    if k == "lit":
        return INT
    if k == "const":
        if node[2] not in domain(node[1]):
            raise IllTyped("constant outside its type")
        return node[1]
    if k == "bin":
        return _bin_type(node[1], node[2], node[3])
    if k == "cmp":
        ops, es = node[1], node[2]
        if len(es) != len(ops) + 1 or not ops:
            raise IllTyped("chain shape")
        for i, op in enumerate(ops):
            _cmp_check(op, es[i], es[i + 1])
        return BOOL
    if k == "un":
        op, x = node[1], node[2]
        t = typeof(x)
        if op == "inv":
            if t == BIT or is_vec(t):
                return t
        elif op == "neg":
            if is_num(t) or (t == INT and not is_lit(x)):
                return t
        elif op == "abs":
            if t[0] == "s":
                return t
        elif op == "not":
            truth_ok(t)
            return BOOL
        raise IllTyped(f"{op} {t}")
    if k == "bool":
        for e in node[2]:
            truth_ok(typeof(e))
        if len(node[2]) < 2:
            raise IllTyped("bool arity")
        return BOOL
    if k == "tobool":
        truth_ok(typeof(node[1]))
        return BOOL
    if k == "bound":
        return node[1]
    if k == "shared":
        if not is_vec(typeof(node[1])):
            raise IllTyped("shared")
        return typeof(node[2])
    if k in ("if", "ifret") and (is_nf(node[2]) or is_nf(node[3])):
        truth_ok(typeof(node[1]))
        if is_nf(node[2]) and is_nf(node[3]):
            raise IllTyped("Null/Full on both sides")
        t = typeof(node[3] if is_nf(node[2]) else node[2])
        if not (t == BIT or is_vec(t)) or is_lit(node[2]) or is_lit(node[3]):
            raise IllTyped("Null/Full alternative")
        return t
    if k in ("if", "ifret"):
        c, a, b = node[1], node[2], node[3]
        truth_ok(typeof(c))
        ta, tb = typeof(a), typeof(b)
        if is_lit(a) and is_lit(b):
            raise IllTyped("if of two literals")
        if is_lit(a) or is_lit(b):
            t = tb if is_lit(a) else ta
            lit = a if is_lit(a) else b
            if not is_num(t) or not representable(t, lit[1]):
                raise IllTyped("if literal")
            return t
        if ta != tb or ta[0] in ("arr",):
            raise IllTyped("if branch types")
        return ta
    if k == "idx":
        t = typeof(node[1])
        if not is_vec(t) or not (0 <= node[2] < t[1]):
            raise IllTyped("idx")
        return BIT
    if k == "idxrt":
        t = typeof(node[1])
        ti = typeof(node[2])
        if not is_vec(t) or not (is_num(ti) or ti == INT) or is_lit(node[2]):
            raise IllTyped("idxrt")
        return BIT
    if k == "slice":
        t = typeof(node[1])
        hi, lo = node[2], node[3]
        if not is_vec(t) or not (0 <= lo <= hi < t[1]):
            raise IllTyped("slice")
        return bv(hi - lo + 1)
    if k == "part":
        fn, x, count, rest = node[1], node[2], node[3], node[4]
        t = typeof(x)
        if not is_vec(t) or fn not in ("msb", "lsb", "left", "right"):
            raise IllTyped("part")
        if count is None and rest is None:
            return BIT
        if count is not None and rest is not None:
            raise IllTyped("part: count and rest")
        n = count if count is not None else t[1] - rest
        if not (1 <= n <= t[1]):
            raise IllTyped("part width")
        return bv(n)
    if k == "view":
        t = typeof(node[2])
        if not is_vec(t):
            raise IllTyped("view")
        return ({"signed": "s", "unsigned": "u", "bitvector": "bv"}[node[1]], t[1])
    if k == "resize":
        t = typeof(node[1])
        w, z = node[2], node[3]
        if not is_num(t) or z < 0:
            raise IllTyped("resize")
        if w is None:
            w = t[1] + z
        if w < t[1] + z:
            raise IllTyped("resize narrower")
        return (t[0], w)
    if k == "sel":
        arg, branches, default = node[1], node[2], node[3]
        ta = typeof(arg)
        if ta not in (BIT, BOOL) and not is_vec(ta) and ta[0] != "enum":
            raise IllTyped("sel arg")
        dom = set(domain(ta))
        keys = [kk for kk, _ in branches]  # python keys: equal values may occur under different spellings
        if len(set(keys)) != len(keys) or not keys or any(key_value(kk) not in dom for kk in keys):
            raise IllTyped("sel keys")
        for kk in keys:
            if isinstance(kk, tuple) and kk[0] == "alias" and kk[1] == "int" and ta[0] != "u":
                raise IllTyped("int key")
        vals = [e for _, e in branches] + ([default] if default is not None else [])
        if any(is_nf(e) for e in vals):
            ts = {typeof(e) for e in vals if not is_nf(e)}
            if len(ts) != 1 or any(is_lit(e) for e in vals):
                raise IllTyped("sel with Null/Full")
            t = next(iter(ts))
            if not (t == BIT or is_vec(t)):
                raise IllTyped("sel with Null/Full")
            return t
        ts = {typeof(e) for e in vals if not is_lit(e)}
        if len(ts) != 1:
            raise IllTyped("sel value types")
        t = next(iter(ts))
        for e in vals:
            if is_lit(e) and (not is_num(t) or not representable(t, e[1])):
                raise IllTyped("sel literal")
        if t[0] == "arr":
            raise IllTyped("sel of arrays")
        return t
    if k == "anyall":
        if not node[2]:
            raise IllTyped("anyall empty")
        for e in node[2]:
            if not is_lit(e):  # builtin any()/all(): python ints count by their truth value
                truth_ok(typeof(e))
        if all(is_lit(e) for e in node[2]):
            raise IllTyped("anyall of literals")
        return BOOL
    if k == "anyvec":
        if not is_vec(typeof(node[2])):
            raise IllTyped("anyvec")
        return BOOL
    if k == "iter":
        t = typeof(node[2])
        if not is_vec(t):
            raise IllTyped("iter")
        return {"reverse": bv(t[1]), "stretch2": bv(2 * t[1]), "catnot": bv(t[1])}.get(node[1], BOOL)
    if k == "src":
        t = typeof(node[2])
        if is_lit(node[2]) or t[0] in ("arr", "enum") or t == INT:
            raise IllTyped("src")
        return t
    if k == "multi":
        t = typeof(node[1])
        if not is_vec(t) or len(node[2]) < 2:
            raise IllTyped("multi")
        w = 0
        for part in node[2]:
            if part[0] == "i":
                if not (0 <= part[1] < t[1]):
                    raise IllTyped("multi index")
                w += 1
            else:
                if not (0 <= part[2] <= part[1] < t[1]):
                    raise IllTyped("multi slice")
                w += part[1] - part[2] + 1
        return bv(w)
    if k == "conv":
        src, dst = typeof(node[3]), node[2]
        if not convertible(src, dst) or is_lit(node[3]):
            raise IllTyped(f"conversion {src} -> {dst}")
        return dst
    if k == "aidx":
        t = typeof(node[1])
        if t[0] != "arr" or not (0 <= node[2] < t[2]):
            raise IllTyped("aidx")
        return t[1]
    if k == "aidxrt":
        t = typeof(node[1])
        ti = typeof(node[2])
        if t[0] != "arr" or not (is_num(ti) or ti == INT) or is_lit(node[2]):
            raise IllTyped("aidxrt")
        return t[1]
    raise IllTyped(f"unknown node {k}")


def convertible(src, dst):
    """conversions on assignment / construction with a documented, value preserving meaning
    (Unsigned._assign / Signed._assign / __init__ signatures; upstream test_assignment_0x, test_signed_0x)"""
    if src in (BIT, BOOL) and dst in (BIT, BOOL):
        return True
    if not (is_vec(src) and is_vec(dst)):
        return False
    ks, ws, kd, wd = src[0], src[1], dst[0], dst[1]
    if ks == kd:
        return wd >= ws if ks in ("u", "s") else wd == ws
    if ks == "u" and kd == "s":
        return wd > ws  # by value; needs one more bit
    if ks == "s" and kd == "u":
        return False
    return wd == ws  # BitVector <-> Unsigned/Signed: same width, bit pattern


def key_value(k):
    return k[2] if isinstance(k, tuple) and k and k[0] == "alias" else k


def truth_ok(t):
    if not (t in (BIT, BOOL) or is_vec(t)):
        raise IllTyped(f"no truth value: {t}")


def _num_pair(l, r):
    """operand kinds of a numeric binary operation -> (kind, wl, wr) where w is None for ints"""
    tl, tr = typeof(l), typeof(r)
    if is_num(tl) and is_num(tr):
        if tl[0] != tr[0]:
            raise IllTyped("mixed signedness")
        return tl[0], tl[1], tr[1]
    if is_num(tl) and tr == INT:
        return tl[0], tl[1], None
    if tl == INT and is_num(tr):
        return tr[0], None, tr[1]
    if tl == INT and tr == INT:
        if is_lit(l) and is_lit(r):
            raise IllTyped("two literals")
        return "int", None, None
    raise IllTyped(f"numeric operands {tl} {tr}")


def _bin_type(op, l, r):
    if op in ARITH:
        kind, wl, wr = _num_pair(l, r)
        if kind == "int":
            if op == "fdiv":
                raise IllTyped("Integer // is outside the alphabet")  # floor vs. truncation: not generated
            return INT
        if op == "fdiv" and (kind != "u" or wl is None or wr is None):
            raise IllTyped("// is documented for Unsigned // Unsigned only")
        if wl is None:
            wl = wr
        if wr is None:
            wr = wl
        if op in ("add", "sub"):
            return (kind, max(wl, wr))
        if op == "mul":
            return (kind, wl + wr)
        if op in ("fdiv", "tdiv"):
            return (kind, wl)
        return (kind, wr)  # mod, rem: divisor
    if op in BITWISE:
        tl, tr = typeof(l), typeof(r)
        if tl != tr or not (tl == BIT or is_vec(tl)):
            raise IllTyped("bitwise operands")
        return tl
    if op == "cat":
        tl, tr = typeof(l), typeof(r)
        if not ((tl == BIT or is_vec(tl)) and (tr == BIT or is_vec(tr))):
            raise IllTyped("cat operands")
        return bv(width(tl) + width(tr))
    if op in ("shl", "shr"):
        tl, tr = typeof(l), typeof(r)
        if not is_num(tl):
            raise IllTyped("shift target")
        if tr[0] == "u" or tr == INT:
            if is_lit(r) and r[1] < 0:
                raise IllTyped("negative shift literal")
            return tl
        raise IllTyped("shift amount")
    raise IllTyped(op)


def _cmp_check(op, l, r):
    tl, tr = typeof(l), typeof(r)
    if (is_num(tl) or tl == INT) and (is_num(tr) or tr == INT):
        _num_pair(l, r)
        return
    if op in ("eq", "ne") and tl == tr and (tl in (BIT, BOOL) or tl[0] in ("bv", "enum")):
        return
    raise IllTyped(f"cmp {op} {tl} {tr}")


# ---------------------------------------------------------------------------------------------
# evaluation
# ---------------------------------------------------------------------------------------------
def evaluate(node, env):
    """env: slot -> value.  Returns a value of typeof(node) or OPEN; raises Outside."""
    k = node[0]
    if k == "in":
        return env[node[2]]
    if k == "lit":
        return node[1]
    if k == "const":
        return node[2]
    if k == "bin":
        return _bin_val(node, env)
    if k == "cmp":
        ops, es = node[1], node[2]
        vals = [evaluate(e, env) for e in es]  # every operand is evaluated (they have no side effects)
        if any(v is OPEN for v in vals):
            return OPEN
        res = True
        for i, op in enumerate(ops):
            res = res and _cmp_val(op, es[i], vals[i], es[i + 1], vals[i + 1])
        return res
    if k == "un":
        op, x = node[1], node[2]
        t = typeof(x)
        v = evaluate(x, env)
        if v is OPEN:
            return OPEN
        if op == "inv":
            return (1 - v) if t == BIT else (~v) & mask(t[1])
        if op == "neg":
            if t == INT:
                return -v
            return wrap(t, -num(t, v))
        if op == "abs":
            return wrap(t, abs(num(t, v)))
        if op == "not":
            return not truth(t, v)
    if k == "bool":
        vals = [(typeof(e), evaluate(e, env)) for e in node[2]]
        if any(v is OPEN for _, v in vals):
            return OPEN
        ts = [truth(t, v) for t, v in vals]
        return all(ts) if node[1] == "and" else any(ts)
    if k == "tobool":
        v = evaluate(node[1], env)
        return OPEN if v is OPEN else truth(typeof(node[1]), v)
    if k == "null":
        return NULLV
    if k == "full":
        return FULLV
    if k == "bound":
        return env["__bound__"]
    if k == "shared":
        v = evaluate(node[1], env)
        env2 = dict(env)
        env2["__bound__"] = v
        return evaluate(node[2], env2)
    if k in ("if", "ifret"):
        c, a, b = node[1], node[2], node[3]
        t = typeof(node)
        cv = evaluate(c, env)
        av, bvv = evaluate(a, env), evaluate(b, env)  # both sides exist in hardware: both must be in the alphabet
        if cv is OPEN:
            return OPEN
        chosen, cn = (av, a) if truth(typeof(c), cv) else (bvv, b)
        if chosen is OPEN:
            return OPEN
        return wrap(t, chosen) if is_lit(cn) else chosen
    if k == "idx":
        v = evaluate(node[1], env)
        return OPEN if v is OPEN else (v >> node[2]) & 1
    if k == "idxrt":
        t = typeof(node[1])
        v = evaluate(node[1], env)
        i = evaluate(node[2], env)
        if v is OPEN or i is OPEN:
            return OPEN
        i = num(typeof(node[2]), i)
        if not (0 <= i < t[1]):
            raise Outside("index out of range")
        _all_alternatives(node[2], env, typeof(node[2]), lambda m: 0 <= m < t[1], "index out of range (unselected alternative)")
        return (v >> i) & 1
    if k == "slice":
        v = evaluate(node[1], env)
        return OPEN if v is OPEN else (v >> node[3]) & mask(node[2] - node[3] + 1)
    if k == "part":
        fn, x, count, rest = node[1], node[2], node[3], node[4]
        t = typeof(x)
        v = evaluate(x, env)
        if v is OPEN:
            return OPEN
        w = t[1]
        high = fn in ("msb", "left")  # all vectors of the alphabet are `downto`: the left end is the msb
        if count is None and rest is None:
            return (v >> (w - 1)) & 1 if high else v & 1
        n = count if count is not None else w - rest
        return (v >> (w - n)) & mask(n) if high else v & mask(n)
    if k == "view":
        return evaluate(node[2], env)
    if k == "resize":
        t = typeof(node[1])
        tr = typeof(node)
        v = evaluate(node[1], env)
        return OPEN if v is OPEN else wrap(tr, num(t, v) * (1 << node[3]))
    if k == "sel":
        arg, branches, default = node[1], node[2], node[3]
        t = typeof(node)
        av = evaluate(arg, env)
        vals = {kk: evaluate(e, env) for kk, e in branches}
        dv = evaluate(default, env) if default is not None else None
        if av is OPEN:
            return OPEN
        for kk, e in branches:
            if key_value(kk) == av:  # first matching key
                r = vals[kk]
                return r if r is OPEN else (wrap(t, r) if is_lit(e) else r)
        if default is None:
            raise Outside("select_with: no matching key and no default")
        return dv if dv is OPEN else (wrap(t, dv) if is_lit(default) else dv)
    if k == "anyall":
        vals = [(typeof(e), evaluate(e, env)) for e in node[2]]
        if any(v is OPEN for _, v in vals):
            return OPEN
        ts = [truth(t, v) for t, v in vals]
        return any(ts) if node[1] == "any" else all(ts)
    if k == "anyvec":
        t = typeof(node[2])
        v = evaluate(node[2], env)
        if v is OPEN:
            return OPEN
        return (v != 0) if node[1] == "any" else (v == mask(t[1]))
    if k == "iter":
        t = typeof(node[2])
        v = evaluate(node[2], env)
        if v is OPEN:
            return OPEN
        w = t[1]
        bits = [(v >> i) & 1 for i in range(w)]  # index order
        if node[1] == "reverse":
            return sum(b << (w - 1 - i) for i, b in enumerate(bits))
        if node[1] == "stretch2":
            return sum((3 * b) << (2 * i) for i, b in enumerate(bits))
        if node[1] == "catnot":
            # iteration visits index 0 first, the first argument of concat forms the most significant bit
            return sum((1 - b) << (w - 1 - i) for i, b in enumerate(bits))
        if node[1] == "anycomp":
            return any(bits)
        if node[1] == "allstar":
            return all(bits)
        raise IllTyped(node[1])
    if k == "src":
        return evaluate(node[2], env)
    if k == "multi":
        v = evaluate(node[1], env)
        if v is OPEN:
            return OPEN
        r = 0
        for part in node[2]:
            if part[0] == "i":
                r = (r << 1) | ((v >> part[1]) & 1)
            else:
                wpart = part[1] - part[2] + 1
                r = (r << wpart) | ((v >> part[2]) & mask(wpart))
        return r
    if k == "conv":
        src, dst = typeof(node[3]), node[2]
        v = evaluate(node[3], env)
        if v is OPEN:
            return OPEN
        if isinstance(v, _NF):
            return resolve_nf(dst, v)
        if dst == BOOL:
            return truth(src, v)
        if dst == BIT:
            return 1 if truth(src, v) else 0
        if is_num(src) and is_num(dst):
            return wrap(dst, num(src, v))  # by value: zero extension of Unsigned, sign extension of Signed
        return v  # same width: the bit pattern
    if k == "aidx":
        v = evaluate(node[1], env)
        return v[node[2]]
    if k == "aidxrt":
        t = typeof(node[1])
        v = evaluate(node[1], env)
        i = evaluate(node[2], env)
        if i is OPEN:
            return OPEN
        i = num(typeof(node[2]), i)
        if not (0 <= i < t[2]):
            raise Outside("array index out of range")
        _all_alternatives(node[2], env, typeof(node[2]), lambda m: 0 <= m < t[2], "array index out of range (unselected alternative)")
        return v[i]
    raise IllTyped(f"unknown node {k}")


def alternatives(node, env):
    """Values an operand can hold transiently: the emitted design computes `a if c else b` and select_with through a
    selected assignment whose selector may lag one delta cycle behind the alternatives (and is FALSE at time 0 for
    boolean conditions), so an operand with a domain constraint (divisor, index, shift amount) must satisfy the
    constraint for every alternative, not only for the selected one; otherwise the valuation is outside the alphabet."""
    k = node[0]
    if k == "if":
        t = typeof(node)
        out = set()
        for e in (node[2], node[3]):
            for v in alternatives(e, env):
                out.add(wrap(t, v) if is_lit(e) and v is not OPEN else v)
        return out
    if k == "sel":
        t = typeof(node)
        out = set()
        for e in [e for _, e in node[2]] + ([node[3]] if node[3] is not None else []):
            for v in alternatives(e, env):
                out.add(wrap(t, v) if is_lit(e) and v is not OPEN else v)
        return out
    return {evaluate(node, env)}


def _all_alternatives(node, env, t, pred, why):
    for v in alternatives(node, env):
        if v is OPEN:
            continue
        if not pred(num(t, v)):
            raise Outside(why)


def _bin_val(node, env):
    op, l, r = node[1], node[2], node[3]
    tl, tr = typeof(l), typeof(r)
    t = typeof(node)
    lv, rv = evaluate(l, env), evaluate(r, env)
    if lv is OPEN or rv is OPEN:
        return OPEN
    if op in ARITH:
        if t == INT:
            a, b = lv, rv
        else:
            # an int operand takes the type of the vector operand
            vt = tl if is_num(tl) else tr
            a, b = num(tl, lv), num(tr, rv)
            if op in ("fdiv", "tdiv", "mod", "rem"):
                if b == 0:
                    raise Outside("division by zero")
                _all_alternatives(r, env, tr, lambda n: n != 0, "division by zero (unselected alternative)")
            for e, tt, vv in ((l, tl, lv), (r, tr, rv)):
                if tt == INT and not representable(vt, vv):
                    if is_lit(e):
                        return OPEN  # no documented value for an integer outside the operand type's range
                    raise Outside("run-time Integer not representable in the vector operand's type")
        if op == "add":
            n = a + b
        elif op == "sub":
            n = a - b
        elif op == "mul":
            n = a * b
        else:
            if b == 0:
                raise Outside("division by zero")
            if t == INT:
                _all_alternatives(r, env, tr, lambda n: n != 0, "division by zero (unselected alternative)")
            if op in ("fdiv", "tdiv"):
                n = _trunc_div(a, b)
            elif op == "mod":
                n = a % b  # sign of the divisor (python % == VHDL mod)
            else:
                n = a - b * _trunc_div(a, b)  # sign of the dividend
        return n if t == INT else wrap(t, n)
    if op in BITWISE:
        return {"and": lv & rv, "or": lv | rv, "xor": lv ^ rv}[op]
    if op == "cat":
        return (lv << width(tr)) | rv  # left operand = most significant bits
    if op in ("shl", "shr"):
        n = num(tr, rv)
        if n < 0:
            raise Outside("negative shift amount")
        _all_alternatives(r, env, tr, lambda m: m >= 0, "negative shift amount (unselected alternative)")
        w = tl[1]
        if op == "shl":
            return (lv << n) & mask(w) if n < w + 1 else 0
        return wrap(tl, num(tl, lv) >> n)  # python >> on the numeric value: logical for u, arithmetic for s
    raise IllTyped(op)


def _cmp_val(op, l, lv, r, rv):
    tl, tr = typeof(l), typeof(r)
    if (is_num(tl) or tl == INT) and (is_num(tr) or tr == INT):
        for e, tt, vv, ot in ((l, tl, lv, tr), (r, tr, rv, tl)):
            if tt == INT and not is_lit(e) and is_num(ot) and not representable(ot, vv):
                raise Outside("run-time Integer not representable in the vector operand's type")
        a, b = num(tl, lv), num(tr, rv)  # literal ints: mathematical comparison, whatever their size
    else:
        a, b = lv, rv
    return {"eq": a == b, "ne": a != b, "lt": a < b, "le": a <= b, "gt": a > b, "ge": a >= b}[op]


# ---------------------------------------------------------------------------------------------
def leaves(node, acc=None):
    """{slot: type} of all operands of a tree"""
    if acc is None:
        acc = {}
    if isinstance(node, tuple):
        if node and node[0] == "in":
            prev = acc.get(node[2])
            if prev is not None and prev != node[1]:
                raise IllTyped("slot reused with a different type")
            acc[node[2]] = node[1]
            return acc
        if node and node[0] in ("lit", "const", "bound", "null", "full"):
            return acc
        for x in (node[1:] if isinstance(node[0], str) else node):
            if isinstance(x, tuple):
                leaves(x, acc)
    return acc


def has_open_literal(node):
    """True if some valuation may be OPEN (used for statistics only)"""
    return "lit" in repr(node)


def valuations(node):
    """all operand valuations of a tree, as (env, result) with result a value or OPEN; valuations outside the
    alphabet are dropped (counted by the caller via the returned number)"""
    import itertools

    lv = leaves(node)
    slots = sorted(lv)
    out = []
    outside = 0
    for combo in itertools.product(*[domain(lv[sl]) for sl in slots]):
        env = dict(zip(slots, combo))
        try:
            res = resolve_nf(typeof(node), evaluate(node, env))
        except Outside:
            outside += 1
            continue
        out.append((env, res))
    return out, outside

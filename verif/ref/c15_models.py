"""C15 reference: the hand-over monitor, written from the property statement and utility.pyi
(SyncFlag.set: "Set the flag. This has no effect when it is already set.", clear: "...after a received set was
processed", Mailbox.send: "Put data into Mailbox and mark it as valid", receive: "Wait until data becomes valid and
return it. This method clears the valid flag", data(): "only valid when is_set()").

State: `pending` = None (no event outstanding) or the payload of the one event that has been issued while the
producer observed the flag clear and has not yet been cleared by the consumer (0 for a plain flag).
The monitor also numbers the events (issued / delivered counters) for reporting; the counters are not part of the
explored state (they are unbounded), `pending` is.

Every rule is one clause of the statement:
  R1  consumer observes set  =>  an event is pending              (exactly once: never a consumed / never issued set)
  R2  consumer consumes      =>  payload read == payload pending  (unmodified, in order - one outstanding at a time)
  R3  producer observes clear => no event is pending              (clear again only after the consumer cleared;
                                                                   otherwise the next set would be lost)
  R4  set issued while the producer observes set => nothing changes (monitor state untouched; any effect shows up
                                                                   as a later R1/R2/R3 or liveness failure)
  R5  is_set()/is_clear() of one context are complementary
Liveness (decided on the reachable set by the check): a pending event is delivered when the consumer is willing;
with an idle environment the producer ends up observing clear iff nothing is pending and the consumer observing set
iff something is.
"""
from __future__ import annotations


class HandoverMonitor:
    def __init__(self):
        self.pending = None
        self.issued_n = 0
        self.delivered_n = 0
        self.ineffective_n = 0

    # --- plain-process wrappers: full per-clock observations -------------------------------------------------
    def step(self, p_clear, p_set, issued, sent, c_set, c_clear, consumed, got):
        pend = self.pending
        if p_clear == p_set:
            return f"producer context: is_clear()={p_clear} and is_set()={p_set} at the same clock edge"
        if c_clear == c_set:
            return f"consumer context: is_clear()={c_clear} and is_set()={c_set} at the same clock edge"
        if c_set and pend is None:
            return ("consumer observes the flag set although no event is outstanding: "
                    "a consumed set is observed again / a set that was never issued is observed")
        if p_clear and pend is not None:
            return ("producer observes the flag clear although its event has not been cleared by the consumer yet "
                    "(a further set would be lost)")
        if consumed:
            if not c_set:
                return "wrapper inconsistency: consumed without c_set"
            if got is not None and got != pend:
                return f"consumer read payload {got}, payload sent was {pend}"
            self.pending = None
            self.delivered_n += 1
        if issued:
            if p_clear:
                self.pending = sent if sent is not None else 0
                self.issued_n += 1
            else:
                self.ineffective_n += 1
        return None

    # --- coroutine wrappers: event pulses only --------------------------------------------------------------
    def events(self, sent, sent_data, saw_clear, got, got_data):
        if saw_clear and self.pending is not None:
            return "producer's `await is_clear()` completed although the consumer has not cleared the event yet"
        if got:
            if self.pending is None:
                return "consumer received an event although none is outstanding: double delivery"
            if got_data is not None and got_data != self.pending:
                return f"consumer received payload {got_data}, payload sent was {self.pending}"
            self.pending = None
            self.delivered_n += 1
        if sent:
            if self.pending is not None:
                return "producer issued a new event while the previous one is still outstanding (it saw the flag clear too early)"
            self.pending = sent_data if sent_data is not None else 0
            self.issued_n += 1
        return None

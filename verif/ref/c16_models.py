"""Reference models for C16 (std timing utilities).

Every model is a small (possibly nondeterministic) step machine written from the property statement, the
.pyi docstrings (cohdl/std/utility.pyi, _context.pyi) and the upstream mock testbenches
(tests/reference_builds/std/utility/test_wait_for.py, test_delay.py, test_toggle_signal_0*.py,
test_clock_divider_01.py, test_debounce.py) -- not from cohdl/std/utility.py.

Interface used by the product system (verif/checks/C16.py):

    input_names : list[str]          ports driven by the environment each clock
    menu        : list[tuple]        all admissible valuations of input_names (the per-clock alphabet)
    outputs     : list[str]          compared output ports
    init()      -> list[state]       candidate initial states (hashable)
    step(state, inp) -> list[(state', expected)]
                                     expected is a tuple aligned with `outputs`; None = not constrained.

Where the sources leave a phase open the model is nondeterministic (several successors / None entries);
the product system keeps the set of candidates that are consistent with what the design did and reports
a violation only when that set becomes empty.
"""
from __future__ import annotations

import itertools
from fractions import Fraction

# ---------------------------------------------------------------------------------------------
# Duration arithmetic (exact)
# ---------------------------------------------------------------------------------------------
TIME_UNITS = {"ps": Fraction(1, 10**12), "ns": Fraction(1, 10**9), "us": Fraction(1, 10**6), "ms": Fraction(1, 10**3)}
FREQ_UNITS = {"Hz": 1, "kHz": 10**3, "MHz": 10**6, "GHz": 10**9}


def duration_seconds(dur):
    """dur = (unit, "decimal text")"""
    return Fraction(dur[1]) * TIME_UNITS[dur[0]]


def clock_period_seconds(clk):
    """clk = ("frequency", unit, text) | ("period", unit, text)"""
    if clk[0] == "frequency":
        return 1 / (Fraction(clk[2]) * FREQ_UNITS[clk[1]])
    return Fraction(clk[2]) * TIME_UNITS[clk[1]]


def duration_ticks_exact(dur, clk):
    """exact rational number of clock periods in the duration"""
    return duration_seconds(dur) / clock_period_seconds(clk)


def duration_ticks(dur, clk):
    """exact number of clock periods in the duration, or None when the clock period does not divide it
    (then the documented behaviour is a rejection: count_periods' allowed_delta of 1e-9)."""
    r = duration_seconds(dur) / clock_period_seconds(clk)
    if r.denominator == 1:
        return int(r)
    # all generated non-dividing cases are far away from an integer
    assert abs(r - round(r)) / r > Fraction(1, 10**6), "generator produced a near-integer ratio"
    return None


def rst_domain(active_low):
    """physical values of the reset input, the inactive level first"""
    return (1, 0) if active_low else (0, 1)


def product_menu(names, domains, pred=None):
    out = []
    for vals in itertools.product(*[domains[n] for n in names]):
        if pred is None or pred(dict(zip(names, vals))):
            out.append(vals)
    return out


# ---------------------------------------------------------------------------------------------
# wait_for / Waiter: a linear coroutine program
# ---------------------------------------------------------------------------------------------
def flatten_prog(prog):
    """structured program -> flat op list with jumps.
    statements: ("await",) | ("mark", i) | ("wait", spec) | ("if", then, else) | ("call", body)"""
    ops = []

    def emit(block):
        for st in block:
            k = st[0]
            if k in ("await", "mark", "wait"):
                ops.append(st)
            elif k == "call":
                emit(st[1])
            elif k == "if":
                br = len(ops)
                ops.append(None)
                emit(st[1])
                jm = len(ops)
                ops.append(None)
                ops[br] = ("br", len(ops))
                emit(st[2])
                ops[jm] = ("jmp", len(ops))
            else:
                raise ValueError(st)

    emit(prog)
    return ops


class WaitModel:
    """Timing convention (same as C01's reference machine and the upstream test_wait_for testbench):
    the first action of the process -- always `await self.start` here -- is evaluated in the clock in which the
    coroutine (re)starts; a finished coroutine restarts on the next clock; an await that is reached later is
    polled starting with the following clock; marks / branches take no time; `wait n` reached in clock t
    resumes in clock t+n (n = 0: continues in clock t); a run-time n is the value of the input in clock t."""

    def __init__(self, prog, nmarks, n_values=None, has_sel=False, has_rst=False, rst_active_low=False):
        self.ops = flatten_prog(prog)
        assert self.ops[0][0] == "await"
        self.nmarks = nmarks
        self.has_rst = has_rst
        self.rst_on = 0 if rst_active_low else 1
        self.input_names = ["start"] + (["n"] if n_values is not None else []) + (["sel"] if has_sel else []) + \
            (["rst"] if has_rst else [])
        dom = {"start": (0, 1), "n": tuple(n_values or ()), "sel": (0, 1), "rst": rst_domain(rst_active_low)}
        self.menu = product_menu(self.input_names, dom)
        self.outputs = [f"m{i}" for i in range(nmarks)]
        self._idx = {n: i for i, n in enumerate(self.input_names)}

    def init(self):
        return [(0, 0)]

    def step(self, st, inp):
        pc, cnt = st
        ops = self.ops
        pulses = [0] * self.nmarks
        if self.has_rst and inp[self._idx["rst"]] == self.rst_on:
            # reset of the context: the coroutine starts again with its first action in the first clock after
            # the reset; pushed marker pulses are back at their default
            return [((0, 0), tuple(pulses))]
        if cnt > 0:
            cnt -= 1
            if cnt > 0:
                return [((pc, cnt), tuple(pulses))]
            pc += 1
        else:
            if not inp[self._idx["start"]]:
                return [(st, tuple(pulses))]
            pc += 1
        while True:
            if pc == len(ops):
                return [((0, 0), tuple(pulses))]
            op = ops[pc]
            k = op[0]
            if k == "mark":
                pulses[op[1]] = 1
                pc += 1
            elif k == "wait":
                spec = op[1]
                n = inp[self._idx["n"]] if spec[0] == "rt" else spec[1]
                if n == 0:
                    pc += 1
                else:
                    return [((pc, n), tuple(pulses))]
            elif k == "await":
                return [((pc, 0), tuple(pulses))]
            elif k == "br":
                pc = pc + 1 if inp[self._idx["sel"]] else op[1]
            elif k == "jmp":
                pc = op[1]


# ---------------------------------------------------------------------------------------------
# delayed / DelayLine
# ---------------------------------------------------------------------------------------------
class DelayModel:
    """taps: list of tap indices observed.  mode:
       "seq"  : line constructed inside a clocked process; the taps are copied to registered outputs
                `o_k <<= line[k]` in the same process -> after edge t: o_k = x(t-k) (initial for t<k), and the
                line only advances in clocks in which it is evaluated (`gated`: inside `if self.en:`), as in the
                worked table of std.delayed's docstring and the deque mock of test_delay.py.
       "ctx"  : line constructed with ctx=..., advancing every clock; taps read combinationally:
                after edge t: tap_k = x(t-k+1) for k>=1, tap_0 = x(t).
    Unknown values (no `initial`) are None and are not compared."""

    def __init__(self, delay, taps, x_values, initial, mode="seq", gated=False):
        self.delay = delay
        self.taps = list(taps)
        self.mode = mode
        self.gated = gated
        self.initial = initial
        self.input_names = ["x"] + (["en"] if gated else [])
        self.menu = product_menu(self.input_names, {"x": tuple(x_values), "en": (0, 1)})
        self.outputs = [f"o{k}" for k in self.taps]

    def init(self):
        regs = (self.initial,) * self.delay
        outs = (None,) * len(self.taps)
        return [(regs, outs)]

    def step(self, st, inp):
        regs, outs = st
        x = inp[0]
        if self.gated and not inp[1]:
            return [(st, outs)]
        line = (x,) + regs
        new_regs = line[: self.delay]
        if self.mode == "seq":
            new_outs = tuple(line[k] for k in self.taps)
        else:
            new_line = (x,) + new_regs
            new_outs = tuple(new_line[k] for k in self.taps)
        return [((new_regs, new_outs), new_outs)]


# ---------------------------------------------------------------------------------------------
# continuous_counter
# ---------------------------------------------------------------------------------------------
class CounterModel:
    """`0-1-...-limit-0-...`, one step per tick; with a run-time limit that was lowered below the current
    count the docs say nothing -> any next value is accepted.  on_change receives the new value (observed on
    `onext`, not constrained in reset clocks).  A reset of the context sets the counter to 0."""

    def __init__(self, limit, limit_values=None, has_rst=False, maxval=15, rst_active_low=False):
        self.limit = limit
        self.rt = limit_values is not None
        self.has_rst = has_rst
        self.rst_on = 0 if rst_active_low else 1
        self.maxval = maxval
        self.input_names = (["lim"] if self.rt else []) + (["rst"] if has_rst else [])
        self.menu = product_menu(self.input_names, {"lim": tuple(limit_values or ()), "rst": rst_domain(rst_active_low)})
        self.outputs = ["cnt", "onext"]
        self._idx = {n: i for i, n in enumerate(self.input_names)}

    def init(self):
        return [(0, None)]

    def step(self, st, inp):
        cnt, onext = st
        if self.has_rst and inp[self._idx["rst"]] == self.rst_on:
            return [((0, None), (0, None))]
        lim = inp[self._idx["lim"]] if self.rt else self.limit
        if cnt == lim:
            nxt = [0]
        elif cnt < lim:
            nxt = [cnt + 1]
        else:
            nxt = list(range(self.maxval + 1))
        return [((v, v), (v, v)) for v in nxt]


# ---------------------------------------------------------------------------------------------
# enable/reset plumbing shared by ToggleSignal and ClockDivider wrappers
# ---------------------------------------------------------------------------------------------
class _EnableMixin:
    """style "none": never disabled (unless require_enable, then never enabled);
       style "sig" : the reset signal is driven concurrently from input `dis` -> disabled in tick t iff dis(t);
       style "call": a clocked process calls enable()/disable() depending on input `en` -> the reset signal takes
                     the new value after that tick, i.e. disabled in tick t iff not en(t-1)
                     (before the first tick: the require_enable option).
       With an asynchronous context reset the derived context (`or_reset` inherits is_async) is reset as soon as
       the reset signal rises: a disable() issued in tick t already shows the reset state after tick t."""

    def _enable_inputs(self):
        return {"none": [], "sig": ["dis"], "call": ["en"]}[self.style]

    def _disabled(self, pend, inp):
        """returns (disabled_now, new_pending)"""
        if self.style == "none":
            return bool(self.require_enable), pend
        if self.style == "sig":
            return bool(inp[self._idx["dis"]]), pend
        return bool(pend), (0 if inp[self._idx["en"]] else 1)

    def _async_disabled_after(self, pend):
        """reset signal high after this tick and the derived context is asynchronous"""
        return self.style == "call" and self.async_rst and bool(pend)


# ---------------------------------------------------------------------------------------------
# ToggleSignal  (transcription of upstream ToggleMock, test_toggle_signal_01/02)
# ---------------------------------------------------------------------------------------------
class ToggleModel(_EnableMixin):
    """ToggleMock: while reset/disabled the period counter is 0, state = default_state, no pulses.  Otherwise the
    counter is advanced first (wrap when cnt+1 >= first+second), then state = first_state while cnt < first,
    else not first_state; rising/falling pulse for one tick when the state differs from the previous one.
    The callbacks fire in the same tick as the pulses.

    Power-on without any reset: the mock starts from cnt=-1 but upstream never exercised that path (both
    testbenches start in reset) while the prose only speaks about the sequence after a reset -> both -1 and 0
    ("as if it had been reset") are admitted as initial counter values."""

    def __init__(self, first, second, first_values=None, second_values=None, default_state=0, first_state=0,
                 require_enable=False, style="none", ctx_rst=False, rst_active_low=False, async_rst=False):
        self.first, self.second = first, second
        self.async_rst = async_rst
        self.rst_on = 0 if rst_active_low else 1
        self.rt1 = first_values is not None
        self.rt2 = second_values is not None
        self.default = int(default_state)
        self.first_state = int(first_state)
        self.require_enable = require_enable
        self.style = style
        self.ctx_rst = ctx_rst
        self.input_names = (["first"] if self.rt1 else []) + (["second"] if self.rt2 else []) + \
            self._enable_inputs() + (["rst"] if ctx_rst else [])
        dom = {"first": tuple(first_values or ()), "second": tuple(second_values or ()), "dis": (0, 1), "en": (0, 1),
               "rst": rst_domain(rst_active_low)}
        self._idx = {n: i for i, n in enumerate(self.input_names)}

        def ok(v):
            f = v["first"] if self.rt1 else self.first
            s = v["second"] if self.rt2 else self.second
            return f + s >= 1

        self.menu = product_menu(self.input_names, dom, ok)
        self.outputs = ["state", "rising", "falling", "cb_r", "cb_f"]

    def init(self):
        pend = 1 if self.require_enable else 0
        return [(-1, self.default, pend), (0, self.default, pend)]

    def step(self, st, inp):
        cnt, state, pend = st
        disabled, pend = self._disabled(pend, inp)
        if self.ctx_rst and inp[self._idx["rst"]] == self.rst_on:
            # reset of the parent context: the toggle runs in `ctx.or_reset(reset_signal)`, so a context reset
            # acts exactly like a disabled tick (ToggleMock's reset branch); the wrapper's enable()/disable()
            # process has no reset and keeps tracking `en`
            disabled = True
        if disabled:
            return [((0, self.default, pend), (self.default, 0, 0, 0, 0))]
        first = inp[self._idx["first"]] if self.rt1 else self.first
        second = inp[self._idx["second"]] if self.rt2 else self.second
        cnt = 0 if cnt + 1 >= first + second else cnt + 1
        new = self.first_state if cnt < first else 1 - self.first_state
        rising = int(state == 0 and new == 1)
        falling = int(state == 1 and new == 0)
        if self._async_disabled_after(pend):
            return [((0, self.default, pend), (self.default, 0, 0, 0, 0))]
        return [((cnt, new, pend), (new, rising, falling, rising, falling))]


# ---------------------------------------------------------------------------------------------
# ClockDivider  (transcription of upstream MockClkDivider, test_clock_divider_01)
# ---------------------------------------------------------------------------------------------
UNKNOWN = "?"


class DividerModel(_EnableMixin):
    """MockClkDivider: k = index of the tick since power-on / since the divider was last disabled (first enabled
    tick: k=0).  state = not default_state when k % duration == duration-1 (tick_at_start: == 0), else
    default_state.  While disabled: state = default_state, no pulses.  rising/falling for one tick when the
    state changes (relative to default_state after a disabled phase).

    Run-time duration: no upstream mock.  As long as the duration input has had the same value in every enabled
    tick since the divider was last disabled, it behaves like the constant; after a change of the duration the
    phase is open until the next disabled tick (only the pulse/state consistency is still required)."""

    def __init__(self, duration, duration_values=None, default_state=0, tick_at_start=False, require_enable=False,
                 style="none", ctx_rst=False, rst_active_low=False, async_rst=False):
        self.duration = duration
        self.async_rst = async_rst
        self.ctx_rst = ctx_rst
        self.rst_on = 0 if rst_active_low else 1
        self.rt = duration_values is not None
        self.default = int(default_state)
        self.tick_at_start = tick_at_start
        self.require_enable = require_enable
        self.style = style
        self.input_names = (["dur"] if self.rt else []) + self._enable_inputs() + (["rst"] if ctx_rst else [])
        self._idx = {n: i for i, n in enumerate(self.input_names)}
        self.menu = product_menu(self.input_names, {"dur": tuple(duration_values or ()), "dis": (0, 1), "en": (0, 1),
                                                    "rst": rst_domain(rst_active_low)})
        self.outputs = ["state", "rising", "falling", "cb_r", "cb_f"]

    def init(self):
        pend = 1 if self.require_enable else 0
        # (k, d_locked, prev_state, pending_reset)
        return [(0, None, self.default, pend)]

    def step(self, st, inp):
        k, dl, prev, pend = st
        disabled, pend = self._disabled(pend, inp)
        if self.ctx_rst and inp[self._idx["rst"]] == self.rst_on:
            disabled = True  # reset of the parent context == disabled tick (or_reset)
        if disabled:
            return [((0, None, self.default, pend), (self.default, 0, 0, 0, 0))]
        if self._async_disabled_after(pend):
            return [((0, None, self.default, pend), (self.default, 0, 0, 0, 0))]
        d = inp[self._idx["dur"]] if self.rt else self.duration
        if k == UNKNOWN or (dl is not None and d != dl):
            out = []
            for new in (0, 1):
                r = int(prev == 0 and new == 1)
                f = int(prev == 1 and new == 0)
                out.append(((UNKNOWN, None, new, pend), (new, r, f, r, f)))
            return out
        hit = (k % d == 0) if self.tick_at_start else (k % d == d - 1)
        new = 1 - self.default if hit else self.default
        r = int(prev == 0 and new == 1)
        f = int(prev == 1 and new == 0)
        return [(((k + 1) % d, d, new, pend), (new, r, f, r, f))]


# ---------------------------------------------------------------------------------------------
# debounce  (transcription of upstream MockDebounce, test_debounce)
# ---------------------------------------------------------------------------------------------
class DebounceModel:
    """saturating up/down counter starting at period//2; input high: output becomes 1 when the counter is at
    the period, counter incremented (saturating); input low: output becomes 0 when the counter is at 0, counter
    decremented (saturating).  Reset of the context: counter = period//2, output = initial."""

    def __init__(self, period, initial=0, has_rst=False, rst_active_low=False):
        self.period = period
        self.rst_on = 0 if rst_active_low else 1
        self.initial = int(initial)
        self.has_rst = has_rst
        self.input_names = ["inp"] + (["rst"] if has_rst else [])
        self.menu = product_menu(self.input_names, {"inp": (0, 1), "rst": rst_domain(rst_active_low)})
        self.outputs = ["o"]

    def init(self):
        return [(self.period // 2, self.initial)]

    def step(self, st, inp):
        cnt, val = st
        if self.has_rst and inp[1] == self.rst_on:
            return [((self.period // 2, self.initial), (self.initial,))]
        if inp[0]:
            if cnt == self.period:
                val = 1
            cnt = min(cnt + 1, self.period)
        else:
            if cnt == 0:
                val = 0
            cnt = max(cnt - 1, 0)
        return [((cnt, val), (val,))]


# ---------------------------------------------------------------------------------------------
# step_cond / held inputs (context flavours)
# ---------------------------------------------------------------------------------------------
class StepGated:
    """Context with `step_cond=lambda: self.step` (std.sequential docstring):

        if clk:
            if reset:   reset_context()
            elif step_cond():   # run decorated function          (async reset: `if reset` / `if clk` swapped)

    so in a clock in which the step condition is false and no reset is active nothing of the context advances: the
    inner reference keeps its state, every level output (registered signal) keeps its value.  Outputs that are
    pushed pulses (`^=`) are not constrained in such clocks (whether a push lasts one clock or one enabled step
    is not documented).  A reset (context reset input, or the `dis` input driving the reset signal of a
    ToggleSignal/ClockDivider) has priority over the step condition.  Outputs are unconstrained until the
    context has run (or been reset) once."""

    def __init__(self, inner, pulse_outputs=()):
        self.inner = inner
        self.input_names = list(inner.input_names) + ["step"]
        self.menu = [tuple(m) + (s,) for m in inner.menu for s in (1, 0)]
        self.outputs = list(inner.outputs)
        self._pulse = tuple(o in pulse_outputs for o in self.outputs)
        names = list(inner.input_names)
        self._rst = names.index("rst") if "rst" in names else None
        self._rst_on = getattr(inner, "rst_on", 1)
        self._dis = names.index("dis") if "dis" in names else None

    def init(self):
        return [(s, (None,) * len(self.outputs)) for s in self.inner.init()]

    def step(self, st, inp):
        s, last = st
        iinp = tuple(inp[:-1])
        forced = (self._rst is not None and iinp[self._rst] == self._rst_on) or \
                 (self._dis is not None and iinp[self._dis] == 1)
        if inp[-1] or forced:
            return [((s2, exp), exp) for s2, exp in self.inner.step(s, iinp)]
        exp = tuple(None if p else v for p, v in zip(self._pulse, last))
        return [(st, exp)]


class HeldInput:
    """adds an input port that the environment holds at one value (e.g. a reset that is never asserted)"""

    def __init__(self, inner, name, value):
        self.inner = inner
        self.input_names = list(inner.input_names) + [name]
        self.menu = [tuple(m) + (value,) for m in inner.menu]
        self.outputs = inner.outputs
        if hasattr(inner, "rst_on"):
            self.rst_on = inner.rst_on

    def init(self):
        return self.inner.init()

    def step(self, st, inp):
        return self.inner.step(st, tuple(inp[:-1]))

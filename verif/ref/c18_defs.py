"""C18 reference definitions: the mathematical meaning of the std combinational helpers.

Written from the property statement and the docstrings in cohdl/std/_core_utility.pyi only, with plain
Python ints / bit strings (MSB first, like the literals in the docstrings).  Nothing here imports cohdl.

Every reference has the shape  REF[name](p, v) -> tuple of expected outputs
    p : parameter dict of the instance (widths, constants, ...)
    v : dict  input-port-name -> int (unsigned bit pattern of the port)
An expected output is an int (unsigned bit pattern; signed results are reduced modulo 2**width by the
caller) or None where the documentation leaves the value open.

VALID[name](p, v) -> bool restricts the input alphabet where the documentation leaves behaviour open.
"""
from __future__ import annotations

import functools


def bits(x: int, w: int) -> str:
    """MSB-first bit string of width w"""
    return format(x, "0{}b".format(w)) if w > 0 else ""


def val(s: str) -> int:
    return int(s, 2) if s else 0


def signed(x: int, w: int) -> int:
    return x - (1 << w) if x >> (w - 1) else x


def interp(x: int, w: int, kind: str) -> int:
    """numeric value of pattern x of a port of the given kind ('u' | 's')"""
    return signed(x, w) if kind == "s" else x


# ---------------------------------------------------------------------------------------------
# bit counting
# ---------------------------------------------------------------------------------------------
def r_popcount(p, v):
    return (bin(v["a"]).count("1"),)


def r_clearcount(p, v):
    return (p["w"] - bin(v["a"]).count("1"),)


def _run_length(s, ch):
    n = 0
    for c in s:
        if c != ch:
            break
        n += 1
    return n


def r_count_lt(p, v):
    """count_{leading|trailing}_{zeros|ones}: p['side'] in 'lt', p['ch'] in '01'"""
    s = bits(v["a"], p["w"])
    if p["side"] == "t":
        s = s[::-1]
    return (_run_length(s, p["ch"]),)


def r_is_one_hot(p, v):
    return (1 if bin(v["a"]).count("1") == 1 else 0,)


def r_one_hot(p, v):
    # a vector of p['w'] bits in which exactly the bit with index pos is set
    pos = v["pos"] if "pos" in v else p["pos"]
    return (1 << pos,)


def v_one_hot(p, v):
    pos = v["pos"] if "pos" in v else p["pos"]
    return 0 <= pos < p["w"]


def r_reverse(p, v):
    return (val(bits(v["a"], p["w"])[::-1]),)


# ---------------------------------------------------------------------------------------------
# rotations, shifts with fill, repetition, padding, concatenation
# ---------------------------------------------------------------------------------------------
def r_rol(p, v):
    s = bits(v["a"], p["w"])
    n = p["n"]
    return (val(s[n:] + s[:n]),)


def r_ror(p, v):
    s = bits(v["a"], p["w"])
    n = p["n"]
    k = len(s) - n
    return (val(s[k:] + s[:k]),)


def _operand(p, v, name):
    """bit string of operand `name`: an input port (width p['widths'][name]) or a constant string"""
    if name in v:
        return bits(v[name], p["widths"][name])
    return p["consts"][name]


def r_lshift_fill(p, v):
    a = _operand(p, v, "a")
    f = _operand(p, v, p.get("fill", "f"))
    return (val((a + f)[-len(a):]),)


def r_rshift_fill(p, v):
    a = _operand(p, v, "a")
    f = _operand(p, v, p.get("fill", "f"))
    return (val((f + a)[: len(a)]),)


def r_repeat(p, v):
    s = _operand(p, v, p.get("arg", "a"))
    return (val(s * p["times"]),)


def r_stretch(p, v):
    s = _operand(p, v, p.get("arg", "a"))
    return (val("".join(ch * p["factor"] for ch in s)),)


def _fill_char(p, v):
    f = p["fill"]
    if f in ("0", "1"):
        return f
    return bits(v[f], 1)  # run-time fill bit on port f


def r_pad(p, v):
    s = bits(v["a"], p["w"])
    f = _fill_char(p, v)
    return (val(f * p["left"] + s + f * p["right"]),)


def r_concat(p, v):
    return (val("".join(_operand(p, v, name) for name in p["order"])),)


def r_batched(p, v):
    """list of slices of width n starting with the least significant one (last one may be partial),
    followed by the number of slices"""
    w, n = p["w"], p["n"]
    a = v["a"]
    out = []
    for off in range(0, w, n):
        width = min(n, w - off)
        out.append((a >> off) & ((1 << width) - 1))
    out.append(len(out))
    return tuple(out)


def r_select_batch(p, v):
    n, b = p["n"], p["b"]
    sel = v["sel"]
    idx = sel.bit_length() - 1
    return ((v["a"] >> (idx * b)) & ((1 << b) - 1),)


def v_select_batch(p, v):
    # documented for one-hot selectors only
    return bin(v["sel"]).count("1") == 1


def r_apply_mask(p, v):
    """result_bit = new_bit if mask_bit else old_bit; operands vold / vnew / vmask are ports unless a
    constant string is given in p['consts']; p['ports'] may rename the port an operand comes from"""
    w = p["w"]

    def operand(name):
        if name in p.get("consts", {}):
            return p["consts"][name]
        return bits(v[p.get("ports", {}).get(name, name)], w)

    old, new, mask = operand("vold"), operand("vnew"), operand("vmask")
    return (val("".join(n if m == "1" else o for o, n, m in zip(old, new, mask))),)


# ---------------------------------------------------------------------------------------------
# list helpers
# ---------------------------------------------------------------------------------------------
def _elems(p, v):
    """numeric values of the list elements x0..x{n-1}"""
    return [interp(v["x%d" % i], p["w"], p.get("kind", "u")) for i in range(p["n"])]


KEYS = {
    "id": lambda x: x,
    "shr1": lambda x: x >> 1,       # arithmetic/logical shift right by one = floor(x / 2)
    "lsb2": lambda x: x & 3,
}


# Named ordering predicates  pred(a, b, w, kind) on bit patterns a, b of width w of a port of kind u | s:
# "the first argument comes before (is preferred to) the second".  The cohdl text of each lives in
# verif/gen/c18_cases.py (CMP_TEXT); both are written from the same one-line description.
CMPS = {
    "lt": lambda a, b, w, k: interp(a, w, k) < interp(b, w, k),      # natural ascending
    "gt": lambda a, b, w, k: interp(a, w, k) > interp(b, w, k),      # natural descending
    "slt": lambda a, b, w, k: signed(a, w) < signed(b, w),           # two's complement reading, ascending
    "sgt": lambda a, b, w, k: signed(a, w) > signed(b, w),           # two's complement reading, descending
    "ult": lambda a, b, w, k: a < b,                                 # unsigned reading, ascending
    "ugt": lambda a, b, w, k: a > b,                                 # unsigned reading, descending
    "shr1lt": lambda a, b, w, k: (a >> 1) < (b >> 1),                # floor(x/2) ascending: neighbours tie
    "shr1gt": lambda a, b, w, k: (a >> 1) > (b >> 1),
}


def _first_extremum(vals, better):
    """index of the first element e such that no other element is `better` than it ... computed the
    boring way: scan left to right, replace the champion only by a strictly better element"""
    best = 0
    for i in range(1, len(vals)):
        if better(vals[i], vals[best]):
            best = i
    return best


def r_extremum(p, v):
    """p['what'] in {'min','max'}; p['key'] names the comparison key; outputs per p['outs']:
    'value' (element), 'index'"""
    xs = _elems(p, v)
    key = KEYS[p.get("key", "id")]
    ks = [key(x) for x in xs]
    if p.get("cmp"):
        # explicit cmp argument: cmp(a, b) == "a is preferred to b" (for minimum: smaller, for maximum:
        # larger); the result is the first element to which no other element is preferred
        assert p.get("key", "id") == "id"
        pred = CMPS[p["cmp"]]
        pats = [v["x%d" % i] for i in range(p["n"])]
        idx = _first_extremum(pats, lambda a, b: pred(a, b, p["w"], p.get("kind", "u")))
        assert not any(pred(x, pats[idx], p["w"], p.get("kind", "u")) for x in pats)
    elif p["what"] == "min":
        idx = _first_extremum(ks, lambda a, b: a < b)
        assert ks[idx] == min(ks) and idx == ks.index(min(ks))
    else:
        idx = _first_extremum(ks, lambda a, b: a > b)
        assert ks[idx] == max(ks) and idx == ks.index(max(ks))
    out = []
    for o in p["outs"]:
        if o == "index":
            out.append(idx)
        elif o == "value":
            out.append(v["x%d" % idx])
        elif o == "keyvalue":
            # only the key of the returned element is defined by the extremum property (used when ties
            # between different elements are resolved by an unspecified rule) -- not used for first-wins
            out.append(ks[idx])
    return tuple(out)


def r_count(p, v):
    n = p["n"]
    pats = [v["x%d" % i] for i in range(n)]
    how = p["how"]
    if how == "value_port":
        c = sum(1 for x in pats if x == v["y"])
    elif how == "value_const":
        c = sum(1 for x in pats if x == p["value"])
    elif how == "bit0":       # check=lambda e: e[0]
        c = sum(1 for x in pats if x & 1)
    elif how == "nonzero":    # check=lambda e: e != 0
        c = sum(1 for x in pats if x != 0)
    else:
        raise KeyError(how)
    return (c,)


def r_count_bits_of(p, v):
    """count / count_elements over the bits of vector a (element 0 = least significant bit)"""
    s = bits(v["a"], p["w"])[::-1]  # s[i] = bit i
    how = p["how"]
    if how == "count":
        return (s.count(p["ch"]),)
    if how == "while":
        return (_run_length(s, p["ch"]),)
    if how == "until":
        i = s.find(p["ch"])
        return (len(s) if i < 0 else i,)
    raise KeyError(how)


def r_count_elements(p, v):
    n = p["n"]
    pats = [v["x%d" % i] for i in range(n)]
    if p["cmp"] == "port":
        pred = lambda x: x == v["y"]
    elif p["cmp"] == "const":
        pred = lambda x: x == p["value"]
    elif p["cmp"] == "bit0":
        pred = lambda x: bool(x & 1)
    else:
        raise KeyError(p["cmp"])
    if p["how"] == "while":
        # index of the first element for which pred is False, else the length
        for i, x in enumerate(pats):
            if not pred(x):
                return (i,)
        return (n,)
    else:
        for i, x in enumerate(pats):
            if pred(x):
                return (i,)
        return (n,)


def _clamp_operands(p, v):
    """bit patterns (width w) of val, low, high; bounds are ports (possibly narrower, p['bw']) or ints"""
    w, kind = p["w"], p["kind"]
    m = (1 << w) - 1
    bw = p.get("bw", w)

    def bound(name):
        if name in v:
            # a narrower bound port is converted to the type of val: value preserving
            return interp(v[name], bw, p.get("bkind", kind)) & m
        return p[name] & m
    return v["val"], bound("low"), bound("high")


def r_clamp(p, v):
    """low if val is less than low, high if val is greater than high (= high is less than val), else val,
    "less" being the cmp argument (default: natural order of the type of val)"""
    w, kind = p["w"], p["kind"]
    x, lo, hi = _clamp_operands(p, v)
    less = CMPS[p.get("cmp", "lt")]
    if less(x, lo, w, kind):
        r = lo
    elif less(hi, x, w, kind):
        r = hi
    else:
        r = x
    return (r,)


def v_clamp(p, v):
    # the documentation speaks of "the range [low, high]": an empty range (high less than low) is left out
    w, kind = p["w"], p["kind"]
    x, lo, hi = _clamp_operands(p, v)
    return not CMPS[p.get("cmp", "lt")](hi, lo, w, kind)


# ---------------------------------------------------------------------------------------------
# selection
# ---------------------------------------------------------------------------------------------
def r_choose_first(p, v):
    """conditions c0..c{k-1} (bit ports), values: names of ports or int constants; default likewise"""
    def value(x):
        return v[x] if isinstance(x, str) else x
    for i in range(p["k"]):
        if p["conds"] == "bits":
            c = v["c%d" % i]
        else:  # 'eq': condition i is  x == i
            c = v["x"] == i
        if c:
            return (value(p["values"][i]),)
    return (value(p["default"]),)


def r_select(p, v):
    def value(x):
        return v[x] if isinstance(x, str) else x
    arg = v["x"]
    for k, res in p["branches"]:
        if k == arg:
            return (value(res),)
    return (value(p["default"]),)


def r_cond(p, v):
    if p["cond"] == "bit":
        c = v["c"]
    elif p["cond"] == "eq":
        c = v["a"] == v["b"]
    elif p["cond"] == "lt":
        c = v["a"] < v["b"]
    return (v["a"] if c else v["b"],)


# ---------------------------------------------------------------------------------------------
# folds
# ---------------------------------------------------------------------------------------------
def _mask(w):
    return (1 << w) - 1


# operators on (value, width) pairs so that concatenation fits in
OPS = {
    "and": lambda a, b: (a[0] & b[0], a[1]),
    "or": lambda a, b: (a[0] | b[0], a[1]),
    "xor": lambda a, b: (a[0] ^ b[0], a[1]),
    "add": lambda a, b: ((a[0] + b[0]) & _mask(a[1]), a[1]),       # modular addition: associative
    "sub": lambda a, b: ((a[0] - b[0]) & _mask(a[1]), a[1]),       # NOT associative (binary_fold only)
    "min": lambda a, b: a if a[0] < b[0] else b,
    "max": lambda a, b: a if a[0] > b[0] else b,
    "left": lambda a, b: a,                                        # associative, not commutative
    "right": lambda a, b: b,                                       # associative, not commutative
    "concat": lambda a, b: ((a[0] << b[1]) | b[0], a[1] + b[1]),  # associative, not commutative
    "nimp": lambda a, b: (a[0] & ~b[0] & _mask(a[1]), a[1]),       # a and not b: NOT associative
}
ASSOCIATIVE = {"and", "or", "xor", "add", "min", "max", "left", "right", "concat"}


def r_fold(p, v):
    xs = [(v["x%d" % i], p["w"]) for i in range(p["n"])]
    op = OPS[p["op"]]
    if p.get("right"):
        # binary_fold(fn, (1, 2, 3), right_fold=True) == fn(1, fn(2, 3))
        acc = xs[-1]
        for x in reversed(xs[:-1]):
            acc = op(x, acc)
    else:
        acc = functools.reduce(op, xs)
    return (acc[0],)


# ---------------------------------------------------------------------------------------------
# CRC: polynomial long division over GF(2)
# ---------------------------------------------------------------------------------------------
def crc_division(poly: int, w: int, msg, init: int = 0, xorout: int = 0) -> int:
    """Remainder of  msg(x) * x**w  (with `init` added onto the first w coefficient positions)
    divided by  G(x) = x**w + poly(x), msg given first-bit-first; final value xor `xorout`."""
    g = [1] + [int(c) for c in bits(poly, w)]          # w+1 coefficients, highest degree first
    a = [int(b) for b in msg] + [0] * w                # augmented message
    # initial register value: added to the w highest coefficient positions of the dividend
    # (dividend degree grows with the message; the register holds the top w positions first)
    ib = [int(c) for c in bits(init, w)]
    if len(a) < w:
        raise ValueError
    for i in range(w):
        a[i] ^= ib[i]
    # schoolbook long division
    for i in range(len(a) - w):
        if a[i]:
            for j in range(w + 1):
                a[i + j] ^= g[j]
    rem = a[len(a) - w:]
    return val("".join(map(str, rem))) ^ xorout


REF = {name[2:]: fn for name, fn in list(globals().items()) if name.startswith("r_")}
VALID = {name[2:]: fn for name, fn in list(globals().items()) if name.startswith("v_")}

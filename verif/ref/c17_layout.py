"""C17 reference: the *documented* serialisation layout, recomputed independently of cohdl.

Sources (in order of authority): the property statement ("first record field and array element 0
occupy the least significant bits"; "BitField fields read and write exactly their declared bit
ranges"), the .pyi docs (std.Record, std.Enum `raw`/`_underlying_`, std.Serialized `bits()/value()`,
bitfield.pyi Field[i] / Field[hi:lo] / Sub[offset] / Sub[hi:lo]) and the upstream mock testbenches
tests/reference_builds/std/utility/test_serialization.py (Array[Array[BitVector[2],2],3]: element [i][j] at
bits 4i+2j..4i+2j+1; inherited record: base-class fields first), std/record/test_record_02.py (templated,
nested records) and std/bitfield/test_bitfield.py (nested bitfield at offset: inner bit k is outer bit off+k).

Everything here is plain Python ints.  A type is a tuple tree (see verif/gen/c17_types.py):

  ("bit",) ("bool",) ("bv",n) ("u",n) ("s",n)
  ("enum", is_flag, under, members)       under in bv/u/s/bit; serialised exactly like `under`
  ("sfix", l, r) ("ufix", l, r)           l-r+1 bits; number = two's-complement / unsigned raw * 2**r
  ("carr", T, n) ("sarr", T, n)           element i at bits [i*w(T) +: w(T)]
  ("rec", fields, split)                  field k after fields 0..k-1 (base class fields first)
  ("trec", fields, W[, split])            templated record (template argument = an int W); placeholders ("bvW",)
                                          ("uW",) ("sW",) ("trecW", fields); split: the template DECLARATIONS inherit
                                          from each other (base declaration's fields first)
  ("ttrec", fields, targs, split)         templated record whose template argument is a tuple of TYPES
                                          (@std.TemplateArg); placeholder ("tp", i) = i-th type argument
  ("bf", w, fields)                       bit field over a w-bit vector; ("fb", i) | ("fv", hi, lo, kind) |
                                          ("sub", bfnode, offset, slice_form)
  ("ser", T)                              std.Serialized[T]: same bits as T
"""
from __future__ import annotations

from collections import namedtuple

# a view: an observable leaf = a slice [lo +: w] of the serialised vector, read as `kind`
View = namedtuple("View", "path lo w kind meta")


def resolve(T, W=None):
    """substitute template placeholders; templated records become plain field lists"""
    k = T[0]
    if k == "bvW":
        return ("bv", W)
    if k == "uW":
        return ("u", W)
    if k == "sW":
        return ("s", W)
    if k == "trecW":
        return ("rec", tuple(resolve(f, W) for f in T[1]), (len(T[1]),))
    if k == "trec":
        return ("rec", tuple(resolve(f, T[2]) for f in T[1]), T[3] if len(T) > 3 else (len(T[1]),))
    if k == "ttrec":
        return ("rec", tuple(resolve(T[2][f[1]], W) if f[0] == "tp" else resolve(f, W) for f in T[1]), T[3])
    if k in ("carr", "sarr"):
        return (k, resolve(T[1], W), T[2])
    if k == "rec":
        return ("rec", tuple(resolve(f, W) for f in T[1]), T[2])
    if k == "ser":
        return ("ser", resolve(T[1], W))
    return T


def width(T) -> int:
    T = resolve(T)
    k = T[0]
    if k in ("bit", "bool"):
        return 1
    if k in ("bv", "u", "s"):
        return T[1]
    if k == "enum":
        return width(T[2])
    if k in ("sfix", "ufix"):
        return T[1] - T[2] + 1
    if k in ("carr", "sarr"):
        return T[2] * width(T[1])
    if k == "rec":
        return sum(width(f) for f in T[1])
    if k == "bf":
        return T[1]
    if k == "ser":
        return width(T[1])
    raise ValueError(T)


def views(T, base=0, path="") -> list:
    """observable leaves, in declaration / index order"""
    T = resolve(T)
    k = T[0]
    if k in ("bit", "bool", "bv", "u", "s"):
        return [View(path, base, width(T), k, None)]
    if k == "enum":
        return [View(path + ".raw", base, width(T), T[2][0], None)]
    if k in ("sfix", "ufix"):
        return [View(path, base, width(T), k, (T[1], T[2]))]
    if k in ("carr", "sarr"):
        ew = width(T[1])
        out = []
        for i in range(T[2]):
            out += views(T[1], base + i * ew, f"{path}[{i}]")
        return out
    if k == "rec":
        out = []
        off = base
        for i, f in enumerate(T[1]):
            out += views(f, off, f"{path}.f{i}")
            off += width(f)
        return out
    if k == "bf":
        out = []
        for i, f in enumerate(T[2]):
            p = f"{path}.f{i}"
            if f[0] == "fb":
                out.append(View(p, base + f[1], 1, "bit", None))
            elif f[0] == "fv":
                out.append(View(p, base + f[2], f[1] - f[2] + 1, f[3], None))
            else:
                out += views(f[1], base + f[2], p)
        return out
    if k == "ser":
        return views(T[1], base, path + ".value()")
    raise ValueError(T)


def parts(T, base=0) -> list:
    """independent value parts (a non-overlapping cover of the vector) used to *construct* a value:
    like views, but a bit field is one part (its whole vector).  list of (lo, w, kind, meta)"""
    T = resolve(T)
    k = T[0]
    if k in ("bit", "bool", "bv", "u", "s"):
        return [(base, width(T), k, None)]
    if k == "enum":
        return [(base, width(T), "enum", T)]
    if k in ("sfix", "ufix"):
        return [(base, width(T), k, (T[1], T[2]))]
    if k in ("carr", "sarr"):
        ew = width(T[1])
        out = []
        for i in range(T[2]):
            out += parts(T[1], base + i * ew)
        return out
    if k == "rec":
        out = []
        off = base
        for f in T[1]:
            out += parts(f, off)
            off += width(f)
        return out
    if k == "bf":
        return [(base, T[1], "bfvec", None)]
    if k == "ser":
        return parts(T[1], base)
    raise ValueError(T)


def field(b: int, lo: int, w: int) -> int:
    return (b >> lo) & ((1 << w) - 1)


def decode(T, b: int) -> list:
    """raw (unsigned) value of every view for serialised pattern b"""
    return [field(b, v.lo, v.w) for v in views(T)]


def decode_parts(T, b: int) -> list:
    return [field(b, p[0], p[1]) for p in parts(T)]


def signed_of(v: int, w: int) -> int:
    return v - (1 << w) if v >> (w - 1) else v


def fixed_number(kind, l, r, raw):
    """the number a fixed point raw pattern stands for (exact: ints / binary fractions as float)"""
    w = l - r + 1
    n = signed_of(raw, w) if kind == "sfix" else raw
    return n * (2.0 ** r)


def bf_write_ranges(T, base=0, path=""):
    """for a bit field: every assignable member -> (path, lo, w) it must write (and nothing else)"""
    assert T[0] == "bf"
    out = []
    for i, f in enumerate(T[2]):
        p = f"{path}.f{i}"
        if f[0] == "fb":
            out.append((p, base + f[1], 1))
        elif f[0] == "fv":
            out.append((p, base + f[2], f[1] - f[2] + 1))
        else:
            out.append((p, base + f[2], f[1][1]))  # whole sub bit field
            out += bf_write_ranges(f[1], base + f[2], p)
    return out


def bf_write_expected(inp: int, lo: int, w: int, val: int) -> int:
    mask = ((1 << w) - 1) << lo
    return (inp & ~mask) | ((val << lo) & mask)


def record_splits(T):
    """for a (possibly templated) record node: cumulative field counts of its non-empty proper base classes"""
    k = T[0]
    if k == "rec":
        split = T[2]
    elif k == "trec":
        split = T[3] if len(T) > 3 else (len(T[1]),)
    elif k == "ttrec":
        split = T[3]
    else:
        return []
    out, acc = [], 0
    for n in split[:-1]:
        acc += n
        if acc > 0 and acc not in out:
            out.append(acc)
    return out

"""C14 reference models, written from the property statement and cohdl/std/utility.pyi:

  Fifo[T,N]   "A first-in-first-out container that can hold up to N-1 elements"; push: "May not be called
              on a full Fifo"; pop: "Remove one element ... Returns the removed element", "May not be called on
              an empty Fifo"; front: "the next value returned by pop without removing it", "undefined while the
              Fifo is empty".   (upstream MockFifo in tests/reference_builds/std/utility/test_fifo_01.py is the
              same deque with maxlen N-1.)
  Stack[T,N]  "A first-in-last-out container that can hold up to N elements"; DROP_OLD: "For each push to a
              full Stack, the oldest element is dropped.  Subsequent calls to pop can get the last N elements
              back."; reset: "Clear the Stack"; size: "current number of elements".
              (upstream test_stack_02 models it as deque([], N) with append/pop/clear.)

State is an immutable tuple so that the product state is hashable.
"""
from __future__ import annotations


class FifoModel:
    def __init__(self, n):
        self.cap = n - 1
        self.q = ()

    def empty(self):
        return len(self.q) == 0

    def full(self):
        return len(self.q) == self.cap

    def front(self):
        return self.q[0]

    def push(self, v):
        assert len(self.q) < self.cap
        self.q = self.q + (v,)

    def pop(self):
        v = self.q[0]
        self.q = self.q[1:]
        return v


class StackModel:
    def __init__(self, n, drop_old):
        self.cap = n
        self.drop_old = drop_old
        self.s = ()

    def size(self):
        return len(self.s)

    def empty(self):
        return len(self.s) == 0

    def full(self):
        return len(self.s) == self.cap

    def front(self):
        return self.s[-1]

    def push(self, v):
        if len(self.s) == self.cap:
            assert self.drop_old
            self.s = self.s[1:]  # exactly the oldest element goes
        self.s = self.s + (v,)

    def pop(self):
        v = self.s[-1]
        self.s = self.s[:-1]
        return v

    def reset(self):
        self.s = ()

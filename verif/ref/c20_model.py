"""C20 reference: byte-array register model + AXI4-Lite protocol/transaction monitor.

Written from the property statement, cohdl/std/reg/reg.pyi and the upstream mocks (tests/reference_builds/std/axi:
`MemRegion.write`: `(old & ~mask) | (data & mask)`, unmapped reads return 0) - not from the implementation.

Time base: one `step` = one clock cycle.  `pre` are the slave outputs during the cycle (sampled after the master
inputs were applied, before the rising edge), `post` are the observable outputs after the rising edge.
A channel transfer happens at an edge when valid and ready were both high during the cycle before it.

What is checked (rule names appear in violation texts/keys):
  b-without-request / r-without-request   response valid although no fully received request is unanswered
  b-withdrawn / r-withdrawn               valid (or its payload) changed before the ready handshake
  write-stall / read-stall                bounded response (liveness as safety): a cooperating master (both halves
                                          of the write offered or accepted, bready high; resp. read offered, rready high)
                                          sees some transfer on the channels involved within STALL_LIMIT clocks
  regs                                    the register-backed outputs after each edge equal the model: a write request
                                          takes effect atomically at ONE edge inside the window [edge at which both AW
                                          and W have been received .. edge of its B handshake], in request order, and
                                          changes exactly the strobed bytes of the addressed register's storing fields
                                          (flag fields: strobed '1' sets); unmapped writes and all reads change nothing;
                                          no change at any other time.  Write/read notification pulses: exactly one per
                                          access to the register, inside the access window, the write pulse at the edge
                                          at which the write takes effect.
  rdata                                   read data raised with rvalid equals a value the addressed register had in a
                                          cycle of the window [cycle of the AR transfer .. cycle before rvalid rises];
                                          unmapped reads return 0 (upstream MemMock)
Everything the sources leave open stays open: response codes, ready timing, which edge inside the window,
flag set/clear in the same clock (either outcome accepted).
"""
from __future__ import annotations

import itertools

STALL_LIMIT = 8


def stretch_mask(strb):
    m = 0
    for i in range(4):
        if (strb >> i) & 1:
            m |= 0xFF << (8 * i)
    return m


SLOT_KINDS = ("mem", "mem_nomask", "flag", "win_addr", "win_data", "wflag", "rflag", "wcount")
UNOBSERVED = "?"  # value of a storing field that has no output port (checked through the bus only)


class RegModel:
    """Stored state = tuple with one int per storing field (kinds mem / flag), in declaration order."""

    def __init__(self, layout):
        self.layout = layout
        self.regs = layout["regs"]
        self.by_addr = {r["addr"] + 4 * w: i for i, r in enumerate(self.regs) for w in range(r.get("words", 1))}
        self.slots = []  # (reg index, field)
        self.slot_of = {}
        for ri, r in enumerate(self.regs):
            for f in r["fields"]:
                if f["kind"] in SLOT_KINDS:
                    self.slot_of[(ri, f["name"])] = len(self.slots)
                    self.slots.append((ri, f))
        self.init = tuple(f.get("default", 0) for _, f in self.slots)
        self.ports = [f["port"] for _, f in self.slots]
        # notification ports: (reg index, event, port)
        self.notes = [(ri, ev, port) for ri, r in enumerate(self.regs) for ev, port in r["notify"]]
        self.clears = [(self.slot_of[(ri, f["name"])], f["clear"]) for ri, f in self.slots if f["kind"] == "flag"]
        self.rflags = {ri: self.slot_of[(ri, f["name"])] for ri, f in self.slots if f["kind"] == "rflag"}
        self.observed = [i for i, p in enumerate(self.ports) if p is not None]
        self.all_observed = len(self.observed) == len(self.ports)

    def reg_of(self, addr):
        """register index addressed by a (word aligned) byte address, or None"""
        return self.by_addr.get(addr & ~3)

    def word(self, state, ri, hw, addr=None):
        """32-bit value a bus read of register ri sees in a cycle with hardware inputs hw (dict port->value)"""
        r = self.regs[ri]
        if addr is not None and addr & 3 and r.get("unaligned"):
            # unaligned dword read of a memory: bytes addr .. addr+3 (upstream MemMock.read_unaligned)
            o = addr & 3
            lo = self.word(state, ri, hw, addr & ~3)
            rj = self.reg_of((addr & ~3) + 4)
            hi = self.word(state, rj, hw, (addr & ~3) + 4) if rj is not None else 0
            return ((lo >> (8 * o)) | (hi << (32 - 8 * o))) & 0xFFFFFFFF
        if r.get("writeonly"):
            return 0
        if "read_tag" in r:
            # address window (AddrRange with a user handler): the handler returns tag | (relative or global) address
            a = addr & ~3
            return r["read_tag"] | (a if r.get("global_addr") else a - r["addr"])
        v = 0
        for f in r["fields"]:
            if f["hi"] < 0:
                continue
            w = f["hi"] - f["lo"] + 1
            k = f["kind"]
            if k == "hw":
                x = hw[f["hw"]]
            elif k == "const":
                x = f["default"]
            else:
                x = state[self.slot_of[(ri, f["name"])]]
            v |= (x & ((1 << w) - 1)) << f["lo"]
        if r.get("read_reverse"):  # user _on_read_ returns the bit-reversed content
            v = int(f"{v:032b}"[::-1], 2)
        return v

    def write(self, state, addr, data, strb):
        """-> (new state, set of flag slots set by this write).  Exactly the strobed bytes of storing fields."""
        ri = self.reg_of(addr)
        if ri is None:
            return state, ()
        if addr & 3 and self.regs[ri].get("unaligned"):
            # unaligned dword write of a memory = byte i of the data goes to byte address addr+i (MemMock.write_unaligned)
            o = addr & 3
            a = addr & ~3
            st, _ = self.write(state, a, (data << (8 * o)) & 0xFFFFFFFF, (strb << o) & 0xF)
            st, _ = self.write(st, a + 4, data >> (32 - 8 * o), strb >> (4 - o))
            return st, ()
        m32 = stretch_mask(strb)
        st = list(state)
        flags = []
        base = self.regs[ri]["addr"]
        for f in self.regs[ri]["fields"]:
            k = f["kind"]
            if k in ("hw", "const", "rflag"):
                continue
            slot = self.slot_of[(ri, f["name"])]
            if k == "wcount":  # user _on_write_ override: counts write accesses, ignores the data
                st[slot] = (st[slot] + 1) & ((1 << (f["hi"] - f["lo"] + 1)) - 1)
                continue
            if k == "wflag":  # FlagOnNotify.Write: set by every write access to the register
                st[slot] = 1
                continue
            if k == "win_addr":  # the window handler records the (relative / global) address of the last write
                st[slot] = (addr & ~3) - (0 if self.regs[ri].get("global_addr") else base)
                continue
            w = f["hi"] - f["lo"] + 1
            fm = (m32 >> f["lo"]) & ((1 << w) - 1)
            fd = (data >> f["lo"]) & ((1 << w) - 1)
            if k == "mem" or k == "win_data":
                st[slot] = (st[slot] & ~fm) | (fd & fm)
            elif k == "mem_nomask":  # Memory MaskMode.IGNORE: "the mask parameter is ignored", the whole word is stored
                st[slot] = fd
            else:  # flag: strobed '1' sets, anything else leaves it
                if fm & fd & 1:
                    st[slot] = 1
                    flags.append(slot)
        return tuple(st), tuple(flags)


class Violation(Exception):
    def __init__(self, rule, detail, text):
        super().__init__(text)
        self.rule = rule
        self.detail = detail
        self.text = text


class Monitor:
    """Master-side bookkeeping + oracle.  All state is in plain attributes; snapshot() is a hashable tuple."""

    def __init__(self, model: RegModel):
        self.m = model
        self.aw_hold = None  # addr the master is currently offering on AW
        self.w_hold = None  # (data, strb)
        self.ar_hold = None
        self.aw_q = ()  # addresses received by the slave, W half not yet received
        self.w_q = ()
        self.wr_pend = ()  # fully received, unanswered writes: (addr, data, strb, committed)
        self.rd_pend = ()  # received, unanswered reads: (addr, admissible values, responded, notified)
        self.wstall = 0
        self.rstall = 0
        self.regs = model.init
        self.events = {}  # coverage tag -> number of transitions in which it occurred (not part of the state)

    def _ev(self, tag):
        e = self.events
        e[tag] = e.get(tag, 0) + 1

    def snapshot(self):
        return (self.aw_hold, self.w_hold, self.ar_hold, self.aw_q, self.w_q, self.wr_pend, self.rd_pend,
                self.wstall, self.rstall, self.regs)

    def restore(self, s):
        (self.aw_hold, self.w_hold, self.ar_hold, self.aw_q, self.w_q, self.wr_pend, self.rd_pend,
         self.wstall, self.rstall, self.regs) = s

    # issue-order view used by the environment (pairing of the i-th AW with the i-th W)
    def aw_issued(self):
        return self.aw_q + ((self.aw_hold,) if self.aw_hold is not None else ())

    def w_issued(self):
        return self.w_q + ((self.w_hold,) if self.w_hold is not None else ())

    def writes_outstanding_aw(self):
        return len(self.wr_pend) + len(self.aw_q) + (self.aw_hold is not None)

    def writes_outstanding_w(self):
        return len(self.wr_pend) + len(self.w_q) + (self.w_hold is not None)

    def reads_outstanding(self):
        return len(self.rd_pend) + (self.ar_hold is not None)

    # ------------------------------------------------------------------------------------------------
    def step(self, bready, rready, hw, pre, post):
        """pre: dict awready wready arready bvalid bresp rvalid rdata rresp (during the cycle)
        post: same keys plus 'regs' (tuple in model.ports order) and 'notes' (tuple in model.notes order).
        Raises Violation."""
        m = self.m
        ev = self._ev
        if post["rvalid"] is None or post["bvalid"] is None:
            raise Violation("undefined", "", f"undefined valid output: bvalid={post['bvalid']} rvalid={post['rvalid']}")
        # ---- transfers at this edge
        aw_hs = self.aw_hold is not None and pre["awready"] == 1
        w_hs = self.w_hold is not None and pre["wready"] == 1
        ar_hs = self.ar_hold is not None and pre["arready"] == 1
        b_hs = pre["bvalid"] == 1 and bready == 1
        r_hs = pre["rvalid"] == 1 and rready == 1
        if self.aw_hold is not None and not aw_hs:
            ev("aw-held-not-ready")
        if self.w_hold is not None and not w_hs:
            ev("w-held-not-ready")
        if self.ar_hold is not None and not ar_hs:
            ev("ar-held-not-ready")
        if pre["bvalid"] == 1 and not b_hs:
            ev("b-held-not-ready")
        if pre["rvalid"] == 1 and not r_hs:
            ev("r-held-not-ready")

        # ---- read windows: every received, not yet responded read may sample the register in this cycle
        rd = list(self.rd_pend)
        for i, (addr, adm, responded, notified) in enumerate(rd):
            if not responded:
                rd[i] = (addr, adm | {self._cycle_value(addr, hw)}, responded, notified)
        if ar_hs:
            a = self.ar_hold
            rd.append((a, frozenset({self._cycle_value(a, hw)}), False, False))
            self.ar_hold = None
            ev("read-mapped" if m.reg_of(a) is not None else "read-unmapped")

        # ---- write bookkeeping
        aw_q, w_q = self.aw_q, self.w_q
        if aw_hs:
            aw_q = aw_q + (self.aw_hold,)
            self.aw_hold = None
        if w_hs:
            w_q = w_q + (self.w_hold,)
            self.w_hold = None
        if aw_hs and w_hs:
            ev("aw-w-same-edge")
        elif aw_hs:
            ev("aw-after-w" if self.w_q else "aw-first")
        elif w_hs:
            ev("w-after-aw" if self.aw_q else "w-first")
        wr = list(self.wr_pend)
        while aw_q and w_q:
            wr.append((aw_q[0], w_q[0][0], w_q[0][1], False))
            aw_q, w_q = aw_q[1:], w_q[1:]
        self.aw_q, self.w_q = aw_q, w_q

        # ---- responses
        popped_write = None
        if b_hs:
            if not self.wr_pend:
                raise Violation("b-without-request", "", "B transfer although no fully received write is unanswered")
            popped_write = wr.pop(0)
            ev("b-transfer")
        popped_read = None
        if r_hs:
            if not self.rd_pend:
                raise Violation("r-without-request", "", "R transfer although no received read is unanswered")
            popped_read = rd.pop(0)
            ev("r-transfer")

        # ---- valid must not be withdrawn / payload must be stable
        if pre["bvalid"] == 1 and not b_hs:
            if post["bvalid"] != 1:
                raise Violation("b-withdrawn", "", "bvalid withdrawn before bready")
            if post["bresp"] != pre["bresp"]:
                raise Violation("b-withdrawn", "", f"bresp changed while bvalid waits for bready: {pre['bresp']} -> {post['bresp']}")
        if pre["rvalid"] == 1 and not r_hs:
            if post["rvalid"] != 1:
                raise Violation("r-withdrawn", "", "rvalid withdrawn before rready")
            if post["rdata"] != pre["rdata"] or post["rresp"] != pre["rresp"]:
                raise Violation("r-withdrawn", "", f"rdata/rresp changed while rvalid waits for rready: "
                                                     f"{_hx(pre['rdata'])} -> {_hx(post['rdata'])}")

        # ---- no response without a request (post-edge view)
        if post["bvalid"] == 1 and not wr:
            raise Violation("b-without-request", "", "bvalid high although no fully received write is unanswered "
                                                      f"(AW received: {len(aw_q)}, W received: {len(w_q)})")
        if post["rvalid"] == 1 and not rd:
            raise Violation("r-without-request", "", "rvalid high although no received read is unanswered")

        # ---- a new read response: data check
        new_r = post["rvalid"] == 1 and (pre["rvalid"] != 1 or r_hs)
        if new_r:
            addr, adm, responded, notified = rd[0]
            if post["rdata"] not in adm:
                ri = m.reg_of(addr)
                name = m.regs[ri]["name"] if ri is not None else "unmapped"
                raise Violation("rdata", f"read/addr=0x{addr:x}",
                                f"read of 0x{addr:x} ({name}) returned {_hx(post['rdata'])}, register value(s) in the "
                                f"access window: {sorted(_hx(x) for x in adm)}")
            rd[0] = (addr, adm, True, notified)

        # ---- register state + notifications after this edge
        self._resolve(wr, rd, popped_write, popped_read, hw, post)

        self.wr_pend = tuple(wr)
        self.rd_pend = tuple(rd)

        # ---- bounded response
        any_w = aw_hs or w_hs or b_hs
        coop_w = bready == 1 and (aw_hs or self.aw_hold is not None or self.aw_q or self.wr_pend or popped_write) and \
            (w_hs or self.w_hold is not None or self.w_q or self.wr_pend or popped_write)
        if coop_w and not any_w:
            self.wstall += 1
            if self.wstall > STALL_LIMIT:
                raise Violation("write-stall", "", f"no AW/W/B transfer for {self.wstall} clocks although the master offers "
                                                   "both halves of a write and holds bready high")
        else:
            self.wstall = 0
        coop_r = rready == 1 and (ar_hs or self.ar_hold is not None or self.rd_pend or popped_read)
        if coop_r and not (ar_hs or r_hs):
            self.rstall += 1
            if self.rstall > STALL_LIMIT:
                raise Violation("read-stall", "", f"no AR/R transfer for {self.rstall} clocks although the master offers "
                                                  "a read and holds rready high")
        else:
            self.rstall = 0

    # ------------------------------------------------------------------------------------------------
    def _cycle_value(self, addr, hw):
        ri = self.m.reg_of(addr)
        if ri is None:
            return 0
        return self.m.word(self.regs, ri, hw, addr)

    def _resolve(self, wr, rd, popped_write, popped_read, hw, post):
        """Find the explanation of the observed register/notification outputs among the behaviours the property
        allows at this edge; update self.regs, commit marks in wr, notified marks in rd."""
        m = self.m
        obs_regs = post["regs"]
        obs_notes = post["notes"]
        # candidate write sequences: writes take effect in request order; the popped (answered) write must have
        # taken effect by now; the others may or may not
        seq = []  # uncommitted writes in order: (index in wr or -1 for the popped one, write)
        if popped_write is not None and not popped_write[3]:
            seq.append((-1, popped_write))
        for i, w in enumerate(wr):
            if not w[3]:
                seq.append((i, w))
        cmin = 1 if (popped_write is not None and not popped_write[3]) else 0
        # read notifications: reads (popped one must be notified by now) of registers with a read notification
        rnote_ports = {ri: k for k, (ri, evn, port) in enumerate(m.notes) if evn == "read"}
        rnote_regs = set(rnote_ports) | set(m.rflags)  # registers with a read notification (pulse and/or sticky flag)
        obs_idx = m.observed
        wnote_ports = {ri: k for k, (ri, evn, port) in enumerate(m.notes) if evn == "write"}
        rcand = []  # (index in rd or -1, reg index, forced)
        if popped_read is not None and not popped_read[3]:
            ri = m.reg_of(popped_read[0])
            if ri in rnote_regs:
                rcand.append((-1, ri, True))
        for i, r in enumerate(rd):
            if not r[3]:
                ri = m.reg_of(r[0])
                if ri in rnote_regs:
                    rcand.append((i, ri, False))
        # hardware-side clears at this edge
        clear_slots = [slot for slot, port in m.clears if hw[port] == 1]
        first_diff = None
        for c in range(cmin, len(seq) + 1):
            st = self.regs
            set_slots = []
            wnotes = [0] * len(m.notes)
            for _, w in seq[:c]:
                st, fl = m.write(st, w[0], w[1], w[2])
                set_slots.extend(fl)
                ri = m.reg_of(w[0])
                if ri in wnote_ports:
                    wnotes[wnote_ports[ri]] = 1
            # flags: clear / set in the same clock -> either outcome (open in the docs)
            base = list(st)
            open_slots = []
            for slot in clear_slots:
                if slot in set_slots:
                    open_slots.append(slot)
                else:
                    base[slot] = 0
            # read notification choices: forced ones fire, the others may fire (in order: a later read cannot be
            # notified before an earlier one)
            nfree = [x for x in rcand if not x[2]]
            for k in range(0, len(nfree) + 1):
                notes = list(wnotes)
                fired = [x for x in rcand if x[2]] + nfree[:k]
                sticky = []
                for _, ri, _ in fired:
                    if ri in rnote_ports:
                        notes[rnote_ports[ri]] = 1
                    if ri in m.rflags:  # FlagOnNotify.Read: set by the read access, stays set
                        sticky.append(m.rflags[ri])
                for combo in itertools.product((0, 1), repeat=len(open_slots)):
                    cand = list(base)
                    for slot, v in zip(open_slots, combo):
                        cand[slot] = v
                    for slot in sticky:
                        cand[slot] = 1
                    cand = tuple(cand)
                    if m.all_observed:
                        same = cand == obs_regs
                    else:
                        same = all(cand[i] == obs_regs[i] for i in obs_idx)
                    if same and tuple(notes) == obs_notes:
                        # accept
                        if cand != self.regs:
                            self._ev("regs-changed")
                        self.regs = cand
                        for idx, w in seq[:c]:
                            self._note_commit(w)
                            if idx >= 0:
                                wr[idx] = (w[0], w[1], w[2], True)
                        for idx, ri, _ in fired:
                            self._ev("read-notified")
                            if idx >= 0:
                                a, adm, resp, _n = rd[idx]
                                rd[idx] = (a, adm, resp, True)
                        if open_slots:
                            self._ev("flag-set-clear-same-clock")
                        if clear_slots:
                            self._ev("hw-clear")
                        return
                    nd = sum(1 for x, y in zip(cand + tuple(notes), obs_regs + obs_notes) if x != y and y != UNOBSERVED)
                    if first_diff is None or nd < first_diff[2]:
                        first_diff = (cand, tuple(notes), nd)
        # no explanation
        exp_regs, exp_notes, _nd = first_diff
        names = [p or "-" for p in m.ports] + [p for _, _, p in m.notes]
        obs_regs = tuple(e if o == UNOBSERVED else o for o, e in zip(obs_regs, first_diff[0]))
        diffs = [f"{n}: design={_hx(o)} model={_hx(e)}" for n, o, e in
                 zip(names, obs_regs + obs_notes, exp_regs + exp_notes) if o != e]
        diff_ports = "+".join(n for n, o, e in zip(names, obs_regs + obs_notes, exp_regs + exp_notes) if o != e)
        if seq:
            w = seq[0][1]
            ri = m.reg_of(w[0])
            rname = m.regs[ri]["name"] if ri is not None else "unmapped"
            rcls = m.regs[ri]["cls"] if ri is not None else "-"
            ctx = (f"pending write addr=0x{w[0]:x} ({rname}) data={_hx(w[1])} strb={w[2]:04b}"
                   + (" [answered at this edge]" if seq[0][0] == -1 else ""))
            detail = f"write/addr=0x{w[0]:x}:{rcls}/strb={w[2]:04b}/diff={diff_ports}"
        else:
            ctx = "no write pending"
            detail = f"idle/diff={diff_ports}"
        raise Violation("regs", detail,
                        f"register outputs after the edge have no admissible explanation ({ctx}; "
                        f"reads pending: {[hex(r[0]) for r in rd]}); closest: " + "; ".join(diffs))

    def _note_commit(self, w):
        ri = self.m.reg_of(w[0])
        ev = self._ev
        if ri is None:
            ev("write-unmapped")
        else:
            ev("write-mapped")
            ev(f"write-strb-{w[2]:04b}")


def _hx(v):
    if v is None:
        return "undefined"
    if isinstance(v, tuple):
        return "(" + ",".join(_hx(x) for x in v) + ")"
    return f"0x{v:x}"

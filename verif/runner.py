"""CLI: python -m verif.runner check C01 --tier quick | --replay <file>"""
from __future__ import annotations

import argparse
import importlib
import json
import os
import sys
import traceback

from .core import Run, ToolError


def main(argv=None):
    ap = argparse.ArgumentParser()
    sub = ap.add_subparsers(dest="cmd", required=True)
    c = sub.add_parser("check")
    c.add_argument("pid")
    c.add_argument("--tier", default=None)
    c.add_argument("--replay", default=None)
    c.add_argument("--only", default=None, help="comma list of sub-check names (debug)")
    args = ap.parse_args(argv)

    tier = os.environ.get("VERIF_TIER") or args.tier or "quick"
    if args.tier and not os.environ.get("VERIF_TIER"):
        tier = args.tier
    if tier not in ("quick", "thorough"):
        tier = "quick"
    try:
        seed = int(os.environ.get("VERIF_SEED", "0"))
    except ValueError:
        seed = 0
    os.environ.setdefault("PYTHONHASHSEED", "0")
    mod = importlib.import_module(f"verif.checks.{args.pid}")
    run = Run(args.pid, tier, seed, getattr(mod, "LEVEL", "exploration"))
    run.only = set(args.only.split(",")) if args.only else None
    try:
        if args.replay:
            with open(args.replay) as f:
                data = json.load(f)
            if not hasattr(mod, "replay"):
                print("no replay support for", args.pid)
                return 2
            ok = mod.replay(run, data)
            # replay: exit 1 if the violation reproduces
            if run.violations or ok is False:
                print(f"REPLAY reproduced: {data.get('what')}")
                return 1
            print("REPLAY did not reproduce")
            return 0
        from .core import deep_call

        deep_call(mod.main, run)
    except ToolError as e:
        run.tool_error(str(e))
    except Exception as e:  # noqa
        traceback.print_exc()
        run.tool_error(f"exception in check: {e!r}")
    return run.finish()


if __name__ == "__main__":
    sys.exit(main())

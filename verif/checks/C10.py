"""C10  The compile-time Python subset evaluates exactly like CPython.

Bounded-exhaustive differential against CPython.  Every generated case (pure Python definitions + one call
expression) is executed (1) by CPython and (2) by cohdl's tracer inside a `std.concurrent` body of a
throw-away entity compiled with std.VhdlCompiler.to_string, where the value is handed to a `cohdl.pyeval`
probe.  Oracle: structurally equal value, or cohdl rejects; where CPython raises an argument-binding
TypeError (family `sig`) cohdl must reject.  and/or are compared by truth value (the reference wraps every
BoolOp in bool()).  Cases for which CPython raises anything else carry no claim and are only counted.

Families (generators in verif/gen/c10_*.py; each module docstring states its grammar), bound quick | thorough:
  sig   signatures x call shapes x placements: module-level def with <=2 parameters and every call shape, with 3
        parameters without the mixed (part direct, part spread) forms; <=2 parameters without mixed forms in 5 more
        placements + one seed-chosen extra placement; duplicate-keyword shapes for <=1 parameter
        | <=3 parameters, every call shape, all 11 placements + duplicate-keyword shapes for <=2 parameters in 6 placements
  ops   binary/reflected/comparison/unary/truth/augmented dunder dispatch: all operators x operand relations x
        method specs on two classes (both tiers); hierarchies A <- B <- C(M, B) with the forward / reflected method
        defined in A / overridden in B / in C / in the mixin, for + - < == | all 19 operators
  cls   inheritance, super(), __init__ chains, properties, __call__, class/static methods, isinstance/type matrices
  clo   closures: all scope trees of depth 2 and 3; name-resolution chains (local / parameter / cell / outer cell /
        module global / builtin of the same name, closures made outside and inside the context); loop capture; idioms
  expr  typed expression grammar: depth 1 (all atoms) + depth 2 (representative atoms)
        | depth 2 with all atoms of the inner operator + depth 3 chains
  stmt  starred/nested targets x sources, constant if/elif/else shapes x conditions x values, for/comprehension scoping

Many CPython-accepted cases share one compiled entity (BATCH probes); a rejected batch is re-run case by case, and every
reported violation is re-confirmed alone in the parent process before it is recorded.
"""
from __future__ import annotations

import io
import json
import os
import sys

from ..core import Run, ToolError, pmap, chunked
from ..cohdl_util import compile_source
from ..gen import c10_common as cm
from ..gen import c10_probe

LEVEL = "exploration"
BATCH = 24  # probes per shared entity
MAX_RECORDED = 60  # replay files written per run (further violations are only counted)


# ---------------------------------------------------------------------------------------------
# families: every generator module offers tasks(thorough, seed) -> small picklable work-unit descriptors and
# expand(descriptor) -> iterator of cases; the (possibly millions of) cases are only materialised inside workers
# ---------------------------------------------------------------------------------------------
FAMILIES = ("sig", "ops", "cls", "clo", "expr", "stmt")


def _gen(fam):
    import importlib

    return importlib.import_module(f"verif.gen.c10_{fam}")


# ---------------------------------------------------------------------------------------------
# worker
# ---------------------------------------------------------------------------------------------
class _Quiet:
    """cohdl prints its diagnostics for rejected programs to stdout: silence them in workers"""

    def __enter__(self):
        self.old = sys.stdout
        sys.stdout = io.StringIO()

    def __exit__(self, *a):
        sys.stdout = self.old


def compile_cases(cases_idx):
    """-> (ok, {idx: [values]}, error)"""
    src = cm.render_module(cases_idx)
    del c10_probe.got[:]
    with _Quiet():
        res, _ = compile_source(src, entity="T")
    got = {}
    for i, x in c10_probe.got:
        got.setdefault(i, []).append(x)
    del c10_probe.got[:]
    return res.ok, got, res.error, src


def judge(c, ref, ok, vals, err):
    """-> (status, what)   status in match | mismatch | rejected | mustrej_ok | mustrej_bad | noprobe"""
    if ref[0] == "exc":
        # only called for binding errors
        if ok:
            got = cm.show(cm.canon(vals[0])) if vals else "<no value>"
            return "mustrej_bad", f"CPython: {ref[1]}: {ref[2]}; cohdl accepts and yields {got}"
        return "mustrej_ok", None
    if not ok:
        return "rejected", err
    if not vals:
        return "noprobe", "compile succeeded but the probe was never called"
    cans = [cm.canon(v) for v in vals]
    for cv in cans:
        if cv != ref[1]:
            return "mismatch", f"cohdl yields {cm.show(cv)}, CPython yields {cm.show(ref[1])}"
    return "match", None


CHUNK = 96


def work(desc):
    """desc: a work-unit descriptor of one family (or, for tests, a list of cases)."""
    cases = desc if isinstance(desc, list) else _gen(desc[0]).expand(desc)
    total = {"cnt": {}, "viol": [], "samples": [], "rej": {}}
    keys = set()
    for part in chunked(cases, CHUNK):
        for c in part:
            if c["key"] in keys:
                raise ToolError(f"duplicate case key {c['key']}")
            keys.add(c["key"])
        r = work_chunk(part)
        for k, v in r["cnt"].items():
            total["cnt"][k] = total["cnt"].get(k, 0) + v
        for k, v in r["rej"].items():
            total["rej"][k] = total["rej"].get(k, 0) + v
        total["viol"].extend(r["viol"])
        have = {x["cohdl"] for x in total["samples"]}
        total["samples"].extend(x for x in r["samples"] if x["cohdl"] not in have)
    _drop_definition_cache()
    return total


def work_chunk(task):
    """task: list of cases.  Returns counters + violations + samples."""
    cnt = {}

    def count(k, n=1):
        cnt[k] = cnt.get(k, 0) + n

    viol = []
    samples = []
    sample_status = set()
    rejected_kinds = {}
    indexed = list(enumerate(task))
    refs = {}
    batchable = []
    single = []
    for idx, c in indexed:
        fam = c["key"].split("/", 1)[0]
        ref = cm.reference(cm.subst(c["defs"], idx), cm.subst(c["call"], idx))
        refs[idx] = ref
        count("cases")
        count(f"{fam}_cases")
        if ref[0] == "val":
            count("cpython_value")
            count(f"{fam}_cpython_value")
            (single if c.get("solo") else batchable).append((idx, c))
        elif ref[3] and c["binding"]:
            count("cpython_binding_error")
            single.append((idx, c))
        else:
            count("cpython_other_error_noclaim")

    def record(idx, c, ok, vals, err, src_single=None):
        fam = c["key"].split("/", 1)[0]
        ref = refs[idx]
        status, what = judge(c, ref, ok, vals, err)
        count(status)
        count(f"{fam}_{status}")
        if status in ("mismatch", "mustrej_bad", "noprobe"):
            viol.append({"key": c["key"], "what": what, "defs": c["defs"], "call": c["call"], "binding": c["binding"]})
        elif status == "rejected":
            k = (err or "?").split(":", 1)[0]
            rejected_kinds[k] = rejected_kinds.get(k, 0) + 1
        if status in ("match", "mustrej_ok") and status not in sample_status:
            sample_status.add(status)
            samples.append({"key": c["key"], "call": c["call"], "defs": c["defs"][:300],
                            "cpython": cm.show(ref[1]) if ref[0] == "val" else f"{ref[1]}: {ref[2]}",
                            "cohdl": "equal value" if status == "match" else "rejected"})

    for group in chunked(batchable, BATCH):
        ok, got, err, _ = compile_cases(group)
        count("compiles")
        if ok:
            count("batches_shared")
            for idx, c in group:
                record(idx, c, True, got.get(idx, []), None)
        else:
            # attribute the rejection: every case of the batch on its own
            for idx, c in group:
                ok1, got1, err1, _ = compile_cases([(idx, c)])
                count("compiles")
                record(idx, c, ok1, got1.get(idx, []), err1)
    for idx, c in single:
        ok1, got1, err1, _ = compile_cases([(idx, c)])
        count("compiles")
        record(idx, c, ok1, got1.get(idx, []), err1)
    return {"cnt": cnt, "viol": viol, "samples": samples, "rej": rejected_kinds}


def _drop_definition_cache():
    """cohdl memoises every traced function (with its globals) for the life of the process; a worker tracing
    10^5 throw-away modules would otherwise grow by ~17 kB per case.  Dropping a memo table between tasks does
    not change what a (correct) compiler computes; statefulness across compilations is C11's subject."""
    try:
        from cohdl._core._collect_ast_and_scope import FunctionDefinition

        FunctionDefinition._known_definitions.clear()
    except Exception:
        pass


# ---------------------------------------------------------------------------------------------
def confirm(v):
    """re-run one reported case alone in this process; -> what | None"""
    c = {"key": v["key"], "defs": v["defs"], "call": v["call"], "binding": v.get("binding", False)}
    ref = cm.reference(cm.subst(c["defs"], 0), cm.subst(c["call"], 0))
    if ref[0] == "exc" and not (ref[3] and c["binding"]):
        return None
    ok, got, err, src = compile_cases([(0, c)])
    status, what = judge(c, ref, ok, got.get(0, []), err)
    if status in ("mismatch", "mustrej_bad", "noprobe"):
        return what, src
    return None


def main(run: Run):
    fams = [f for f in FAMILIES if not getattr(run, "only", None) or f in run.only]
    tasks = []
    for fam in fams:
        tasks.extend(_gen(fam).tasks(run.thorough, run.seed))
    # biggest units first would need their sizes; a fixed interleaving is enough to keep 16 workers busy
    run.count("work_units", len(tasks))
    rej_kinds = {}
    known_inst = {}
    dump = open(os.environ["C10_DUMP"], "w") if os.environ.get("C10_DUMP") else None  # development aid
    for kind, res in pmap(work, tasks, seed=run.seed):
        if kind != "ok":
            run.tool_error(f"worker failed: {res[-800:]}")
            continue
        run.merge_counts(res["cnt"])
        for k, n in res["rej"].items():
            rej_kinds[k] = rej_kinds.get(k, 0) + n
        for s in res["samples"]:
            tag = "_s_" + s["key"].split("/", 1)[0] + "_" + s["cohdl"]
            if run.counters.get(tag, 0) < 1:
                run.count(tag)
                run.sample(s, force=True)
        for v in res["viol"]:
            run.count("violating_cases")
            if dump is not None:
                dump.write(json.dumps({"key": v["key"], "what": v["what"], "call": v["call"]}) + "\n")
            k = run._known_match(v["key"])
            if k is not None and k.get("glob"):
                # one root cause with many instances: confirm + print the first instance, count the rest
                known_inst[k["key"]] = known_inst.get(k["key"], 0) + 1
                if known_inst[k["key"]] > 1:
                    continue
            elif k is None and len(run.violations) >= MAX_RECORDED:
                run.count("violations_not_recorded")
                continue
            conf = confirm(v)
            if conf is None:
                run.tool_error(f"violation did not reproduce in isolation: {v['key']}: {v['what']}")
                continue
            what, src = conf
            run.violation(v["key"], f"{v['call']}: {what}",
                          {"defs": v["defs"], "call": v["call"], "binding": v.get("binding", False), "module_source": src})
    if dump is not None:
        dump.close()
    for k in [k for k in run.counters if k.startswith("_s_")]:
        del run.counters[k]
    c = run.counters
    accepted = c.get("match", 0) + c.get("mismatch", 0)
    cp_ok = c.get("cpython_value", 0)
    if cp_ok == 0 or accepted * 2 < cp_ok:
        run.tool_error(f"vacuous: cohdl accepted only {accepted} of {cp_ok} cases that CPython evaluates")
    for fam in fams:
        a = c.get(f"{fam}_match", 0) + c.get(f"{fam}_mismatch", 0)
        n = c.get(f"{fam}_cpython_value", 0)
        if n == 0 or a * 5 < n:
            run.tool_error(f"vacuous family {fam}: cohdl accepted only {a} of {n} cases that CPython evaluates")
    if c.get("cpython_binding_error", 0) == 0 and "sig" in fams:
        run.tool_error("vacuous: no argument-binding error case was generated")
    compared = accepted + c.get("mustrej_ok", 0) + c.get("mustrej_bad", 0)
    run.coverage_extra.update(
        exhaustive=True,
        rule="complete enumeration of each family's grammar up to the tier's bound (see module docstrings of "
             "verif/gen/c10_*.py); a case is non-trivial when an actual comparison took place: CPython produced a value "
             "and cohdl accepted (values compared structurally), or CPython raised an argument-binding TypeError "
             "(cohdl must reject).  Case keys encode the complete input and are checked to be distinct within every work unit.",
        evaluations=c.get("cases", 0),
        distinct_nontrivial=compared,
        rejected_by_cohdl=c.get("rejected", 0),
        rejection_kinds=dict(sorted(rej_kinds.items(), key=lambda kv: -kv[1])[:12]),
        known_finding_instances=known_inst,
    )
    run.assume("CPython " + sys.version.split()[0] + " running the check is the reference semantics")
    run.assume("and/or are compared by truth value: the reference wraps every BoolOp in bool()")
    run.assume("cases where CPython raises a non-binding exception carry no claim (counted as cpython_other_error_noclaim)")


def replay(run: Run, data):
    conf = confirm({"key": data["key"], "defs": data["defs"], "call": data["call"], "binding": data.get("binding", False)})
    if conf is not None:
        print("reproduced:", conf[0])
        return False
    return True

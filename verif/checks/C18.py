"""C18  std combinational helpers compute their mathematical definition.

Bounded-exhaustive: every helper named in the property x parameters (widths, list lengths, batch sizes)
x EVERY input value, at two levels

  py : the helper is called on cohdl constants (Unsigned[4](5), BitVector[3]("101"), ...)
  hw : the same call sits in a std.concurrent context of a wrapper entity with input ports; the emitted
       VHDL is simulated with vsim for every input valuation (many instances share one entity)

against definitions written with plain ints / bit strings (verif/ref/c18_defs.py), and

  crc: std.crc.BitwiseCrc in a clocked wrapper, product BFS over all messages of <= 6 bits fed 1, 2 or 3
       bits per clock (mixed), compared with polynomial long division.
"""
from __future__ import annotations

import itertools
import os
import re

from ..core import Run, ToolError, pmap
from ..gen import c18_cases as G
from ..ref import c18_defs as R

LEVEL = "exploration"

HEADER = """from __future__ import annotations
from cohdl import std, Bit, BitVector, Unsigned, Signed, Port, Null, Full, Entity
import cohdl

TArg = std.TemplateArg.Type


class Wrapped(std.Record[TArg]):
    # compound operand with its own order (as in the upstream clamp test)
    val: TArg

    def __lt__(self, other: Wrapped):
        return self.val < other.val
"""


# ---------------------------------------------------------------------------------------------
# source generation
# ---------------------------------------------------------------------------------------------
def make_source(insts, entity=True):
    """module text: one function f<j> per instance + (optionally) wrapper entity T"""
    L = [HEADER]
    ins = insts[0]["ins"]
    for j, it in enumerate(insts):
        assert it["ins"] == ins
        params = [n for n, _, _ in ins] + [f"o{m}" for m in range(len(it["outs"]))]
        L.append(f"def f{j}({', '.join(params)}):")
        for line in it["body"]:
            L.append("    " + line)
        L.append("")
    if entity:
        L.append("class T(Entity):")
        for n, k, w in ins:
            L.append(f"    p_{n} = Port.input({G.tname(k, w)})")
        for j, it in enumerate(insts):
            for m, (k, w) in enumerate(it["outs"]):
                L.append(f"    q{j}_{m} = Port.output({G.tname(k, w)})")
        L.append("    def architecture(self):")
        L.append("        @std.concurrent")
        L.append("        def logic():")
        for j, it in enumerate(insts):
            args = [f"self.p_{n}" for n, _, _ in ins] + [f"self.q{j}_{m}" for m in range(len(it["outs"]))]
            L.append(f"            f{j}({', '.join(args)})")
    return "\n".join(L) + "\n"


def valuations(ins, mode="full"):
    """every input valuation (mode 'full') / the structured value set of the wide stratum"""
    names = [n for n, _, _ in ins]
    for vals in itertools.product(*G.port_values(ins, mode)):
        yield dict(zip(names, vals))


def expected(it, v):
    """tuple of expected outputs, or None if v is outside the instance's alphabet"""
    if it["valid"] is not None and not R.VALID[it["valid"]](it["p"], v):
        return None
    exp = R.REF[it["ref"]](it["p"], v)
    assert len(exp) == len(it["outs"]), it["key"]
    return exp


# ---------------------------------------------------------------------------------------------
# Python level
# ---------------------------------------------------------------------------------------------
class Out:
    """stands in for an output port: `o <<= value` stores the value"""
    __slots__ = ("v",)

    def __init__(self):
        self.v = None

    def __ilshift__(self, v):
        self.v = v
        return self


def make_const(kind, w, x):
    from cohdl import Bit, BitVector, Signed, Unsigned

    if kind == "bv":
        return BitVector[w](R.bits(x, w))
    if kind == "u":
        return Unsigned[w](x)
    if kind == "s":
        return Signed[w](R.signed(x, w))
    return Bit(bool(x))


def py_extract(v):
    """(kind, width, unsigned pattern) of a Python-level result"""
    from cohdl import Bit, BitVector, Signed, Unsigned
    from cohdl._core._type_qualifier import TypeQualifierBase

    v = TypeQualifierBase.decay(v)
    if isinstance(v, bool):
        return ("bool", 1, int(v))
    if isinstance(v, int):
        return ("int", None, v)
    if isinstance(v, Bit):
        return ("bit", 1, 1 if v else 0)
    if isinstance(v, BitVector):
        kind = "s" if isinstance(v, Signed) else "u" if isinstance(v, Unsigned) else "bv"
        return (kind, v.width, v.unsigned.to_int())
    return ("?" + type(v).__name__, None, None)


def py_matches(out, exp, got):
    kind, w = out
    gk, gw, gv = got
    if gv is None:
        return False
    if kind == "bit":
        return gw in (1, None) and gv == exp
    if kind == "u":
        if gk == "s":
            return False
        return gv == exp
    # bv / s: the width is part of the definition
    if gk in ("int", "bool"):
        return False
    if kind == "s" and gk != "s":
        return False
    return gw == w and gv == (exp & ((1 << w) - 1))


def py_call(fn, it, v):
    args = [make_const(k, w, v[n]) for n, k, w in it["ins"]]
    outs = [Out() for _ in it["outs"]]
    fn(*args, *outs)
    return [py_extract(o.v) for o in outs]


def is_fatal(e):
    return isinstance(e, (KeyboardInterrupt, SystemExit, MemoryError))


def py_sweep(fn, it, stat):
    """all valuations of one instance at the Python level"""
    n_exc = 0
    n_ok = 0
    for v in valuations(it["ins"], it.get("vals", "full")):
        exp = expected(it, v)
        if exp is None:
            continue
        try:
            got = py_call(fn, it, v)
        except BaseException as e:  # noqa
            if is_fatal(e):
                raise
            n_exc += 1
            if "py_error" not in stat:
                stat["py_error"] = f"{type(e).__name__}: {str(e)[:160]}"
                stat["py_error_at"] = v
            if n_exc >= 4 and n_ok == 0:
                break  # raises for every input: the helper is not evaluable on constants in this shape
            continue
        n_ok += 1
        stat["py_evals"] += 1
        if len(stat["distinct"]) < 3:
            stat["distinct"].add(exp)
        for m, out in enumerate(it["outs"]):
            if not py_matches(out, exp[m], got[m]):
                stat["py_bad"] += 1
                if "py_first" not in stat:
                    stat["py_first"] = {"inputs": v, "output": m, "expected": exp[m], "expected_type": list(out),
                                        "observed": list(got[m])}
                break
    stat["py_exc"] = n_exc


# ---------------------------------------------------------------------------------------------
# compiled level
# ---------------------------------------------------------------------------------------------
def hw_sweep(vhdl, insts, idxs, stats):
    """simulate one wrapper for every input valuation; insts[j] drives ports q<idxs[j]>_<m>"""
    from ..vhdl.elab import compile_design

    d = compile_design(vhdl)
    if d.findings or d.multi_driven:
        raise ToolError(f"vsim static findings in a C18 wrapper: {d.findings[:2]} {d.multi_driven[:2]}")
    sim = d.sim()
    ins = insts[0]["ins"]
    ports = [[f"q{j}_{m}" for m in range(len(it["outs"]))] for j, it in zip(idxs, insts)]
    masks = [[(1 << w) - 1 for _, w in it["outs"]] for it in insts]
    for v in valuations(ins, insts[0].get("vals", "full")):
        sim.set_many({"p_" + n: x for n, x in v.items()})
        o = sim.outputs()
        for it, st, ps, ms in zip(insts, stats, ports, masks):
            exp = expected(it, v)
            if exp is None:
                continue
            st["hw_evals"] += 1
            if len(st["distinct"]) < 3:
                st["distinct"].add(exp)
            for m, pn in enumerate(ps):
                got = o[pn]
                if isinstance(got, bool):
                    got = int(got)
                if got is None or got != (exp[m] & ms[m]):
                    st["hw_bad"] += 1
                    if "hw_first" not in st:
                        st["hw_first"] = {"inputs": v, "output": m, "expected": exp[m] & ms[m], "observed": got}
                    break


def run_group(task):
    """one signature group: compile once, sweep all valuations at both levels"""
    from ..cohdl_util import compile_entity, compile_source, load_module, unload_module

    insts = task["insts"]
    stats = [{"key": it["key"], "helper": it["helper"], "py_evals": 0, "hw_evals": 0, "py_bad": 0, "hw_bad": 0,
              "distinct": set(), "hw": "skipped", "py": "skipped"} for it in insts]
    mod = load_module(make_source(insts, entity=task["hw"]))
    try:
        if task["hw"]:
            res = compile_entity(mod.T)
            if res.ok:
                hw_sweep(res.vhdl, insts, list(range(len(insts))), stats)
                for st in stats:
                    st["hw"] = "ok"
            else:
                # some instance is rejected: compile them one by one
                for it, st in zip(insts, stats):
                    r1, _ = compile_source(make_source([it]), "T")
                    if r1.ok:
                        hw_sweep(r1.vhdl, [it], [0], [st])
                        st["hw"] = "ok"
                    else:
                        st["hw"] = "rejected"
                        st["hw_error"] = r1.error[:200]
        if task["py"]:
            for j, (it, st) in enumerate(zip(insts, stats)):
                py_sweep(getattr(mod, f"f{j}"), it, st)
                st["py"] = "ok" if st["py_evals"] else "rejected"
    finally:
        unload_module(mod)
    for st in stats:
        st["distinct"] = len(st["distinct"])
    return {"kind": "group", "stats": stats}


# ---------------------------------------------------------------------------------------------
# CRC
# ---------------------------------------------------------------------------------------------
def crc_source(w, poly, init, invert):
    init_txt = {"Null": "Null", "Full": "Full"}.get(init, None) or f"BitVector[{w}]('{init}')"
    return HEADER + f"""
class T(Entity):
    clk = Port.input(Bit)
    clear = Port.input(Bit)
    n = Port.input(Unsigned[3])
    d0 = Port.input(Bit)
    d1 = Port.input(Bit)
    d2 = Port.input(Bit)
    res = Port.output(BitVector[{w}])

    def architecture(self):
        crc = std.crc.BitwiseCrc(BitVector[{w}]('{R.bits(poly, w)}'), initial_value={init_txt}, invert_result={invert})

        @std.sequential(std.Clock(self.clk))
        def proc():
            if self.clear:
                crc.clear()
            elif self.n == 1:
                crc.update(self.d0)
            elif self.n == 2:
                crc.update_multiple(self.d0, self.d1)
            elif self.n == 3:
                crc.update_multiple(self.d0, self.d1, self.d2)
            elif self.n == 4:
                crc.update_multiple(self.d0)

        @std.concurrent
        def out():
            self.res <<= crc.result()
"""


MAXMSG = 6


class CrcSystem:
    """DUT (vsim) x message-so-far; the environment feeds 1..3 bits per clock, idles or clears"""

    def __init__(self, vhdl, w, poly, init, invert):
        from ..vhdl.elab import compile_design

        d = compile_design(vhdl)
        if d.findings or d.multi_driven:
            raise ToolError(f"vsim static findings in the CRC wrapper: {d.findings[:2]}")
        self.sim = d.sim()
        self.w, self.poly = w, poly
        self.init = {"Null": 0, "Full": (1 << w) - 1}.get(init, None)
        if self.init is None:
            self.init = int(init, 2)
        self.xorout = (1 << w) - 1 if invert else 0
        self.msg = ()
        self.sim.set_many({"clk": 0, "clear": 0, "n": 0, "d0": 0, "d1": 0, "d2": 0})
        self.menu_cache = {}

    def snapshot(self):
        return (self.sim.snapshot(), self.msg)

    def restore(self, s):
        self.sim.restore(s[0])
        self.msg = s[1]

    def choices(self):
        room = MAXMSG - len(self.msg)
        if room not in self.menu_cache:
            m = [("clear",), ("idle",)]
            for n, k in ((1, 1), (4, 1), (2, 2), (3, 3)):
                if k <= room:
                    for bits in itertools.product((0, 1), repeat=k):
                        m.append(("feed", n, bits))
            self.menu_cache[room] = m
        return self.menu_cache[room]

    def reference(self):
        return R.crc_division(self.poly, self.w, self.msg, self.init, self.xorout)

    def apply(self, ch):
        s = {"clear": 0, "n": 0, "d0": 0, "d1": 0, "d2": 0}
        if ch[0] == "clear":
            s["clear"] = 1
            self.msg = ()
        elif ch[0] == "feed":
            s["n"] = ch[1]
            for i, b in enumerate(ch[2]):
                s[f"d{i}"] = b
            self.msg = self.msg + tuple(ch[2])
        self.sim.set_many(s)
        self.sim.clock("clk")
        # park the inputs so that states differing only in the last stimulus merge
        self.sim.set_many({"clear": 0, "n": 0, "d0": 0, "d1": 0, "d2": 0})
        got = self.sim.get("res")
        exp = self.reference()
        if got != exp:
            return f"after message {''.join(map(str, self.msg))!r}: result {got} expected {exp}"
        return None

    def observe(self):
        return self.sim.get("res")


def crc_configs(thorough):
    for w in (3, 4, 5):
        for poly in range(1 << w):
            inits = ["Null", "Full"]
            if thorough:
                inits += [R.bits(1, w), R.bits(5 % (1 << w), w)]
            for init in inits:
                for invert in (False, True):
                    # (n, k): mode n of the wrapper feeds k bits; 1 = update, 4 = update_multiple with one bit
                    mode_sets = [[(1, 1), (4, 1), (2, 2), (3, 3)]] if thorough else [[(1, 1), (2, 2), (3, 3)], [(4, 1)]]
                    yield {"w": w, "poly": poly, "init": init, "invert": invert, "mode_sets": mode_sets}


def crc_key(c):
    return f"crc/w={c['w']}/poly={R.bits(c['poly'], c['w'])}/init={c['init']}/invert={c['invert']}"


def crc_tree(sys_, modes):
    """Depth-first walk over every message of <= MAXMSG bits under every split into steps of the given
    modes (prefixes shared through snapshot/restore).  At every node additionally: an idle clock keeps the
    result, clear returns to the CRC of the empty message and a following 2-bit step is correct.
    (A BFS with state merging is pointless here: the emitted process keeps dead temporaries as VHDL
    variables, so the full simulator state remembers the path taken.)
    Returns (nodes, transitions, violation text | None, trace)."""
    stats = [0, 0]
    seen = set()

    def side(snap, trace, steps):
        sys_.restore(snap)
        for i, ch in enumerate(steps):
            stats[1] += 1
            msg = sys_.apply(ch)
            if msg is not None:
                return msg, trace + list(steps[:i + 1])
        return None

    def node(trace):
        stats[0] += 1
        snap = sys_.snapshot()
        seen.add(sys_.sim.get("res"))
        for steps in ((("idle",),), (("clear",), ("feed", 2, (1, 0)))):
            bad = side(snap, trace, steps)
            if bad:
                return bad
        room = MAXMSG - len(snap[1])
        for n, k in modes:
            if k > room:
                continue
            for bits in itertools.product((0, 1), repeat=k):
                sys_.restore(snap)
                ch = ("feed", n, bits)
                stats[1] += 1
                msg = sys_.apply(ch)
                if msg is not None:
                    return msg, trace + [ch]
                bad = node(trace + [ch])
                if bad:
                    return bad
        return None

    bad = node([])
    return stats[0], stats[1], (bad[0] if bad else None), (bad[1] if bad else None), len(seen)


def run_crc_one(c):
    from ..cohdl_util import compile_source

    res, _ = compile_source(crc_source(c["w"], c["poly"], c["init"], c["invert"]), "T")
    out = {"key": crc_key(c), "cfg": c}
    if not res.ok:
        out.update(status="rejected", error=res.error[:200])
        return out
    sys_ = CrcSystem(res.vhdl, c["w"], c["poly"], c["init"], c["invert"])
    # power-up value = CRC of the empty message
    got0, exp0 = sys_.sim.get("res"), sys_.reference()
    if got0 != exp0:
        out.update(status="violation", what=f"empty message: result {got0} expected {exp0}", trace=[])
        return out
    init = sys_.snapshot()
    nodes = trans = 0
    observed = 0
    for modes in c["mode_sets"]:
        sys_.restore(init)
        n, t, bad, trace, seen = crc_tree(sys_, modes)
        nodes += n
        trans += t
        observed = max(observed, seen)
        if bad:
            out.update(status="violation", what=bad, trace=[list(x) for x in trace], states=nodes, transitions=trans)
            return out
    out.update(status="ok", states=nodes, transitions=trans, observations=observed, exhausted=True)
    return out


def run_crc(task):
    return {"kind": "crc", "results": [run_crc_one(c) for c in task["cfgs"]]}


def work(task):
    return run_crc(task) if task["kind"] == "crc" else run_group(task)


# ---------------------------------------------------------------------------------------------
# task construction
# ---------------------------------------------------------------------------------------------
def build_tasks(insts, py_cap, max_per_entity=40, py_budget=25_000):
    by_sig = {}
    for it in insts:
        by_sig.setdefault((it["ins"], it.get("vals", "full")), []).append(it)
    tasks = []
    for (sig, mode), group in by_sig.items():
        bits = sum(w for _, _, w in sig)
        nv = G.n_valuations(sig, mode)
        do_py = mode == "wide" or bits <= py_cap
        per = max_per_entity
        if do_py:
            per = max(1, min(per, py_budget // nv))
        if nv >= 1 << 14:
            per = min(per, 12)
        if mode == "wide" and bits > 60:
            per = min(per, 15)      # wide entities compile slowly
        for i in range(0, len(group), per):
            chunk = group[i:i + per]
            cost = len(chunk) * nv * (1.0 if do_py else 0.08) * (3 if mode == "wide" else 1)
            tasks.append({"kind": "group", "insts": chunk, "py": do_py, "hw": True, "cost": cost, "bits": bits, "nv": nv})
    return tasks


# ---------------------------------------------------------------------------------------------
# main
# ---------------------------------------------------------------------------------------------
def main(run: Run):
    insts = G.instances(run.thorough)
    py_cap = 13 if run.thorough else 10
    cfgs = list(crc_configs(run.thorough))
    flt = os.environ.get("VERIF_C18_FILTER")
    if flt:
        # development aid only (restrict to instance / crc keys matching a regex); never claims completeness
        insts = [i for i in insts if re.search(flt, i["key"])]
        cfgs = [c for c in cfgs if re.search(flt, crc_key(c))]
        run.capped = True
        run.note(f"restricted by VERIF_C18_FILTER={flt!r}")
    tasks = build_tasks(insts, py_cap)
    for i in range(0, len(cfgs), 8):
        tasks.append({"kind": "crc", "cfgs": cfgs[i:i + 8], "cost": 20_000})
    tasks.sort(key=lambda t: -t["cost"])
    by_key = {it["key"]: it for it in insts}
    run.count("instances_generated", len(insts))
    run.count("crc_configs", len(cfgs))
    run.cmax("max_input_bits", max([G.total_bits(i) for i in insts] or [0]))
    helpers_seen = set()
    rejected_notes = {}
    sampled = set()

    for kind, res in pmap(work, tasks, seed=run.seed):
        if kind != "ok":
            run.tool_error(f"worker failed: {res[-700:]}")
            continue
        if res["kind"] == "crc":
            for r in res["results"]:
                run.count("crc_" + r["status"])
                if r["status"] == "rejected":
                    run.note(f"crc rejected: {r['key']}: {r['error']}")
                    continue
                run.count("crc_states", r.get("states", 0))
                run.count("crc_transitions", r.get("transitions", 0))
                if r.get("observations", 0) > 1:
                    run.count("crc_configs_nontrivial")
                if r["status"] == "ok" and not r.get("exhausted", True):
                    run.capped = True
                if r["status"] == "violation":
                    msg = replay_crc(r["cfg"], r["trace"])
                    if msg is None:
                        run.tool_error(f"crc replay did not reproduce for {r['key']}")
                        continue
                    run.violation(r["key"], f"{r['key']}: {r['what']} trace={r['trace']}",
                                  {"level": "crc", "cfg": r["cfg"], "events": r["trace"]})
            continue
        for st in res["stats"]:
            it = by_key[st["key"]]
            h = st["helper"]
            run.count("evals_py", st["py_evals"])
            run.count("evals_hw", st["hw_evals"])
            run.count("instances_hw_" + st["hw"])
            run.count("instances_py_" + st["py"])
            if st["distinct"] >= 2:
                run.count("instances_nontrivial")
            if st["hw"] == "ok" or st["py"] == "ok":
                helpers_seen.add(h)
            if st["hw"] == "rejected":
                rejected_notes.setdefault(("hw", h, st["hw_error"][:90]), []).append(st["key"])
            if st["py"] == "rejected":
                rejected_notes.setdefault(("py", h, st.get("py_error", "")[:90]), []).append(st["key"])
            elif st.get("py_exc"):
                run.count("py_partial_exceptions", st["py_exc"])
                rejected_notes.setdefault(("py-partial", h, st.get("py_error", "")[:90]), []).append(st["key"])
            if h not in sampled and st["hw"] == "ok":
                sampled.add(h)
                if len(sampled) % 6 == 1:
                    run.sample({"instance": st["key"], "body": it["body"], "evals_hw": st["hw_evals"], "evals_py": st["py_evals"]})
            for lvl in ("py", "hw"):
                if st[lvl + "_bad"]:
                    f = st[lvl + "_first"]
                    run.violation(f"{lvl}:{st['key']}",
                                  f"{lvl} level {' ; '.join(it['body'])} inputs={f['inputs']} output o{f['output']}: "
                                  f"observed {f['observed']} expected {f['expected']} ({st[lvl + '_bad']} wrong valuations)",
                                  {"level": lvl, "instance": it, "inputs": f["inputs"], "expected": f["expected"],
                                   "observed": f["observed"], "cohdl_source": make_source([it])})

    for (lvl, h, err), keys in sorted(rejected_notes.items()):
        run.note(f"{lvl} rejected/raised: {h} x{len(keys)} e.g. {keys[0]}: {err}")
    c = run.counters
    run.count("helpers_exercised", len(helpers_seen))
    all_helpers = {i["helper"] for i in insts}
    missing = sorted(all_helpers - helpers_seen)
    if missing:
        run.tool_error(f"vacuous: helpers never accepted at any level: {missing}")
    if c.get("instances_hw_ok", 0) * 10 < len(insts) * 9:
        run.tool_error(f"vacuous: only {c.get('instances_hw_ok', 0)} of {len(insts)} instances accepted by the compiler")
    if not flt and (c.get("evals_py", 0) < 1000 or c.get("evals_hw", 0) < 1000):
        run.tool_error("vacuous: fewer than 1000 evaluations at one of the levels")
    if cfgs and c.get("crc_ok", 0) + c.get("crc_violation", 0) < len(cfgs) * 0.9:
        run.tool_error("vacuous: most CRC wrappers rejected")
    run.assume("vsim (own VHDL-2008 subset simulator) implements IEEE 1076/numeric_std semantics")
    run.assume("reference = verif/ref/c18_defs.py, written from the .pyi docstrings with ints/bit strings; inputs for which the "
               "documentation is silent are outside the alphabet: rol/ror n>width, repeat/stretch factor 0, empty lists, "
               "one_hot position >= width, non-one-hot select_batch selectors, clamp with low > high, fill wider than value")
    run.assume("a Python-level exception or a compiler rejection is not a violation (counted and listed in the notes)")
    run.coverage_extra.update(
        exhaustive=not run.capped,
        rule="every instance of the helper families (verif/gen/c18_cases.py) within the tier's width / length / batch "
             "bounds x every input valuation, Python level (inputs <= %d bits) and compiled level (all); CRC: every "
             "polynomial of width 3..5 x all messages <= 6 bits under all splits into 1/2/3-bit steps" % py_cap,
        evaluations=c.get("evals_py", 0) + c.get("evals_hw", 0) + c.get("crc_transitions", 0),
        distinct_nontrivial=c.get("instances_nontrivial", 0) + c.get("crc_configs_nontrivial", 0),
    )


# ---------------------------------------------------------------------------------------------
# replay
# ---------------------------------------------------------------------------------------------
def replay_crc(cfg, trace):
    from ..cohdl_util import compile_source

    res, _ = compile_source(crc_source(cfg["w"], cfg["poly"], cfg["init"], cfg["invert"]), "T")
    if not res.ok:
        return None
    s = CrcSystem(res.vhdl, cfg["w"], cfg["poly"], cfg["init"], cfg["invert"])
    if not trace:
        got0, exp0 = s.sim.get("res"), s.reference()
        return None if got0 == exp0 else f"empty message: result {got0} expected {exp0}"
    msg = None
    for ch in trace:
        ch = tuple(tuple(x) if isinstance(x, list) else x for x in ch)
        msg = s.apply(ch)
    return msg


def replay(run: Run, data):
    if data.get("level") == "crc":
        msg = replay_crc(data["cfg"], data["events"])
        if msg is not None:
            print("reproduced:", msg)
            return False
        return True
    from ..cohdl_util import compile_source, load_module, unload_module

    it = data["instance"]
    it["ins"] = tuple(tuple(i) for i in it["ins"])
    it["outs"] = tuple(tuple(o) for o in it["outs"])
    v = {k: int(x) for k, x in data["inputs"].items()}
    exp = expected(it, v)
    if data["level"] == "py":
        mod = load_module(make_source([it], entity=False))
        try:
            got = py_call(mod.f0, it, v)
        finally:
            unload_module(mod)
        bad = [m for m, o in enumerate(it["outs"]) if not py_matches(o, exp[m], got[m])]
        if bad:
            print("reproduced:", it["key"], v, "observed", got, "expected", exp)
            return False
        return True
    res, _ = compile_source(make_source([it]), "T")
    if not res.ok:
        return True
    st = {"hw_evals": 0, "hw_bad": 0, "distinct": set()}
    from ..vhdl.elab import compile_design

    sim = compile_design(res.vhdl).sim()
    sim.set_many({"p_" + n: x for n, x in v.items()})
    o = sim.outputs()
    for m, (k, w) in enumerate(it["outs"]):
        got = o[f"q0_{m}"]
        got = int(got) if isinstance(got, bool) else got
        if got != (exp[m] & ((1 << w) - 1)):
            print("reproduced:", it["key"], v, f"o{m} observed", got, "expected", exp[m])
            return False
    return True

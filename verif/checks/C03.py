"""C03  Sequential and concurrent contexts obey hardware assignment semantics.

Explicit-state product BFS of (emitted VHDL under vsim) x (direct reference interpreter of the abstract
body, verif/gen/seqbody.py) over all 16 input valuations per clock, for every body of the bounded grammar:
signal / variable / push assignments (operator and property forms), bit, slice-of-slice and array-element
targets with constant and run-time index, read-after-write, if / elif / else, match with and without default,
for-break, for-else, helper functions returning from branches, if-expressions, `with cohdl.always:` inside the
sequential body and a separate concurrent context.  Outputs are compared after the inputs change (continuous
drivers) and after every clock (registers, pushes).
"""
from __future__ import annotations

from ..core import Run, pmap, chunked
from ..gen import seqbody
from .seq_common import check_program, replay_program

LEVEL = "model_checking"


def work(progs):
    out = []
    for prog in progs:
        r = check_program(prog)
        r["prog"] = prog
        out.append(r)
    return out


def family(run):
    seen = set()

    def add(it):
        for p in it:
            if p not in seen:
                seen.add(p)
                yield p

    for size in (1, 2, 3):
        yield from add(seqbody.programs(size))
    yield from add(seqbody.programs(1, level=1))
    if run.thorough:
        yield from add(seqbody.programs(2, level=1))
        yield from add(seqbody.programs(3, level=1))
        yield from add(seqbody.programs(4))
    else:
        # seed-chosen stratum beyond the complete bound
        extra = list(seqbody.programs(2, level=1))
        run.rng.shuffle(extra)
        yield from add(extra[:8000])
        extra = list(seqbody.programs(4))
        run.rng.shuffle(extra)
        yield from add(extra)


def main(run: Run):
    progs = list(family(run))
    run.count("programs_generated", len(progs))
    sample_every = max(1, len(progs) // 5)
    done = 0
    for kind, res in pmap(work, list(chunked(progs, 25)), seed=run.seed):
        if kind != "ok":
            run.tool_error(f"worker failed: {res[-600:]}")
            continue
        for r in res:
            done += 1
            st = r["status"]
            run.count("programs_" + st)
            if st in ("ok", "violation"):
                run.count("states", r.get("states", 0))
                run.count("transitions", r.get("transitions", 0))
                run.cmax("max_depth", r.get("depth", 0))
                run.count("traces_validated_against_impl", r.get("states", 0))
                if r.get("observations", 0) > 1:
                    run.count("programs_with_distinct_outcomes")
                if st == "ok" and not r.get("exhausted", True):
                    run.capped = True
            if st == "ok" and done % sample_every == 0:
                run.sample({"program": repr(r["prog"]), "states": r["states"], "transitions": r["transitions"]})
            if st == "violation":
                trace = r.get("trace")
                if trace is not None:
                    msg = replay_program(r["prog"], trace)
                    if msg is None:
                        run.tool_error(f"replay did not reproduce for {r['prog']!r}")
                        continue
                run.violation("prog/" + repr(r["prog"]), f"{r['prog']!r}: {r['what'][:300]} trace={trace}",
                              {"generator": "seqbody", "abstract_program": r["prog"], "cohdl_source": r.get("src"), "events": trace})
    acc = run.counters.get("programs_ok", 0) + run.counters.get("programs_violation", 0)
    if acc * 2 < len(progs):
        run.tool_error(f"vacuous: only {acc} of {len(progs)} programs accepted by the compiler")
    run.assume("vsim semantics (IEEE 1076 signal update / variable semantics); reference interpreter written from the property statement")
    run.coverage_extra.update(
        exhaustive=not run.capped,
        rule="every body of the grammar in verif/gen/seqbody.py up to the tier's size; per body the full reachable product state space "
             "under all 16 input valuations per clock",
        evaluations=run.counters.get("transitions", 0),
        distinct_nontrivial=run.counters.get("programs_with_distinct_outcomes", 0),
    )


def totuple(x):
    return tuple(totuple(y) for y in x) if isinstance(x, list) else x


def replay(run: Run, data):
    msg = replay_program(totuple(data["abstract_program"]), [tuple(e) for e in data["events"]])
    if msg is not None:
        print("reproduced:", msg)
        return False
    return True

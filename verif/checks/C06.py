"""C06  Every accepted design yields legal, well-typed, self-consistent VHDL.

Decided by vfront (verif/vhdl: parser + name resolution + overload resolution + static rules) on
 (a) the upstream reference corpus (177 designs compiled with the real compiler),
 (b) a bounded-exhaustive *name generator*: every assignment of names from a collision alphabet to
     k <= 2 (quick) / k <= 3 (thorough, reduced alphabet) of 6 declaration slots of a template design that
     uses every predefined name the backend relies on,
 (c) structural variants (entity without ports, process that reads nothing, ...),
 (d) the coroutine designs of C01's generator up to size 2 (expression/statement shapes).
Each vfront rule is a separate verdict; a violation is keyed by the minimal name assignment + rule.
"""
from __future__ import annotations

import itertools
import keyword
import os
import shutil
import sys
import tempfile

from ..cohdl_util import compile_source, compile_entity, reset_compiler_state
from ..core import Run, pmap, chunked, ToolError
from ..vhdl.elab import Design
from ..vhdl.parser import Unsupported, VhdlSyntaxError

LEVEL = "exploration"

TEMPLATE = '''
from cohdl import std, Entity, Port, Bit, BitVector, Unsigned, Signal, Variable, enum
import cohdl
class MyEnum(enum.Enum):
    {LIT} = enum.auto()
    lit_b = enum.auto()
class Sub(Entity):
    a = Port.input(Bit)
    y = Port.output(Bit)
    def architecture(self):
        @std.concurrent
        def logic():
            self.y <<= ~self.a
class T(Entity):
    clk = Port.input(Bit)
    {P} = Port.input(Unsigned[2])
    {Q} = Port.output(Unsigned[3], default=0)
    qb = Port.output(Bit, default=False)
    qs = Port.output(Bit)
    def architecture(self):
        s = Signal[Unsigned[2]](0, name={S!r})
        e = Signal[MyEnum](MyEnum.lit_b, name="sig_e")
        arr = Signal[cohdl.Array[BitVector[2], 4]](name="sig_arr")
        Sub(a=self.{P}[0], y=self.qs)
        @std.sequential(std.Clock(self.clk))
        def {PROC}():
            v = Variable[Unsigned[2]](0, name={V!r})
            v @= v + self.{P}
            s.next = v + 1
            arr[s] <<= self.{P}.bitvector
            if self.{P} == 2:
                e.next = MyEnum.{LIT}
            self.qb <<= (v < 2) and (e == MyEnum.{LIT})
            self.{Q} <<= (s.resize(3) << 1) + arr[v].unsigned
'''
NEUTRAL = dict(P="p_in", Q="q_out", S="sig_s", V="var_v", PROC="proc_p", LIT="lit_a")
SLOTS = ["P", "Q", "S", "V", "PROC", "LIT"]
IDENT_SLOTS = {"P", "Q", "PROC", "LIT"}  # must be Python identifiers

RESERVED_93 = ["signal", "process", "out", "begin", "entity", "port", "open", "others", "type", "variable", "buffer",
               "register", "label", "range", "select", "wait", "loop", "next", "exit", "file", "alias", "downto", "to",
               "of", "abs", "rem", "mod", "in", "is", "end", "map", "all", "bus", "new", "body", "block", "case"]
RESERVED_2008 = ["context", "default", "force", "parameter", "property", "sequence", "release", "protected", "assume",
                 "cover", "restrict", "strong", "fairness", "vmode", "vprop", "vunit"]
PREDEFINED = ["std_logic", "std_logic_vector", "unsigned", "signed", "boolean", "integer", "natural", "resize",
              "to_integer", "to_unsigned", "to_signed", "shift_left", "shift_right", "rising_edge", "falling_edge",
              "cohdl_bool_to_std_logic", "work", "ieee", "true", "false", "std", "numeric_std", "std_ulogic", "string",
              "severity_level", "bit", "character", "positive", "time", "real"]
CASEVAR = ["clk", "CLK", "Clk", "x", "X", "Qb", "QS"]
FABRICATED = ["temp", "temp1", "Temp", "buffer_q_out", "buffer_qb", "BUFFER_QS", "proc_p", "s_proc", "state_0", "comp_Sub",
              "comp_sub", "array_type", "arch_T", "arch_t", "arch_Sub", "Sub", "sub", "T", "t", "MyEnum", "myenum", "lit_b",
              "LIT_B", "sig_e", "sig_arr", "a", "y", "qb", "qs", "logic", "inp"]
UNDERSCORE = ["a__b", "_a", "a_", "__a__", "a___b", "_"]
SUFFIX = ["x1", "x2", "x3", "x4", "temp2", "temp3", "temp4", "temp8", "temp16"]
ODD = ["a b", "a-b", "1a", "\u00e9", "a.b", ""]
ALPHABET = RESERVED_93 + RESERVED_2008 + PREDEFINED + CASEVAR + FABRICATED + UNDERSCORE + SUFFIX + ODD
CORE = ["signal", "context", "rising_edge", "boolean", "to_integer", "work", "clk", "CLK", "temp", "Temp", "buffer_q_out",
        "proc_p", "array_type", "lit_b", "x", "X"]
TINY = ["signal", "rising_edge", "unsigned", "clk", "Temp", "temp", "temp1", "x", "X", "x1", "x2", "lit_b"]


def legal_for(slot, name):
    if slot in IDENT_SLOTS:
        return name.isidentifier() and not keyword.iskeyword(name) and name not in ("self", "clk", "qb", "qs") \
            and name.isascii()
    return True


def render(assign):
    d = dict(NEUTRAL)
    d.update(assign)
    return TEMPLATE.format(**d)


def analyse(src, entity="T"):
    """-> ('rejected', err) | ('syntax', msg) | ('findings', [(rule,msg)]) | ('unsupported', msg)"""
    res, _ = compile_source(src, entity)
    if not res.ok:
        return ("rejected", res.error)
    return analyse_vhdl(res.vhdl)


def analyse_vhdl(vhdl):
    try:
        d = Design(vhdl)
    except VhdlSyntaxError as e:
        return ("syntax", str(e))
    except Unsupported as e:
        return ("unsupported", str(e))
    f = [(x.rule, f"{x.entity}: {x.msg}") for x in d.findings]
    for m in d.multi_driven:
        f.append(("multi-driver", f"signal {m[0]} driven by {m[1]} and {m[2]}"))
    return ("findings", f)


def work_names(assigns):
    out = []
    for assign in assigns:
        a = dict(assign)
        try:
            out.append((assign, analyse(render(a))))
        except SyntaxError as e:
            out.append((assign, ("rejected", f"python syntax: {e}")))
    return out


def name_assignments(k, alphabet):
    for slots in itertools.combinations(SLOTS, k):
        pools = [[n for n in alphabet if legal_for(s, n)] for s in slots]
        for names in itertools.product(*pools):
            yield tuple(zip(slots, names))


def key_of(assign, rule):
    return "names/" + ",".join(f"{s}={n}" for s, n in assign) + "/" + rule


# ---------------------------------------------------------------------------
# structural variants (c)
# ---------------------------------------------------------------------------
HDR = "from cohdl import std, Entity, Port, Bit, BitVector, Unsigned, Signed, Signal, Variable, enum\nimport cohdl\n"
STRUCT = {
    "entity-without-ports": HDR + '''
class T(Entity):
    def architecture(self):
        s = Signal[Bit](False)
        @std.concurrent
        def logic():
            s.next = ~s
''',
    "sequential-reading-nothing": HDR + '''
class T(Entity):
    clk = Port.input(Bit)
    q = Port.output(Bit, default=False)
    def architecture(self):
        @std.sequential
        def proc():
            self.q <<= True
''',
    "sequential-no-clock-reads-inputs": HDR + '''
class T(Entity):
    a = Port.input(Bit)
    b = Port.input(Unsigned[2])
    q = Port.output(Unsigned[2], default=0)
    def architecture(self):
        @std.sequential
        def proc():
            if self.a:
                self.q <<= self.b
            else:
                self.q <<= self.b + 1
''',
    "both-edges-clock": HDR + '''
class T(Entity):
    clk = Port.input(Bit)
    a = Port.input(Bit)
    q = Port.output(Bit, default=False)
    def architecture(self):
        @std.sequential(std.Clock(self.clk, active_edge=std.Clock.Edge.BOTH))
        def proc():
            self.q <<= self.a
''',
    "falling-edge-clock-async-reset": HDR + '''
class T(Entity):
    clk = Port.input(Bit)
    rst = Port.input(Bit)
    a = Port.input(Bit)
    q = Port.output(Bit, default=False)
    def architecture(self):
        @std.sequential(std.Clock(self.clk, active_edge=std.Clock.Edge.FALLING), std.Reset(self.rst, is_async=True))
        def proc():
            self.q <<= self.a
''',
    "match-enum-and-int": HDR + '''
class E(enum.Enum):
    a = enum.auto()
    b = enum.auto()
    c = enum.auto()
class T(Entity):
    clk = Port.input(Bit)
    i = Port.input(Unsigned[2])
    q = Port.output(Unsigned[2], default=0)
    def architecture(self):
        e = Signal[E](E.a)
        @std.sequential(std.Clock(self.clk))
        def proc():
            match self.i:
                case 0:
                    e.next = E.b
                case 1:
                    e.next = E.c
                case _:
                    e.next = E.a
            match e:
                case E.a:
                    self.q <<= 1
                case E.b:
                    self.q <<= 2
''',
    "select-with-concat-selector": HDR + '''
class T(Entity):
    a = Port.input(Bit)
    b = Port.input(Bit)
    q = Port.output(Unsigned[2], default=0)
    def architecture(self):
        @std.concurrent
        def logic():
            self.q <<= cohdl.select_with(self.a @ self.b, {"00": Unsigned[2](1), "01": Unsigned[2](2)}, default=Unsigned[2](3))
''',
    "inout-port": HDR + '''
class T(Entity):
    a = Port.input(Bit)
    io = Port.inout(Bit)
    q = Port.output(Bit)
    def architecture(self):
        @std.concurrent
        def logic():
            self.q <<= self.io
''',
    "output-read-back": HDR + '''
class T(Entity):
    clk = Port.input(Bit)
    q = Port.output(Unsigned[2], default=0)
    r = Port.output(Unsigned[2], default=0)
    def architecture(self):
        @std.sequential(std.Clock(self.clk))
        def proc():
            self.q <<= self.q + 1
        @std.concurrent
        def logic():
            self.r <<= self.q
''',
    "integer-and-bool-ports": HDR + '''
class T(Entity):
    a = Port.input(int)
    b = Port.input(bool)
    q = Port.output(int)
    r = Port.output(bool)
    def architecture(self):
        @std.concurrent
        def logic():
            self.q <<= self.a + 1
            self.r <<= not self.b
''',
    "negative-int-operand": HDR + '''
class T(Entity):
    a = Port.input(Signed[3])
    q = Port.output(Signed[3])
    def architecture(self):
        @std.concurrent
        def logic():
            self.q <<= self.a + (-1)
''',
    "reference-built-outside-process": HDR + '''
class T(Entity):
    sel = Port.input(Unsigned[2])
    inv = Port.input(Bit)
    data = Port.input(BitVector[4])
    arr_sel = Port.input(Unsigned[1])
    q = Port.output(Bit, default=False)
    r = Port.output(BitVector[2], default="00")
    def architecture(self):
        mem = Signal[cohdl.Array[BitVector[2], 2]](name="mem")
        current = self.data[self.sel]
        elem = mem[self.arr_sel]
        @std.concurrent
        def fill():
            mem[0] <<= self.data[1:0]
            mem[1] <<= self.data[3:2]
        @std.sequential
        def comb():
            self.q <<= current ^ self.inv
            self.r <<= elem
''',
    "parent-output-feeds-child-input": HDR + '''
class Sub(Entity):
    a = Port.input(Bit)
    y = Port.output(Bit)
    def architecture(self):
        @std.concurrent
        def logic():
            self.y <<= ~self.a
class T(Entity):
    a = Port.input(Bit)
    hit = Port.output(Bit)
    seen = Port.output(Bit)
    def architecture(self):
        Sub(a=self.a, y=self.hit)
        Sub(a=self.hit, y=self.seen)
''',
    "same-template-twice": HDR + '''
class Sub(Entity):
    a = Port.input(Bit)
    y = Port.output(Bit)
    def architecture(self):
        @std.concurrent
        def logic():
            self.y <<= ~self.a
class T(Entity):
    a = Port.input(BitVector[2])
    y = Port.output(BitVector[2])
    def architecture(self):
        Sub(a=self.a[0], y=self.y[0])
        Sub(a=self.a[1], y=self.y[1])
''',
    "runtime-integer-to-views": HDR + '''
class T(Entity):
    clk = Port.input(Bit)
    s8 = Port.input(Signed[4])
    o_u = Port.output(Unsigned[4])
    o_s = Port.output(Signed[4])
    o_bv_as_u = Port.output(BitVector[4])
    o_bv_as_s = Port.output(BitVector[4])
    o_s_as_u = Port.output(Signed[4])
    o_u_as_s = Port.output(Unsigned[4])
    o_reg = Port.output(Unsigned[4])
    o_regs = Port.output(Signed[4])
    def architecture(self):
        i = Signal[int](0, name="i")
        reg = Signal[Unsigned[4]](0, name="reg")
        regs = Signal[Signed[4]](0, name="regs")
        @std.concurrent
        def logic():
            i.next = self.s8
            self.o_u <<= i
            self.o_s <<= i
            self.o_bv_as_u.unsigned <<= i
            self.o_bv_as_s.signed <<= i
            self.o_s_as_u.unsigned <<= i
            self.o_u_as_s.signed <<= i
            self.o_reg <<= reg
            self.o_regs <<= regs
        @std.sequential(std.Clock(self.clk))
        def proc():
            reg.signed <<= i
            regs.unsigned <<= i
''',
    "arch-name-attribute": HDR + "".join(f'''
class Leaf{k}(Entity, attributes={{"arch_name": "{an}"}}):
    a = Port.input(Bit)
    y = Port.output(Bit)
    def architecture(self):
        @std.concurrent
        def logic():
            self.y <<= ~self.a
''' for k, an in enumerate(["rtl", "signal", "a", "work", "y", "Leaf0", "RTL"])) + '''
class T(Entity):
    a = Port.input(Bit)
    y0 = Port.output(Bit)
    y1 = Port.output(Bit)
    y2 = Port.output(Bit)
    y3 = Port.output(Bit)
    y4 = Port.output(Bit)
    y5 = Port.output(Bit)
    y6 = Port.output(Bit)
    def architecture(self):
        outs = [self.y0, self.y1, self.y2, self.y3, self.y4, self.y5, self.y6]
        for k, L in enumerate([Leaf0, Leaf1, Leaf2, Leaf3, Leaf4, Leaf5, Leaf6]):
            L(a=self.a, y=outs[k])
''',
    "array-typed-port": HDR.replace("enum", "enum, Array") + '''
class T(Entity):
    pa = Port.input(Array[BitVector[2], 3])
    o = Port.output(BitVector[6])
    def architecture(self):
        @std.concurrent
        def logic():
            self.o <<= std.to_bits(self.pa)
''',
    "enum-typed-port": HDR + '''
class E2(enum.Enum):
    a = enum.auto()
    b = enum.auto()
class T(Entity):
    pe = Port.input(E2)
    o = Port.output(Bit)
    def architecture(self):
        @std.concurrent
        def logic():
            self.o <<= self.pe == E2.a
''',
    "multiline-comment-and-assert-message": HDR + '''
class T(Entity):
    clk = Port.input(Bit)
    a = Port.input(Bit)
    y = Port.output(Bit)
    z = Port.output(Bit, default=False)
    def architecture(self):
        @std.concurrent(comment="first line\\nsecond line\\n\\nfourth line")
        def logic():
            self.y <<= self.a
        @std.sequential(std.Clock(self.clk), comment="a\\nb")
        def proc():
            assert self.a, 'value "a" must be set'
            assert self.a, "two\\nlines"
            self.z <<= self.a
''',
    "integer-bitwise-operators": HDR + '''
class T(Entity):
    d = Port.input(Unsigned[3])
    y = Port.output(Unsigned[3])
    def architecture(self):
        j = Signal[int](0, name="j")
        k = Signal[int](0, name="k")
        @std.concurrent
        def logic():
            j.next = self.d
            k.next = (j & 3) | (j ^ 5)
            self.y <<= k
''',
    "always-result-bits-and-slices": HDR + '''
class T(Entity):
    clk = Port.input(Bit)
    a = Port.input(Unsigned[8])
    b = Port.input(Unsigned[8])
    m = Port.input(BitVector[8])
    full = Port.output(Unsigned[8])
    low = Port.output(Unsigned[4])
    msb = Port.output(Bit)
    inc = Port.output(Unsigned[4])
    par = Port.output(Bit)
    def architecture(self):
        @std.sequential(std.Clock(self.clk))
        def proc():
            total = cohdl.always(self.a + self.b)
            self.full <<= total
            self.low <<= total[3:0].unsigned
            self.msb <<= total[7]
            self.inc <<= cohdl.always((self.a - self.b)[7:4].unsigned + 1)
            masked = cohdl.always(self.m & self.a.bitvector)
            if masked[0] ^ masked[7]:
                self.par <<= masked[3]
''',
    "always-result-slice-as-bitvector": HDR + '''
class T(Entity):
    clk = Port.input(Bit)
    a = Port.input(Unsigned[4])
    b = Port.input(Unsigned[4])
    mid = Port.output(BitVector[2])
    top = Port.output(Bit)
    def architecture(self):
        @std.sequential(std.Clock(self.clk))
        def proc():
            total = cohdl.always(self.a + self.b)
            self.mid <<= total[2:1]
            self.top <<= total[3] | total[0]
''',
    "entity-named-like-reserved-word": HDR + '''
class Buffer(Entity):
    a = Port.input(Bit)
    y = Port.output(Bit)
    def architecture(self):
        @std.concurrent
        def logic():
            self.y <<= self.a
class T(Entity):
    a = Port.input(Bit)
    y = Port.output(Bit)
    def architecture(self):
        Buffer(a=self.a, y=self.y)
''',
    "portless-entity-instantiated": HDR + '''
class Leaf(Entity):
    def architecture(self):
        s = Signal[Bit](False)
        @std.concurrent
        def logic():
            s.next = ~s
class T(Entity):
    a = Port.input(Bit)
    y = Port.output(Bit)
    def architecture(self):
        Leaf()
        Leaf()
        @std.concurrent
        def logic():
            self.y <<= self.a
''',
    "inout-port-actuals": HDR + '''
class LeafIo(Entity):
    d = Port.input(Bit)
    io = Port.inout(Bit)
    iov = Port.inout(Unsigned[2])
    ios = Port.inout(Signed[2])
    q = Port.output(Unsigned[2])
    r = Port.output(Bit)
    def architecture(self):
        @std.concurrent
        def logic():
            self.q <<= self.iov + self.ios.unsigned
            self.r <<= self.d ^ self.io
class T(Entity):
    d = Port.input(Bit)
    io = Port.inout(Bit)
    iov = Port.inout(BitVector[2])
    iow = Port.inout(BitVector[4])
    q = Port.output(Unsigned[2])
    r = Port.output(Bit)
    def architecture(self):
        LeafIo(d=self.d, io=self.io, iov=self.iov.unsigned, ios=self.iow[2:1].signed, q=self.q, r=self.r)
''',
    "extern-entity-other-library": HDR + '''
class Ext(Entity, extern=True, attributes={"path": "mylib"}):
    a = Port.input(Bit)
    y = Port.output(Bit)
class Ext2(Entity, extern=True, attributes={"path": "otherlib"}):
    a = Port.input(Bit)
    y = Port.output(Bit)
class Gen(Entity, attributes={"path": "iplib"}):
    a = Port.input(Bit)
    y = Port.output(Bit)
    def architecture(self):
        @std.concurrent
        def logic():
            self.y <<= ~self.a
class T(Entity):
    a = Port.input(Bit)
    y = Port.output(Bit)
    z = Port.output(Bit)
    w = Port.output(Bit)
    def architecture(self):
        Ext(a=self.a, y=self.y)
        Ext2(a=self.a, y=self.z)
        # an entity of the design itself that is compiled into another library
        Gen(a=self.a, y=self.w)
''',
    "match-duplicate-patterns": HDR + '''
class T(Entity):
    x = Port.input(Unsigned[2])
    b = Port.input(BitVector[2])
    o = Port.output(Unsigned[2])
    p = Port.output(Unsigned[2])
    def architecture(self):
        @std.sequential
        def proc():
            match self.x:
                case 0:
                    self.o <<= 1
                case 1:
                    self.o <<= 2
                case 0:
                    self.o <<= 3
                case _:
                    self.o <<= 0
            match self.b:
                case "01":
                    self.p <<= 1
                case "01":
                    self.p <<= 2
                case _:
                    self.p <<= 0
''',
    "select-duplicate-keys": HDR + '''
class T(Entity):
    b = Port.input(BitVector[2])
    o = Port.output(Unsigned[2])
    p = Port.output(Unsigned[2])
    def architecture(self):
        @std.concurrent
        def logic():
            self.o <<= cohdl.select_with(self.b, {"00": Unsigned[2](1), BitVector[2]("00"): Unsigned[2](2), "11": Unsigned[2](3)}, default=Unsigned[2](0))
        @std.sequential
        def proc():
            self.p <<= cohdl.select_with(self.b, {"00": Unsigned[2](1), BitVector[2]("00"): Unsigned[2](2), "11": Unsigned[2](3)}, default=Unsigned[2](0))
''',
    "array-element-selector": HDR.replace("enum", "enum, Array") + '''
class T(Entity):
    i = Port.input(Unsigned[1])
    d = Port.input(Unsigned[2])
    o = Port.output(Unsigned[2])
    p = Port.output(Unsigned[2])
    q = Port.output(Signed[2])
    def architecture(self):
        arr = Signal[Array[Unsigned[2], 2]](name="arr")
        ars = Signal[Array[Signed[2], 2]](name="ars")
        @std.concurrent
        def logic():
            arr[0] <<= self.d
            arr[1] <<= self.d + 1
            ars[0] <<= self.d.signed
            ars[1] <<= self.d.signed
            self.o <<= cohdl.select_with(arr[1], {0: Unsigned[2](1), 1: Unsigned[2](2)}, default=Unsigned[2](0))
        @std.sequential
        def proc():
            match arr[self.i]:
                case 0:
                    self.p <<= 1
                case 3:
                    self.p <<= 2
                case _:
                    self.p <<= 0
            match ars[0]:
                case -1:
                    self.q <<= 1
                case _:
                    self.q <<= 0
''',
}


def select_family():
    """select_with / match over every selector type x default or not x context x choice coverage"""
    out = {}
    SEL = {
        "bit": ("Bit", ["False", "True"], "self.sb"),
        "bv2": ("BitVector[2]", ['"00"', '"01"', '"10"', '"11"'], "self.sv"),
        "u2": ("Unsigned[2]", ["0", "1", "2", "3"], "self.su"),
        "s2": ("Signed[2]", ["0", "1", "-1", "-2"], "self.ss"),
        "bvslice": ("BitVector[2]", ['"00"', '"01"', '"10"', '"11"'], "self.w[2:1]"),
        "ubit": ("Bit", ["False", "True"], "self.su[1]"),
        "enum": ("E", ["E.a", "E.b", "E.c"], "se"),
    }
    for sname, (ty, keys, expr) in SEL.items():
        for cover in ("partial", "full"):
            ks = keys[:2] if cover == "partial" else keys
            if cover == "partial" and len(keys) == 2:
                ks = keys[:1]
            for dflt in (True, False):
                for ctx in ("conc", "seq"):
                    d = "{" + ", ".join(f"{k}: Unsigned[2]({i})" for i, k in enumerate(ks)) + "}"
                    call = f"cohdl.select_with({expr}, {d}" + (", default=Unsigned[2](3))" if dflt else ")")
                    pre = "        se = Signal[E](E.a, name='se')\n        @std.sequential(std.Clock(self.clk))\n        def drv():\n            if self.sb:\n                se.next = E.b\n            else:\n                se.next = E.c\n" if sname == "enum" else ""
                    deco = "@std.concurrent" if ctx == "conc" else "@std.sequential(std.Clock(self.clk))"
                    src = HDR + f'''
class E(enum.Enum):
    a = enum.auto()
    b = enum.auto()
    c = enum.auto()
class T(Entity):
    clk = Port.input(Bit)
    sb = Port.input(Bit)
    sv = Port.input(BitVector[2])
    su = Port.input(Unsigned[2])
    ss = Port.input(Signed[2])
    w = Port.input(BitVector[4])
    o = Port.output(Unsigned[2])
    def architecture(self):
{pre}        {deco}
        def logic():
            self.o <<= {call}
'''
                    out[f"select/{sname}/{cover}/{'default' if dflt else 'nodefault'}/{ctx}"] = src
    return out

STRUCT.update(select_family())


def work_struct(name):
    return (name, analyse(STRUCT[name]))


# ---------------------------------------------------------------------------
# corpus (a)
# ---------------------------------------------------------------------------
def corpus_modules():
    root = "/repo/tests/reference_builds"
    out = []
    for dp, dn, fn in os.walk(root):
        dn.sort()
        for f in sorted(fn):
            if f.startswith("test_") and f.endswith(".py"):
                out.append(os.path.relpath(os.path.join(dp, f), "/repo/tests")[:-3].replace("/", "."))
    return out


def work_corpus(mod):
    import importlib
    import cohdl
    from ..cocoshim import install

    install()
    try:
        m = importlib.import_module(mod)
    except BaseException as e:  # noqa
        return (mod, ("import-error", f"{type(e).__name__}: {e}"))
    ents = [v for k, v in vars(m).items() if isinstance(v, type) and issubclass(v, cohdl.Entity)
            and v.__module__ == m.__name__ and k.startswith("test_")]
    if not ents:
        ents = [v for k, v in vars(m).items() if isinstance(v, type) and issubclass(v, cohdl.Entity) and v.__module__ == m.__name__]
    if not ents:
        return (mod, ("no-entity", ""))
    res = compile_entity(ents[-1])
    if not res.ok:
        return (mod, ("rejected", res.error))
    return (mod, analyse_vhdl(res.vhdl))


def work_coro(progs):
    from ..gen.coro import render as crender

    out = []
    for p in progs:
        src, _ = crender(p)
        out.append((repr(p), analyse(src)))
    return out


def todir_check(run):
    """files written by to_dir: one per entity, dependencies first, same text as to_string"""
    from cohdl import std
    from ..cohdl_util import load_module, unload_module

    mod = load_module(render({}))
    d = tempfile.mkdtemp(prefix="verif_c06_")
    try:
        files = std.VhdlCompiler.to_dir(mod.T, d)
        names = [os.path.basename(f) for f in files]
        texts = [open(f).read() for f in files]
        run.count("todir_files", len(files))
        if names != ["Sub.vhd", "T.vhd"]:
            run.violation("todir/order", f"to_dir file list {names}, expected sub-entity first: ['Sub.vhd','T.vhd']")
        st, f = analyse_vhdl("\n".join(texts))
        if st != "findings" or f:
            run.violation("todir/content", f"concatenated to_dir files are not clean VHDL: {st} {f[:2]}")
    finally:
        shutil.rmtree(d, True)
        unload_module(mod)


def report(run, kind, ident, result, src=None):
    st, payload = result
    run.count(f"{kind}_{st if st != 'findings' or payload else 'clean'}")
    if st == "unsupported":
        run.tool_error(f"{kind} {ident}: vfront does not support: {payload}")
    elif st == "syntax":
        run.violation(f"{kind}/{ident}/syntax", f"{kind} {ident}: emitted VHDL is not legal: {payload}", {"cohdl_source": src, "kind": kind, "ident": ident})
    elif st == "findings":
        for rule in sorted({r for r, _ in payload}):
            msg = next(m for r, m in payload if r == rule)
            run.violation(f"{kind}/{ident}/{rule}", f"{kind} {ident}: [{rule}] {msg}", {"cohdl_source": src, "kind": kind, "ident": ident})


def main(run: Run):
    only = getattr(run, "only", None)
    # (a) corpus
    if not only or "corpus" in only:
        mods = corpus_modules()
        for kind, res in pmap(work_corpus, mods):
            if kind != "ok":
                run.tool_error(f"corpus worker: {res[-400:]}")
                continue
            mod, result = res
            run.count("corpus_designs")
            if result[0] in ("import-error", "no-entity", "rejected"):
                run.count("corpus_skipped")
                continue
            report(run, "corpus", mod, result)
        if run.counters.get("corpus_designs", 0) - run.counters.get("corpus_skipped", 0) < 150:
            run.tool_error("vacuous: fewer than 150 corpus designs analysed")
    # (c) structural variants
    if not only or "struct" in only:
        for kind, res in pmap(work_struct, sorted(STRUCT)):
            if kind != "ok":
                run.tool_error(f"struct worker: {res[-400:]}")
                continue
            name, result = res
            report(run, "struct", name, result, STRUCT[name])
        todir_check(run)
    # (d) coroutine designs (statement / expression shapes)
    if not only or "coro" in only:
        from ..gen import coro

        progs = [p for s in ((1, 2, 3) if run.thorough else (1, 2)) for p in coro.programs(s)]
        for kind, res in pmap(work_coro, list(chunked(progs, 40))):
            if kind != "ok":
                run.tool_error(f"coro worker: {res[-400:]}")
                continue
            for ident, result in res:
                report(run, "coro", ident, result)
    # (b) names
    if not only or "names" in only:
        single_fail = {}  # (slot, name) -> set(rules)
        singles = list(name_assignments(1, ALPHABET))
        run.count("name_designs", len(singles))
        for kind, res in pmap(work_names, list(chunked(singles, 20))):
            if kind != "ok":
                run.tool_error(f"names worker: {res[-400:]}")
                continue
            for assign, result in res:
                rules = rules_of(result)
                single_fail[assign[0]] = rules
                tally(run, result)
                emit_names(run, assign, result, set())
        neutral = analyse(render({}))
        if neutral != ("findings", []):
            run.tool_error(f"neutral template design is not clean: {neutral}")
        pair_alpha = ALPHABET if run.thorough else CORE
        multi = list(name_assignments(2, pair_alpha))
        if run.thorough:
            multi += list(name_assignments(3, TINY))
        else:
            # seed-chosen extra stratum beyond the complete bound: 400 pairs over the full alphabet
            sp = list(itertools.combinations(SLOTS, 2))[run.seed % 15]
            extra = [tuple(zip(sp, ns)) for ns in itertools.product(*[[n for n in ALPHABET if legal_for(s, n)] for s in sp])]
            seen = set(multi)
            extra = [a for a in extra if a not in seen]
            run.rng.shuffle(extra)
            multi += extra[:400]
        run.count("name_designs", len(multi))
        for kind, res in pmap(work_names, list(chunked(multi, 40))):
            if kind != "ok":
                run.tool_error(f"names worker: {res[-400:]}")
                continue
            for assign, result in res:
                sub = set()
                for sn in assign:
                    sub |= single_fail.get(sn, set())
                tally(run, result)
                emit_names(run, assign, result, sub)
        acc = run.counters.get("names_accepted", 0)
        if acc * 3 < run.counters.get("name_designs", 1):
            run.tool_error(f"vacuous: only {acc} name designs accepted by the compiler")
    run.assume("legality is decided by vfront: LRM-2008 subset rules (lexical, declarations/homographs, visibility incl. hiding of "
               "use-visible names, overload resolution with numeric_std/std_logic_1164 signatures, static widths, port modes, "
               "case choices, sensitivity lists); validated on the upstream corpus that ghdl accepted")
    total = sum(v for k, v in run.counters.items() if k.endswith("_designs"))
    run.coverage_extra.update(
        evaluations=total + run.counters.get("coro_clean", 0),
        distinct_nontrivial=run.counters.get("names_accepted", 0) + run.counters.get("corpus_clean", 0),
        exhaustive=True,
        rule="corpus: every upstream reference design; names: every assignment of alphabet names to <=2 of 6 declaration slots "
             "(quick: pairs over the 16-name core + 400 seed-chosen pairs over the full alphabet; thorough: all pairs over the "
             "full alphabet + triples over a 12-name core); non-trivial = accepted by the compiler and analysed by vfront",
    )
    run.sample({"names": "P=signal", "template": "verif/checks/C06.py TEMPLATE"})
    run.sample({"alphabet_size": len(ALPHABET), "slots": SLOTS})


def rules_of(result):
    st, payload = result
    if st == "syntax":
        return {"syntax"}
    if st == "findings":
        return {r for r, _ in payload}
    return set()


def tally(run, result):
    st = result[0]
    if st == "rejected":
        run.count("names_rejected")
    elif st == "unsupported":
        run.count("names_unsupported")
    else:
        run.count("names_accepted")


def emit_names(run, assign, result, subsumed):
    st, payload = result
    src = None
    if st == "unsupported":
        run.tool_error(f"names {assign}: vfront does not support: {payload}")
        return
    if st == "syntax":
        if "syntax" not in subsumed:
            run.violation(key_of(assign, "syntax"), f"names {dict(assign)}: emitted VHDL is not legal: {payload}",
                          {"kind": "names", "assign": list(assign)})
        return
    if st == "findings":
        for rule in sorted({r for r, _ in payload} - subsumed):
            msg = next(m for r, m in payload if r == rule)
            run.violation(key_of(assign, rule), f"names {dict(assign)}: [{rule}] {msg}", {"kind": "names", "assign": list(assign)})


def replay(run: Run, data):
    kind = data.get("kind")
    if kind == "names":
        assign = tuple(tuple(x) for x in data["assign"])
        result = analyse(render(dict(assign)))
    elif kind == "struct":
        result = analyse(STRUCT[data["ident"]])
    elif kind == "corpus":
        result = work_corpus(data["ident"])[1]
    else:
        return True
    print(result)
    return not (result[0] == "syntax" or (result[0] == "findings" and result[1]))

"""C13  Parametrised types are canonical and form the documented subtype lattice; views alias their root.

Part 1 (types)   explicit enumeration of ALL ORDERS OF FIRST USE of every set of <= 3 (quick) / <= 3 over a
                 larger alphabet and <= 4 inside clusters (thorough) type expressions, each order started from
                 the import-time contents of the eight `_SubTypes` caches (restored between orders; the
                 equivalence "restored dictionaries == fresh process" is itself checked against forked
                 children for every single expression and a grid of ordered pairs).  After every prefix the
                 full invariant is evaluated on everything that exists in the caches.
                 Restore, not fork-per-order: the eight dictionaries are the only place cohdl keeps the created
                 classes (no other registry, `__subclasses__` is never consulted, nothing is created at import:
                 all eight are empty), the classes' bases are other cached classes or import-time classes, and
                 this part runs before any compilation, so no compiler-side cache can hold a dropped class.
                 (A fork costs 0.15 s here; 3.5 million orders are only feasible in-process.)
Part 2 (pyview)  every view chain on an object of each qualifier kind, Python level: root/qualifier preserved,
                 storage shared (Bit identity through the public API), read-through and write-through by value
                 with every write API usable outside synthesizable contexts.
Part 3 (emit)    one compiled wrapper entity per (qualifier kind, chain, terminal, read|write); simulated with
                 vsim for every input value and compared with the independently computed bit positions.
"""
from __future__ import annotations

import time

from ..core import Run, pmap, chunked
from ..gen import c13_types as T
from ..gen import c13_views as V
from ..gen import c13_alias as A

LEVEL = "exploration"

# ---------------------------------------------------------------------------------------------------
# part 1: alphabets per tier
# ---------------------------------------------------------------------------------------------------
_ARR3 = [("Bit",), ("BV", "D", 2), ("U", "D", 2)]
SPECS = {
    # name: (alphabet kwargs, depth)
    # quick: Q x {BitVector, Unsigned, Signed}[1..4] + bare families + Bit/bool/int ...
    "q3": (dict(widths=(1, 2, 3, 4), arr_elems=[], arr_counts=(), upto_widths=()), 3),
    # ... arrays and ascending ranges together with the width-2 vectors they are built from
    "qarr": (dict(widths=(2,), arr_elems=_ARR3, arr_counts=(1, 2), upto_widths=(2,), bare=False,
                  qkinds=[("Signal", None), ("Variable", None), ("Port", "IN"), ("Port", "OUT")]), 3),
    # every spelling of every width (K[n], K[n-1:0], K[0:n-1]) x every qualifier kind, all ordered pairs
    "qpairs": (dict(widths=(1, 2, 3, 4), arr_elems=_ARR3, arr_counts=(1, 2), upto_widths=(1, 2, 3, 4), slice_widths=(2, 3, 4)), 2),
    "tpairs": (dict(widths=(1, 2, 3, 4, 5, 6), arr_elems=_ARR3, arr_counts=(1, 2), upto_widths=(1, 2, 3, 4, 5, 6),
                    slice_widths=(2, 3, 4, 5, 6)), 2),
    # canonicity: every OPERATION that yields "K of width n, downto" (casts, slices, msb/lsb, concatenation, operators,
    # resize, copy, array elements; primitive and qualified) must return the very class K[n] / Q[K[n]] names, in any
    # order relative to the direct subscriptions and to each other (all ordered pairs)
    "qcanon": (dict(widths=(1, 2, 3, 4), arr_elems=[], arr_counts=(), upto_widths=(1,), bare=False, atoms=False,
                    producer_widths=(1, 2, 3, 4)), 2),
    "qroutes": (dict(widths=(2,), arr_elems=[], arr_counts=(), upto_widths=(), route_widths=(2,),
                     qkinds=[("Signal", None), ("Temporary", None), ("Port", "IN"), ("Port", "OUT")]), 3),
    "t3": (dict(widths=(1, 2, 3, 4, 5, 6), arr_elems=_ARR3 + [("S", "D", 3)], arr_counts=(2, 3), upto_widths=(3,)), 3),
    "t4mix": (dict(widths=(1, 2, 3), arr_elems=[], arr_counts=(), upto_widths=(), bare=False, atoms=False,
                   qkinds=[("Signal", None), ("Port", "IN"), ("Variable", None)]), 4),
    "t4arr": (dict(widths=(2,), arr_elems=_ARR3, arr_counts=(1, 2), upto_widths=(), bare=False,
                   qkinds=[("Signal", None), ("Port", "OUT"), ("Variable", None)]), 4),
    "troutes": (dict(widths=(1, 2), arr_elems=[], arr_counts=(), upto_widths=(), route_widths=(1, 2), slice_widths=(2,),
                     qkinds=[("Signal", None), ("Variable", None), ("Temporary", None), ("Port", "IN"), ("Port", "INOUT")]), 3),
}
for _n in range(1, 7):
    SPECS[f"t4w{_n}"] = (dict(widths=(_n,), arr_elems=[], arr_counts=(), upto_widths=(), atoms=False), 4)

QUICK_SPECS = ["q3", "qarr", "qroutes", "qpairs", "qcanon"]
THOROUGH_SPECS = ["t3", "troutes", "tpairs", "qcanon", "t4mix", "t4arr"] + [f"t4w{n}" for n in range(1, 7)]

_spec_cache = {}


def spec(name):
    """(alphabet, solo_ok, depth, crosscheck order keys) — deterministic, recomputed in every worker"""
    r = _spec_cache.get(name)
    if r is None:
        kw, depth = SPECS[name]
        alpha = T.alphabet(**kw)
        ex = T.Explorer(full_pairs_depth=1)
        root = ex.root_frame()
        solo = {}
        for e in alpha:
            T.restore_caches(root.caches)
            f, _ = ex.step(root, [e], e)
            solo[e] = f is not None
        T.restore_caches(root.caches)
        r = _spec_cache[name] = (alpha, solo, depth, crosscheck_orders(alpha, solo))
    return r


def crosscheck_orders(alpha, solo):
    """orders re-executed in forked children of the pristine main process (a fork costs ~0.15 s here, so
    this is a grid, not everything): every 8th expression alone, all ordered pairs of 5 spread expressions"""
    ok = [e for e in alpha if solo[e]]
    grid = ok[3:: max(1, len(ok) // 5)][:5]
    orders = [(e,) for e in ok[::8]]
    orders += [(a, b) for a in grid for b in grid if a != b]
    return orders


def report_grouped(run: Run, items, cap, counter):
    """items: (group, sort key, finding key, what, replay data).  One defect usually shows up in hundreds of
    enumerated cases; per group only the `cap` smallest cases that are not known findings are reported as
    violations (known findings are always matched), the rest is counted."""
    groups = {}
    for it in items:
        groups.setdefault(it[0], []).append(it)
    for g in sorted(groups, key=str):
        members = sorted(groups[g], key=lambda it: it[1])
        shown = 0
        for _, _, key, what, rp in members:
            if run._known_match(key) is not None:
                run.violation(key, what, rp)
            elif shown < cap:
                shown += 1
                run.violation(key, what + f"  [{len(members)} enumerated cases in group {g}]", rp)
            else:
                run.count(counter)


def okey(order):
    return ";".join(T.etext(e) for e in order)


def work_types(task):
    name, first = task
    alpha, solo, depth, orders = spec(name)
    ex = T.Explorer(full_pairs_depth=2)
    ex.want_sig = {okey(o) for o in orders}
    root = ex.root_frame()
    usable = [e for e in alpha if solo[e]]
    ex.explore(root, [usable[first]], usable, depth, solo)
    return {"spec": name, "facts": ex.facts, "counts": ex.counts, "sigs": ex.sigs, "max_present": ex.max_present,
            "descriptors": len(ex.U.descs)}


def part_types(run: Run):
    err = T.self_check_python_semantics()
    if err:
        run.tool_error(err)
        return
    pristine = all(len(o._SubTypes) == 0 for o in T.CACHE_OWNERS) and all(len(v) == 0 for v in T.IMPORT_SNAPSHOT.values())
    run.count("import_time_cache_entries", sum(len(v) for v in T.IMPORT_SNAPSHOT.values()))
    if not pristine:
        run.note("caches were not empty when the exploration started; the start state is the import-time snapshot")
    names = THOROUGH_SPECS if run.thorough else QUICK_SPECS
    facts = {}

    def merge(fs):
        for text, (order, n) in fs.items():
            cur = facts.get(text)
            order = [T.to_expr(e) for e in order]
            if cur is None:
                facts[text] = [order, n]
            else:
                cur[1] += n
                if (len(order), okey(order)) < (len(cur[0]), okey(cur[0])):
                    cur[0] = order

    expected_nodes = 0
    for name in names:
        alpha, solo, depth, orders = spec(name)
        usable = [e for e in alpha if solo[e]]
        n = len(usable)
        run.count("type_expressions", n)
        run.count("type_expressions_rejected_alone", len(alpha) - n)
        per = 1
        tot = 0
        for d in range(depth):
            per *= (n - d)
            tot += per
        expected_nodes += tot
        if name in ("q3", "qarr", "t3"):
            pick = usable[n // 2:: max(1, n // 7)][:3]
            run.sample({"order_of_first_use": [T.etext(e) for e in reversed(pick)], "alphabet": name,
                        "alphabet_size": n, "max_length": depth})
        # ground truth for the restore technique: the same orders in forked children of this (pristine) process
        fork_sigs = {}
        if name in ("q3", "t3", "troutes"):
            for o in orders:
                r = T.run_order_forked(list(o))
                if "error" in r:
                    run.tool_error(f"forked run of {okey(o)} failed: {r['error']}")
                    continue
                fork_sigs[okey(o)] = r["sig"]
                run.count("orders_cross_checked_in_forked_process")
                for text in r["facts"]:
                    merge({text: (list(o), 1)})
        got_sigs = {}
        for kind, res in pmap(work_types, [(name, i) for i in range(n)], seed=run.seed):
            if kind != "ok":
                run.tool_error(f"types worker failed: {res[-800:]}")
                continue
            merge(res["facts"])
            c = res["counts"]
            run.count("type_orders_explored", c["nodes"])
            run.count("type_classes_created", c["classes_created"])
            run.count("type_pairs_checked", c["pairs_checked"])
            run.count("type_pairs_checked_with_issubclass", c["pairs_issubclass_calls"])
            run.count("type_orders_last_step_cached", c["cache_hits"])
            run.count("type_orders_raised", c["raised"])
            run.count("type_open_pairs_checked_for_agreement", c.get("agreement_pairs", 0))
            run.cmax("max_classes_alive", res["max_present"])
            run.cmax("type_descriptors", res["descriptors"])
            got_sigs.update(res["sigs"])
        for k, s in fork_sigs.items():
            if k not in got_sigs:
                run.tool_error(f"order {k} not reached by the restore-mode exploration")
            elif got_sigs[k] != s:
                run.tool_error(f"restore-mode and forked-process structure differ for order {k}: restoring the caches is unsound")
    # every (spec, first) task explores 1 + (n-1) + (n-1)(n-2) + ... nodes
    # (a first use that raises only after other first uses is reported as a violation and prunes its subtree)
    if run.counters.get("type_orders_explored", 0) != expected_nodes and not run.tool_errors \
            and not run.counters.get("type_orders_raised", 0) and not facts:
        run.tool_error(f"type exploration incomplete: {run.counters.get('type_orders_explored', 0)} nodes, expected {expected_nodes}")
    import re

    report_grouped(run, [(re.sub(r"\d+", "#", text), (len(order), len(text), text), "types/" + text,
                          f"{text}  after first uses in the order [{okey(order)}] ({n} explored orders show it)",
                          {"part": "types", "order": order, "fact": text})
                         for text, (order, n) in facts.items()], 2, "type_facts_not_listed")
    run.count("type_facts_violated", len(facts))
    # outside the statement's alphabet (recorded, not judged): subscripting an already sized class
    try:
        from cohdl import Unsigned, Signal, BitVector

        T.restore_caches()
        a = Unsigned[4][3]
        odd = issubclass(Unsigned[3], Unsigned[4])
        T.restore_caches()
        b = Signal[BitVector[4]][BitVector[3]]
        odd2 = issubclass(Signal[BitVector[3]], Signal[BitVector[4]])
        T.restore_caches()
        if odd or odd2:
            run.note("not judged (expression outside the property's alphabet): Unsigned[4][3] as the FIRST use of width 3 registers a "
                     f"class based on Unsigned[4] as Unsigned[3] (issubclass(Unsigned[3], Unsigned[4]) = {odd}); same for "
                     f"Signal[BitVector[4]][BitVector[3]] = {odd2}")
    except Exception as e:  # noqa
        T.restore_caches()
        run.note(f"re-subscript probe: {type(e).__name__}: {e}")


# ---------------------------------------------------------------------------------------------------
# part 2: Python-level views
# ---------------------------------------------------------------------------------------------------
def work_pyview(task):
    q, kind, W, maxlen, extended, part, nparts = task
    q = tuple(q)
    env = V._imports()
    base = V.py_api_baseline(env, q, kind, W)
    apis = [a for a, v in base.items() if v is None]
    out = {"problems": [], "stats": {"py_chains": 0, "py_chains_nontrivial": 0, "py_reads": 0, "py_writes": 0,
                                     "py_api_rejected": 0, "py_chain_rejected": 0}, "baseline": base,
           "task": [list(q), kind, W], "part": part}
    patterns = write_backgrounds(W, extended)
    for n, (ch, m) in enumerate(V.chains(kind, W, maxlen, extended)):
        if n % nparts != part:
            continue
        terms = [None] + (list(range(len(m[1]))) if m[0] != "Bit" else [])
        for it in terms:
            pr, st = V.py_check_chain(env, q, kind, W, ch, it, apis, patterns)
            out["stats"]["py_chains"] += 1
            if pr is None:
                out["stats"]["py_chain_rejected"] += 1
                out.setdefault("rejected_example", [V.chain_text(ch), st.get("why")])
                continue
            if ch or it is not None:
                out["stats"]["py_chains_nontrivial"] += 1
            for k in ("py_reads", "py_writes", "py_api_rejected"):
                out["stats"][k] += st[k]
            for tag, text in pr:
                key = f"view/py/{V.qname(q)}/{kind}{W}/{V.chain_key(ch)}{'' if it is None else '/it%d' % it}/{tag}"
                out["problems"].append((key, f"{V.qname(q)}[{V.KIND_PY[kind]}[{W}]] root, view root{V.chain_text(ch)}"
                                             f"{'' if it is None else ' element %d of iteration' % it}: {text}",
                                        {"part": "pyview", "q": list(q), "kind": kind, "W": W, "chain": [list(o) for o in ch],
                                         "iter_elem": it, "tag": tag}))
    return out


def work_pystruct(task):
    """structure-only pass over deeper chains: root, qualifier, storage identity, _root + _ref_spec positions"""
    q, kind, W, maxlen, extended, part, nparts = task[:7]
    siblings = task[7] if len(task) > 7 else True
    q = tuple(q)
    env = V._imports()
    out = {"problems": [], "n": 0, "nontrivial": 0, "rejected": 0, "task": [list(q), kind, W]}
    for n, (ch, m) in enumerate(V.chains(kind, W, maxlen, extended)):
        if n % nparts != part or m[0] == "ARR":
            continue
        terms = [None] + (list(range(len(m[1]))) if m[0] != "Bit" else [])
        for it in terms:
            pr, err = V.py_check_structure(env, q, kind, W, ch, it, siblings)
            out["n"] += 1
            if pr is None:
                out["rejected"] += 1
                out.setdefault("rejected_example", [V.chain_text(ch), err])
                continue
            if len(ch) >= 2:
                out["nontrivial"] += 1
            for tag, text in pr:
                key = f"view/py/{V.qname(q)}/{kind}{W}/{V.chain_key(ch)}{'' if it is None else '/it%d' % it}/{tag}"
                out["problems"].append((key, f"{V.qname(q)}[{V.KIND_PY.get(kind, 'Array[BitVector[2],2]')}[{W}]] root, view root"
                                             f"{V.chain_text(ch)}{'' if it is None else ' element %d of iteration' % it}: {text}",
                                        {"part": "pystruct", "q": list(q), "kind": kind, "W": W, "chain": [list(o) for o in ch],
                                         "iter_elem": it, "tag": tag}))
    return out


def write_backgrounds(W, extended):
    """root values under which every value is written through the view: all-zeros and all-ones show every
    bit that is set or cleared outside / not set or cleared inside the view; thorough adds 0101 / 1010"""
    full = (1 << W) - 1
    return sorted({0, full, 0x55 & full, 0xAA & full}) if extended else [0, full]


def part_pyview(run: Run):
    tasks = []
    if run.thorough:
        for q in V.QKINDS:
            for kind in ("BV", "U", "S"):
                for W in (4, 5, 6):
                    tasks += [(q, kind, W, 2, True, i, 4) for i in range(4)]
                tasks += [(q, kind, W, 2, True, 0, 1) for W in (1, 2, 3)]
            tasks += [(q, "BV", 3, 3, True, i, 4) for i in range(4)]
    else:
        for q in V.QKINDS:
            for kind in ("BV", "U", "S"):
                tasks += [(q, kind, 4, 2, False, i, 4) for i in range(4)]
                tasks += [(q, kind, 1, 2, False, 0, 1), (q, kind, 2, 2, False, 0, 1)]
    problems = []
    for kind, res in pmap(work_pyview, tasks, seed=run.seed):
        if kind != "ok":
            run.tool_error(f"pyview worker failed: {res[-800:]}")
            continue
        run.merge_counts(res["stats"])
        q, knd, W = res["task"]
        for api, st in res["baseline"].items():
            if res["part"] == 0:
                run.count("py_write_apis_tried")
            if st is not None:
                # the write API does not even work on the root object: one finding per (qualifier, API)
                run.violation(f"view/py/{V.qname(tuple(q))}/api={api}/root",
                              f"{V.qname(tuple(q))}[..] object, write with '{api}' outside a synthesizable context: {st} "
                              f"(value not visible through the object itself, so not through any view either)",
                              {"part": "pyapi", "q": q, "kind": knd, "W": W, "api": api})
        for key, what, rp in res["problems"]:
            problems.append(((V.qname(tuple(q)), rp["tag"]), (W, len(rp["chain"]), rp["iter_elem"] is not None, key), key, what, rp))
        if "rejected_example" in res:
            run.note(f"pyview chain rejected: {res['rejected_example']}")
    # deeper chains, structure only (no writes): three stacked operations, array elements
    arr_q = [("Signal", None), ("Variable", None)]
    st = []
    for q in V.QKINDS:
        if run.thorough:
            st += [(q, k, 4, 3, True, i, 4) for k in ("BV", "U", "S") for i in range(4)]
            st += [(q, "BV", 5, 3, False, i, 4, False) for i in range(4)]  # (sibling pass: the W=4 families)
            st += [(q, k, W, 3, True, 0, 1) for k in ("BV", "U", "S") for W in (1, 2, 3)]
        else:
            st += [(q, "BV", 4, 3, False, i, 2) for i in range(2)]
            st += [(q, k, W, 3, False, 0, 1) for k in ("BV", "U", "S") for W in (1, 2)]
    for q in arr_q:
        st += [(q, "ARR", 4, 4, run.thorough, i, 2) for i in range(2)]
    for kind, res in pmap(work_pystruct, st, seed=run.seed):
        if kind != "ok":
            run.tool_error(f"pystruct worker failed: {res[-800:]}")
            continue
        run.count("py_struct_chains", res["n"])
        run.count("py_struct_chains_nontrivial", res["nontrivial"])
        run.count("py_struct_chain_rejected", res["rejected"])
        q, knd, W = res["task"]
        for key, what, rp in res["problems"]:
            problems.append(((V.qname(tuple(q)), rp["tag"]), (W, len(rp["chain"]), rp["iter_elem"] is not None, key), key, what, rp))
        if "rejected_example" in res:
            run.note(f"pystruct chain rejected: {res['rejected_example']}")
    report_grouped(run, problems, 3, "py_problems_not_listed")
    ns = run.counters.get("py_struct_chains", 0)
    if ns == 0 or (run.counters.get("py_struct_chain_rejected", 0) * 10 > ns and not run.violations):
        run.tool_error(f"pystruct vacuous: chains={ns} rejected={run.counters.get('py_struct_chain_rejected', 0)}")
    n = run.counters.get("py_chains", 0)
    if n == 0 or ((run.counters.get("py_chain_rejected", 0) * 10 > n or run.counters.get("py_writes", 0) < n)
                  and not run.violations):
        run.tool_error(f"pyview vacuous: chains={n} rejected={run.counters.get('py_chain_rejected', 0)} writes={run.counters.get('py_writes', 0)}")


# ---------------------------------------------------------------------------------------------------
# part 3: emitted designs
# ---------------------------------------------------------------------------------------------------
def emit_key(q, kind, W, chain, term, mode, r=None):
    """identity of the failing input.  Mismatches whose observed bit positions are exactly those obtained by
    honouring only the offsets of the last range operation (one known root cause with hundreds of instances)
    are grouped per (mode, qualifier kind); the smallest instance is reported.  Everything else is keyed by
    the individual chain."""
    if r is not None and r.get("observed") is not None:
        naive = V.naive_last_offset_model(V.root_model(kind, W), chain)
        if naive is not None and list(naive[1]) == list(r["observed"]):
            return f"view/emit/{mode}/{V.qname(q)}/{term}/{V.chain_class(chain)}/as-if-outer-offset-dropped", True
    return f"view/emit/{mode}/{V.qname(q)}/{kind}{W}/{term}/{V.chain_class(chain)}/{V.chain_key(chain)}", False


def work_emit(tasks):
    out = []
    for t in tasks:
        q, kind, W, chain, term, mode = t
        q = tuple(q)
        chain = tuple(tuple(o) for o in chain)
        try:
            r = V.check_emitted(q, kind, W, chain, term, mode)
        except Exception as e:  # noqa  (vsim could not parse/elaborate/simulate what the compiler emitted)
            r = {"status": "simfail", "error": f"{type(e).__name__}: {str(e)[:200]}"}
        r["task"] = t
        if r["status"] == "rejected" and term.startswith("conv:"):
            r["status"] = "conv_rejected"  # Signed -> Unsigned, Unsigned -> Signed of equal width: statically refused
        if r["status"] in ("mismatch", "static"):
            r["key"], r["grouped"] = emit_key(q, kind, W, chain, term, mode, r)
        r.pop("vhdl", None)
        if r["status"] == "ok":
            r.pop("src", None)
        out.append(r)
    return out


def emit_tasks(run: Run):
    arr_q = [("Signal", None), ("Variable", None)]
    typed_q = [("Signal", None), ("Variable", None), ("Port", "IN")]
    sib_q = typed_q + [("LSignal", None)]
    conv_q = [("Signal", None), ("Variable", None), ("Port", "OUT")]
    nr_q = [("Signal", None), ("Port", "OUT")]
    ALL = ("whole", "iter")
    TYPED = V.TYPED_TERMS  # uses of the view's type: deduced Variable, operator with an operand of the documented type
    # (root kind, root width, max chain length, extended operations, qualifier kinds, operation filter, terminals)
    fam = [("BV", 4, 2, False, V.QKINDS, None, ALL), ("ARR", 4, 2, False, arr_q, None, ALL),
           # three stacked plain subscripts x[a:b][c:d][e:f] / x[a:b][c:d][i], also inside an array element
           ("BV", 4, 3, False, arr_q, V.SUBSCRIPTS, ALL), ("ARR", 4, 4, False, arr_q, V.SUBSCRIPTS, ALL),
           # one-bit roots of every kind (K[1] vs K[0:0]) and typed uses of every view
           ("BV", 1, 2, False, V.QKINDS, None, ALL + TYPED), ("U", 1, 2, False, V.QKINDS, None, ALL + TYPED),
           ("S", 1, 2, False, V.QKINDS, None, ALL + TYPED), ("BV", 4, 2, False, typed_q, None, TYPED),
           # roots constructed inside the clocked body from a run-time value (multi-clock simulation, view vs whole object)
           ("BV", 4, 2, False, V.LOCAL_Q, None, ALL),
           # sibling views in ONE design (view, its three cast views, a second copy), both statement orders, concurrent/clocked
           ("BV", 4, 2, False, sib_q, None, V.SIB_TERMS),
           # assignment conversions THROUGH views: run-time Unsigned/Signed sources of every width <= the view's width written
           # through every Unsigned/Signed-typed view of roots of all three kinds (value preserving conversion to the VIEW's type)
           ("BV", 4, 2, False, conv_q, None, ("CONV",)), ("U", 4, 2, False, conv_q, None, ("CONV",)),
           ("S", 4, 2, False, conv_q, None, ("CONV",)),
           # root attributes seen through views: default + noreset=True|False, written only through the view, then reset
           ("BV", 4, 2, False, nr_q, None, V.NORESET_TERMS)]
    if run.thorough:
        fam = [("BV", 4, 2, False, V.QKINDS, None, ALL + TYPED), ("BV", 5, 2, False, V.QKINDS, None, ALL),
               ("BV", 6, 2, False, V.QKINDS, None, ALL),
               ("U", 4, 2, True, V.QKINDS, None, ALL), ("S", 4, 2, True, V.QKINDS, None, ALL),
               ("BV", 4, 3, False, arr_q, None, ALL), ("ARR", 4, 3, True, arr_q, None, ALL),
               ("BV", 5, 3, False, arr_q, V.SUBSCRIPTS, ALL), ("ARR", 4, 4, False, arr_q, V.SUBSCRIPTS, ALL)]
        for kind in ("BV", "U", "S"):
            fam += [(kind, 1, 2, True, V.QKINDS, None, ALL + TYPED), (kind, 2, 2, False, V.QKINDS, None, ALL + TYPED)]
            fam += [(kind, 4, 2, False, V.LOCAL_Q, None, ALL), (kind, 4, 2, False, sib_q, None, V.SIB_TERMS)]
        fam += [(kind, 4, 2, False, conv_q + [("Port", "INOUT")], None, ("CONV",)) for kind in ("BV", "U", "S")]
        fam += [("BV", 4, 2, False, nr_q, None, V.NORESET_TERMS), ("BV", 5, 2, False, nr_q, None, V.NORESET_TERMS),
                ("BV", 5, 2, False, conv_q, None, ("CONV",))]
        fam += [("BV", 5, 2, False, V.LOCAL_Q, None, ALL), ("BV", 5, 2, False, sib_q, None, V.SIB_TERMS),
                ("BV", 4, 3, False, V.LOCAL_Q + [("Signal", None)], V.SUBSCRIPTS, V.SIB_TERMS)]
    seen = set()
    for kind, W, maxlen, ext, qs, only, terms in fam:
        for ch, m in V.chains(kind, W, maxlen, ext, only):
            tt = []
            for term in terms:
                tt += V.conv_terms(len(m[1])) if term == "CONV" and m[0] in ("U", "S") and ch else ([] if term == "CONV" else [term])
            for term in tt:
                if term.endswith("iter") and m[0] == "Bit":
                    continue
                special = term.startswith("conv:") or term.startswith("nr")
                for q in qs:
                    if (kind, W, ch, term, q) in seen:
                        continue
                    seen.add((kind, W, ch, term, q))
                    for mode in ("read", "write"):
                        if special:
                            if mode == "write":
                                yield (q, kind, W, ch, term, mode)
                            continue
                        if mode == "write" and ((q not in V.WRITABLE and q != ("LVariable", None)) or term in TYPED
                                                or term in V.SIB_TERMS):
                            continue
                        if term in V.SIB_TERMS and (m[0] == "Bit" or (q[0] == "LSignal" and not term.endswith("C"))):
                            continue
                        yield (q, kind, W, ch, term, mode)


def part_emit(run: Run):
    tasks = list(emit_tasks(run))
    run.count("emit_designs_generated", len(tasks))
    step = max(1, len(tasks) // 4)
    grouped = {}
    single = []
    simfail = []
    for kind, res in pmap(work_emit, list(chunked(tasks, 40)), seed=run.seed):
        if kind != "ok":
            run.tool_error(f"emit worker failed: {res[-800:]}")
            continue
        for r in res:
            st = r["status"]
            run.count("emit_" + st)
            q, knd, W, chain, term, mode = r["task"]
            if st == "ok":
                run.count("emit_sim_evaluations", r["evals"])
                if r["distinct_outputs"] >= 2:
                    run.count("emit_designs_nontrivial")
                if run.counters["emit_ok"] % step == 1:
                    run.sample({"view": f"{V.qname(tuple(q))}[{V.KIND_PY.get(knd, 'Array')}[{W}]] root{V.chain_text(chain)}", "terminal": term,
                                "mode": mode, "sim_evaluations": r["evals"]})
            elif st == "simfail":
                simfail.append(f"{V.qname(tuple(q))} root{V.chain_text(chain)} {term} {mode}: {r['error']}")
            elif st == "rejected":
                run.note(f"emit rejected: {V.qname(tuple(q))} root{V.chain_text(chain)} {term} {mode}: {r['error'][:120]}")
            elif st in ("mismatch", "static") and r.get("grouped"):
                size = (W, len(chain), V.chain_text(chain))
                g = grouped.setdefault(r["key"], [size, r, 0])
                g[2] += 1
                if size < g[0]:
                    g[0], g[1] = size, r
            elif st in ("mismatch", "static"):
                single.append(((mode, V.qname(tuple(q)), term, V.chain_class(tuple(tuple(o) for o in chain))),
                               (W, len(chain), V.chain_text(chain)), r["key"], f"{V.qname(tuple(q))}[{V.KIND_PY.get(knd, 'Array[BitVector[2],2]')}[{W}]] root, {mode} through root{V.chain_text(chain)}"
                                        f"{' by iteration' if term == 'iter' else ''}: {r['what']}"
                                        f"{'; design uses root bits %s' % r['observed'] if r.get('observed') else ''}",
                               {"part": "emit", "q": list(q), "kind": knd, "W": W, "chain": [list(o) for o in chain], "term": term,
                                "mode": mode, "cohdl_source": r.get("src")}))
    report_grouped(run, single, 3, "emit_mismatches_not_listed")
    for key, (_, r, n) in sorted(grouped.items()):
        q, knd, W, chain, term, mode = r["task"]
        run.violation(key, f"{V.qname(tuple(q))}[{V.KIND_PY.get(knd, 'Array')}[{W}]] root, {mode} through root{V.chain_text(chain)} by iteration: "
                           f"{r['what']}; design uses root bits {r['observed']} ({n} chains of this family show the same shift)",
                      {"part": "emit", "q": list(q), "kind": knd, "W": W, "chain": [list(o) for o in chain], "term": term,
                       "mode": mode, "cohdl_source": r.get("src"), "instances": n})
    if simfail:
        # the emitted VHDL of an accepted wrapper could not be simulated: machinery failure, unless the run has
        # already shown that the views are broken (then the text is most likely not legal VHDL any more)
        if run.violations:
            run.note(f"{len(simfail)} wrappers not simulated, first: {simfail[0]}")
        else:
            run.tool_error(f"{len(simfail)} wrappers could not be simulated, first: {simfail[0]}")
    acc = run.counters.get("emit_ok", 0) + run.counters.get("emit_mismatch", 0) + run.counters.get("emit_static", 0)
    applicable = len(tasks) - run.counters.get("emit_na", 0) - run.counters.get("emit_conv_rejected", 0)
    # vacuity guard: only meaningful for a run that found nothing (a defect in the view machinery can make the
    # compiler reject many wrappers; the run has then already produced its verdict through the violations)
    if applicable == 0 or (acc * 10 < applicable * 9 and not run.violations):
        run.tool_error(f"emit vacuous: only {acc} of {applicable} wrapper designs accepted by the compiler")


# ---------------------------------------------------------------------------------------------------
# part 4: distinct roots do not alias; views with a run-time index stay on the element selected at creation
# ---------------------------------------------------------------------------------------------------
def work_alias(tasks):
    out = []
    for fam, case in tasks:
        case = _tup(case)
        try:
            if fam == "distinct":
                pr, st = A.check_distinct(case)
                r = {"status": "rejected", "error": st["rejected"]} if pr is None else \
                    {"status": "mismatch" if pr else "ok", "what": "; ".join(pr[:1]), "evals": st["writes"]}
            elif fam == "arrinit":
                r = A.check_arrinit(case)
            else:
                r = A.check_dynidx(case)
        except Exception as e:  # noqa
            r = {"status": "simfail", "error": f"{type(e).__name__}: {str(e)[:200]}"}
        r["fam"], r["case"] = fam, case
        if r["status"] == "ok":
            r.pop("src", None)
        out.append(r)
    return out


def _tup(x):
    return tuple(_tup(y) for y in x) if isinstance(x, (list, tuple)) else x


def alias_key(fam, case):
    if fam == "dynidx":
        return A.dynidx_key(case)
    return f"alias/{fam}/" + "/".join(str(c).replace(" ", "").replace("[", "(").replace("]", ")") for c in case)


def part_alias(run: Run):
    tasks = [("distinct", c) for c in A.distinct_cases()] + [("arrinit", c) for c in A.arrinit_cases()] + \
            [("dynidx", c) for c in A.dynidx_cases()]
    items, fails = [], []
    for kind, res in pmap(work_alias, list(chunked(tasks, 12)), seed=run.seed):
        if kind != "ok":
            run.tool_error(f"alias worker failed: {res[-800:]}")
            continue
        for r in res:
            fam, case, st = r["fam"], r["case"], r["status"]
            run.count(f"alias_{fam}_{st}")
            if st == "ok":
                run.count("alias_evaluations", r.get("evals", 0))
                if run.counters[f"alias_{fam}_ok"] == 7:
                    run.sample({"family": fam, "case": list(case), "evaluations": r.get("evals", 0)})
            elif st in ("mismatch", "static"):
                items.append(((fam,) + tuple(case[:1]), (len(str(case)), str(case)), alias_key(fam, case),
                              f"{fam} {case}: {r['what']}", {"part": "alias", "fam": fam, "case": list(case), "cohdl_source": r.get("src")}))
            elif st in ("rejected", "simfail"):
                fails.append(f"{fam} {case}: {r['error']}")
    report_grouped(run, items, 3, "alias_mismatches_not_listed")
    n_ok = sum(v for k, v in run.counters.items() if k.startswith("alias_") and k.endswith("_ok"))
    if fails:
        run.note(f"{len(fails)} alias cases rejected / not simulated, first: {fails[0][:200]}")
    if not run.violations and (n_ok * 10 < len(tasks) * 9):
        run.tool_error(f"alias vacuous: only {n_ok} of {len(tasks)} cases executed; first failure: {(fails or ['?'])[0][:200]}")
    run.count("alias_cases", len(tasks))


# ---------------------------------------------------------------------------------------------------
def main(run: Run):
    only = getattr(run, "only", None)
    t0 = time.time()
    if not only or "types" in only:
        part_types(run)  # must run first: it needs (and leaves) the import-time state of the caches
    t1 = time.time()
    if not only or "pyview" in only:
        part_pyview(run)
    t2 = time.time()
    if not only or "emit" in only:
        part_emit(run)
    t3 = time.time()
    if not only or "alias" in only:
        part_alias(run)
    run.coverage_extra["part_wall_s"] = {"types": round(t1 - t0, 1), "pyview": round(t2 - t1, 1), "emit": round(t3 - t2, 1),
                                         "alias": round(time.time() - t3, 1)}
    c = run.counters
    run.assume("issubclass on cohdl's type classes is the plain mro relation (checked: no __subclasscheck__ hooks; "
               "cross-validated with real issubclass calls on all pairs for every order of length <= 2)")
    run.assume("restoring the eight _SubTypes dictionaries to their import-time contents is equivalent to a fresh process "
               "(classes are reachable only through them; checked against forked children for all single expressions and a grid of pairs)")
    run.assume("vsim (own VHDL-2008 subset simulator) implements IEEE 1076/numeric_std semantics")
    run.assume("relations the statement does not mention are left open: ascending ranges K[0:n-1] vs BitVector of the same width, "
               "Array[T,n] vs Array, element covariance of Array, Q[Array[..]] vs Q[Array]")
    run.coverage_extra.update(
        exhaustive=not run.capped and not only,
        rule="types: every sequence of distinct type expressions up to the tier's length over the tier's alphabets, each from the "
             "import-time caches, invariant evaluated after every prefix (non-trivial = the last first-use created at least one class); "
             "views: every chain of view operations up to the tier's length x qualifier kind x terminal (whole|iterate) x (read|write), "
             "Python level with all written values and emitted level simulated for all input values (non-trivial = at least one view "
             "operation / at least two distinct simulated outputs)",
        evaluations=c.get("type_orders_explored", 0) + c.get("py_chains", 0) + c.get("py_struct_chains", 0) + c.get("emit_ok", 0) + c.get("emit_mismatch", 0)
        + c.get("alias_cases", 0),
        distinct_nontrivial=(c.get("type_orders_explored", 0) - c.get("type_orders_last_step_cached", 0) - c.get("type_orders_raised", 0))
        + c.get("py_chains_nontrivial", 0) + c.get("py_struct_chains_nontrivial", 0) + c.get("emit_designs_nontrivial", 0)
        + c.get("alias_distinct_ok", 0) + c.get("alias_arrinit_ok", 0) + c.get("alias_dynidx_ok", 0),
    )


def replay(run: Run, data):
    part = data.get("part")
    if part == "types":
        order = [T.to_expr(e) for e in data["order"]]
        facts, _ = T.run_order(order)
        print("facts:", sorted(facts))
        return data["fact"] not in facts
    if part == "pyapi":
        env = V._imports()
        base = V.py_api_baseline(env, tuple(data["q"]), data["kind"], data["W"])
        print(base)
        return base.get(data["api"]) is None
    if part == "pyview":
        env = V._imports()
        q = tuple(data["q"])
        base = V.py_api_baseline(env, q, data["kind"], data["W"])
        apis = [a for a, v in base.items() if v is None]
        W = data["W"]
        patterns = write_backgrounds(W, True)
        pr, _ = V.py_check_chain(env, q, data["kind"], W, tuple(tuple(o) for o in data["chain"]), data["iter_elem"], apis, patterns)
        print(pr)
        return not any(tag == data["tag"] for tag, _ in (pr or []))
    if part == "pystruct":
        pr, _ = V.py_check_structure(V._imports(), tuple(data["q"]), data["kind"], data["W"],
                                     tuple(tuple(o) for o in data["chain"]), data["iter_elem"])
        print(pr)
        return not any(tag == data["tag"] for tag, _ in (pr or []))
    if part == "alias":
        fam, case = data["fam"], _tup(data["case"])
        if fam == "distinct":
            pr, _ = A.check_distinct(case)
            print(pr)
            return not pr
        r = A.check_arrinit(case) if fam == "arrinit" else A.check_dynidx(case)
        print(r["status"], r.get("what"))
        return r["status"] not in ("mismatch", "static")
    if part == "emit":
        r = V.check_emitted(tuple(data["q"]), data["kind"], data["W"], tuple(tuple(o) for o in data["chain"]), data["term"], data["mode"])
        print(r["status"], r.get("what"))
        return r["status"] not in ("mismatch", "static")
    return True

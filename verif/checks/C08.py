"""C08  Intermediate values are written before read within every activation.

Bounded-exhaustive enumeration of control-flow shapes x placements of the definition (D: `t = a | b`,
D2: `t = a & b`) and the use (U: `o <<= t`) of an intermediate value, in clocked / clockless sequential
contexts, in helper functions with partial returns, and across states of a coroutine.

Oracle
  * source side: a reference interpreter executes the abstract program under EVERY input valuation; if on some
    feasible path the value is used without having been defined in the same activation (for coroutines: in the same
    state) the compiler must reject the program;
  * emitted side, every accepted program: vsim in POISON mode (all compiler generated variables are poisoned at the
    start of each process activation; reading a poisoned variable is recorded) under every input valuation
    (coroutines: every input sequence up to the number of states + 2) must record no poisoned read, and the
    output must equal the reference value.
A rejection is never a violation.
"""
from __future__ import annotations

import itertools

from ..cohdl_util import compile_source
from ..core import Run, pmap, chunked
from ..vhdl.elab import compile_design
from ..vhdl import rt
from ..vhdl.parser import Unsupported, VhdlSyntaxError

LEVEL = "exploration"

# abstract statements: 'D','D2','U','P' | ('if', k, then, else|None) | ('match', arms(tuple of blocks for case 0,1), default|None)
#                      | ('for', body)  -> for i in range(2): if self.x[i]: <body>; break   [else: <else>]
LEAF_BLOCKS = [("D",), ("P",), ("U",), ("D", "U"), ("D2",)]


def blocks_small():
    return LEAF_BLOCKS


def shapes(depth2):
    """compound statements; conditions get distinct input bits c0..c2 (all paths feasible)"""
    out = []
    lb = LEAF_BLOCKS
    for t in lb:
        out.append(("if", t, None))
        for e in lb:
            out.append(("if", t, e))
    for a in lb:
        for b in lb:
            out.append(("match", (a, b), None))
            for d in (("D",), ("P",)):
                out.append(("match", (a, b), d))
    for b in lb:
        out.append(("for", b, None))
        for e in (("D",), ("P",)):
            out.append(("for", b, e))
    for a in (("D",), ("P",)):
        for b in (("D",), ("P",)):
            for c in (("D",), ("P",)):
                out.append(("elif", a, b, c))
                out.append(("elif", a, b, None))
    if depth2:
        inner = [("if", ("D",), None), ("if", ("D",), ("D2",)), ("if", ("D",), ("P",)), ("match", (("D",), ("D",)), None),
                 ("match", (("D",), ("P",)), ("D",)), ("for", ("D",), None), ("for", ("D",), ("D",))]
        for i1 in inner:
            for e in (None, ("D",), ("P",)):
                out.append(("if", (i1,), e))
                out.append(("if", (i1, "U"), e))
            out.append(("match", ((i1,), ("D",)), ("D",)))
            out.append(("for", (i1,), ("D",)))
    return out


def programs(thorough):
    sh = shapes(thorough)
    seen = set()
    for s in sh:
        for pre in ((), ("D",), ("U",)) if thorough else ((), ("D",)):
            for post in (("U",), ("D2", "U"), ()) if thorough else (("U",),):
                p = pre + (s,) + post
                if "U" not in flat(p):
                    continue
                if p not in seen:
                    seen.add(p)
                    yield p
    if thorough:
        for s1, s2 in itertools.product(sh[:40], repeat=2):
            p = (s1, s2, "U")
            if p not in seen:
                seen.add(p)
                yield p


def flat(p):
    out = []
    for st in p:
        if isinstance(st, str):
            out.append(st)
        else:
            for x in st[1:]:
                if x is None:
                    continue
                if isinstance(x, tuple) and x and isinstance(x[0], tuple) and st[0] == "match" and x is st[1]:
                    for arm in x:
                        out.extend(flat(arm))
                else:
                    out.extend(flat(x))
    return out


# ---- rendering ----------------------------------------------------------------
class R:
    def __init__(self, ret=False):
        self.nc = 0
        self.ret = ret

    def cond(self):
        self.nc += 1
        return f"self.c[{self.nc - 1}]"

    def block(self, blk, ind):
        pre = "    " * ind
        L = []
        for st in blk:
            if st == "D":
                L.append(pre + ("return self.a | self.b" if self.ret else "t = self.a | self.b"))
            elif st == "D2":
                L.append(pre + ("return self.a & self.b" if self.ret else "t = self.a & self.b"))
            elif st == "U":
                L.append(pre + "self.o <<= t")
            elif st == "P":
                L.append(pre + "pass")
            elif st[0] == "if":
                L.append(pre + f"if {self.cond()}:")
                L += self.block(st[1], ind + 1)
                if st[2] is not None:
                    L.append(pre + "else:")
                    L += self.block(st[2], ind + 1)
            elif st[0] == "elif":
                L.append(pre + f"if {self.cond()}:")
                L += self.block(st[1], ind + 1)
                L.append(pre + f"elif {self.cond()}:")
                L += self.block(st[2], ind + 1)
                if st[3] is not None:
                    L.append(pre + "else:")
                    L += self.block(st[3], ind + 1)
            elif st[0] == "match":
                L.append(pre + "match self.x:")
                for i, arm in enumerate(st[1]):
                    L.append(pre + f"    case {i}:")
                    L += self.block(arm, ind + 2)
                if st[2] is not None:
                    L.append(pre + "    case _:")
                    L += self.block(st[2], ind + 2)
            elif st[0] == "for":
                L.append(pre + "for i in range(2):")
                L.append(pre + "    if self.x[i]:")
                L += self.block(st[1], ind + 2)
                L.append(pre + "        break")
                if st[2] is not None:
                    L.append(pre + "else:")
                    L += self.block(st[2], ind + 1)
        return L


HDR = ["from cohdl import std, Entity, Port, Bit, BitVector, Unsigned, Signal, Variable, Array, Boolean, vhdl", "import cohdl", ""]


def render(prog, flavour):
    r = R()
    body = r.block(prog, 3)
    L = list(HDR)
    L += ["class T(Entity):", "    clk = Port.input(Bit)", "    a = Port.input(Bit)", "    b = Port.input(Bit)",
          "    c = Port.input(BitVector[4])", "    x = Port.input(Unsigned[2])", "    o = Port.output(Bit, default=False)",
          "    w = Port.input(BitVector[4])", "    o2 = Port.output(Bit, default=False)", "    o3 = Port.output(BitVector[4], default='0000')",
          "    def architecture(self):"]
    if flavour == "clocked":
        L.append("        @std.sequential(std.Clock(self.clk))")
    else:
        L.append("        @std.sequential")
    L.append("        def proc():")
    # run-time indexed read and write: the compiler copies the index into an intermediate that is only read inside the
    # index expression
    L += ["            self.o2 <<= self.w[self.x]", "            self.o3[self.x] <<= self.a"]
    L += body
    L.append("")
    return "\n".join(L)


def render_ret(prog, flavour):
    """helper function with returns in branches; the value is used by the caller"""
    r = R(ret=True)
    body = r.block(prog, 3)
    L = list(HDR)
    L += ["class T(Entity):", "    clk = Port.input(Bit)", "    a = Port.input(Bit)", "    b = Port.input(Bit)",
          "    c = Port.input(BitVector[4])", "    x = Port.input(Unsigned[2])", "    o = Port.output(Bit, default=False)",
          "    def architecture(self):", "        def f():"]
    L += body
    L.append("        @std.sequential(std.Clock(self.clk))" if flavour == "clocked" else "        @std.sequential")
    L += ["        def proc():", "            self.o <<= f()", ""]
    return "\n".join(L)


def ret_programs(thorough):
    lb = [("D",), ("P",), ("D2",)]
    sh = []
    for t in lb:
        sh.append(("if", t, None))
        for e in lb:
            sh.append(("if", t, e))
    for a in lb:
        for b in lb:
            sh.append(("match", (a, b), None))
            for d in lb:
                sh.append(("match", (a, b), d))
    for b in (("D",), ("D2",)):
        sh.append(("for", b, None))
        for e in lb:
            sh.append(("for", b, e))
    for a in lb:
        for b in lb:
            for c in lb + [None]:
                sh.append(("elif", a, b, c))
    if thorough:
        inner = [("if", ("D",), None), ("if", ("D",), ("D2",)), ("match", (("D",), ("P",)), ("D",)), ("for", ("D",), None)]
        for i1 in inner:
            for e in (None, ("D",), ("P",)):
                sh.append(("if", (i1,), e))
            sh.append(("match", ((i1,), ("D",)), ("D",)))
    for s_ in sh:
        for post in ((), ("D",), ("D2",)):
            yield (s_,) + post
    if thorough:
        for s1, s2 in itertools.product(sh[:30], repeat=2):
            for post in ((), ("D",)):
                yield (s1, s2) + post


# ---- reference interpreter -------------------------------------------------------
class UseBeforeDef(Exception):
    pass


class Returned(Exception):
    pass


def interp_ret(prog, inp):
    """helper-return flavour: D/D2 are returns; falling off the end = no value (UseBeforeDef)"""
    box = {}
    try:
        interp(prog, inp, ret=box)
    except Returned:
        return box["v"]
    raise UseBeforeDef()


def interp(prog, inp, ret=None):
    """inp: dict a,b,c(4-bit int),x(2-bit int). Returns value assigned to o (or None); raises UseBeforeDef."""
    st = {"t": None, "o": None, "nc": 0}

    def cond():
        st["nc"] += 1
        return (inp["c"] >> (st["nc"] - 1)) & 1

    def skipconds(blk):
        # conditions are numbered in source order: account for conditions in blocks that are not executed
        for s in blk:
            if isinstance(s, str):
                continue
            if s[0] == "if":
                st["nc"] += 1
                skipconds(s[1])
                if s[2] is not None:
                    skipconds(s[2])
            elif s[0] == "elif":
                st["nc"] += 2
                skipconds(s[1])
                skipconds(s[2])
                if s[3] is not None:
                    skipconds(s[3])
            elif s[0] == "match":
                for arm in s[1]:
                    skipconds(arm)
                if s[2] is not None:
                    skipconds(s[2])
            elif s[0] == "for":
                skipconds(s[1])
                skipconds(s[1])
                if s[2] is not None:
                    skipconds(s[2])

    def run(blk):
        for s in blk:
            if s == "D":
                st["t"] = inp["a"] | inp["b"]
                if ret is not None:
                    ret["v"] = st["t"]
                    raise Returned()
            elif s == "D2":
                st["t"] = inp["a"] & inp["b"]
                if ret is not None:
                    ret["v"] = st["t"]
                    raise Returned()
            elif s == "U":
                if st["t"] is None:
                    raise UseBeforeDef()
                st["o"] = st["t"]
            elif s == "P":
                pass
            elif s[0] == "if":
                if cond():
                    run(s[1])
                    if s[2] is not None:
                        skipconds(s[2])
                else:
                    skipconds(s[1])
                    if s[2] is not None:
                        run(s[2])
            elif s[0] == "elif":
                c1 = cond()
                if c1:
                    run(s[1])
                    st["nc"] += 1
                    skipconds(s[2])
                    if s[3] is not None:
                        skipconds(s[3])
                else:
                    skipconds(s[1])
                    if cond():
                        run(s[2])
                        if s[3] is not None:
                            skipconds(s[3])
                    else:
                        skipconds(s[2])
                        if s[3] is not None:
                            run(s[3])
            elif s[0] == "match":
                hit = False
                for i, arm in enumerate(s[1]):
                    if inp["x"] == i and not hit:
                        run(arm)
                        hit = True
                    else:
                        skipconds(arm)
                if s[2] is not None:
                    if hit:
                        skipconds(s[2])
                    else:
                        run(s[2])
            elif s[0] == "for":
                # unrolled: the loop body is instantiated per iteration (conditions inside are numbered per instance)
                broke = False
                for i in range(2):
                    if not broke and (inp["x"] >> i) & 1:
                        run(s[1])
                        broke = True
                    else:
                        skipconds(s[1])
                if s[2] is not None:
                    if broke:
                        skipconds(s[2])
                    else:
                        run(s[2])

    run(prog)
    return st["o"]


def uses_inner_conds_in_for(prog):
    """programs whose `for` body contains conditions are excluded: the loop body is inlined twice and our source-order
    numbering of condition bits would not match (both copies read the same self.c[k])."""
    for s in prog:
        if isinstance(s, str):
            continue
        if s[0] == "for":
            if any(not isinstance(q, str) for q in s[1]):
                return True
        for x in s[1:]:
            if isinstance(x, tuple):
                blks = x if (s[0] == "match" and x is s[1]) else (x,)
                for b in blks:
                    if b and uses_inner_conds_in_for(b):
                        return True
    return False


ALL_INPUTS = [dict(a=a, b=b, c=c, x=x) for a in (0, 1) for b in (0, 1) for c in range(16) for x in range(4)]


def analyse(prog, flavour, ret=False):
    src = render_ret(prog, flavour) if ret else render(prog, flavour)
    must = False
    witness = None
    exp = {}
    for n, inp in enumerate(ALL_INPUTS):
        try:
            exp[n] = interp_ret(prog, inp) if ret else interp(prog, inp)
        except UseBeforeDef:
            must = True
            witness = witness or inp
            exp[n] = "undef"
    res, _ = compile_source(src)
    if not res.ok:
        return {"status": "rejected", "must": must, "error": res.error}
    out = {"status": "accepted", "must": must, "witness": witness, "src": src, "problems": [], "evals": 0}
    try:
        d = compile_design(res.vhdl, poison=True)
    except (VhdlSyntaxError,) as e:
        out["problems"].append(("syntax", str(e)))
        return out
    except Unsupported as e:
        return {"status": "tool", "what": str(e), "src": src}
    sim = d.sim()
    sim.set_many(dict(clk=0, a=0, b=0, c=0, x=0, **({"w": 5} if "w" in sim.ports else {})))
    del sim.PR[:]
    base = sim.snapshot()
    for n, inp in enumerate(ALL_INPUTS):
        sim.restore(base)
        try:
            sim.set_many(inp)
            if flavour == "clocked":
                sim.clock()
        except rt.SimError as e:
            out["problems"].append(("simerror", f"{e} with inputs {inp}"))
            break
        out["evals"] += 1
        pr = sim.poisoned_reads()
        if pr:
            out["problems"].append(("poisoned-read", f"variables {pr} read before written with inputs {inp}"))
            break
        if exp[n] not in ("undef", None):
            got = sim.get("o")
            if got != exp[n]:
                out["problems"].append(("value", f"o={got}, reference {exp[n]} with inputs {inp}"))
                break
    return out


# ---- coroutine family: definition in one state, use in another ------------------------------------
CORO_ATOMS = ["D", "U", "AW", "AWI", "IFD", "IFAW"]  # AW: await true, AWI: await self.a, IFD: if c0: D, IFAW: if c1: await true


def coro_programs(maxlen):
    for n in range(2, maxlen + 1):
        for p in itertools.product(CORO_ATOMS, repeat=n):
            if "U" not in p or not any(x in p for x in ("AW", "AWI", "IFAW")):
                continue
            if "D" not in p and "IFD" not in p:
                continue
            yield p


def render_coro(p):
    L = list(HDR)
    L += ["class T(Entity):", "    clk = Port.input(Bit)", "    a = Port.input(Bit)", "    b = Port.input(Bit)",
          "    c = Port.input(BitVector[4])", "    x = Port.input(Unsigned[2])", "    o = Port.output(Bit, default=False)",
          "    def architecture(self):", "        @std.sequential(std.Clock(self.clk))", "        async def proc():"]
    pre = "            "
    for s in p:
        if s == "D":
            L.append(pre + "t = self.a | self.b")
        elif s == "U":
            L.append(pre + "self.o <<= t")
        elif s == "AW":
            L.append(pre + "await cohdl.true")
        elif s == "AWI":
            L.append(pre + "await self.a")
        elif s == "IFD":
            L += [pre + "if self.c[0]:", pre + "    t = self.a | self.b"]
        elif s == "IFAW":
            L += [pre + "if self.c[1]:", pre + "    await cohdl.true"]
    L.append("")
    return "\n".join(L)


def coro_must_reject(p):
    """use in a state other than the defining one, or after a conditional definition, on some feasible path"""
    # paths: choose c0 (IFD taken or not), c1 (IFAW suspends or not); AWI may or may not suspend when first... any await
    # separates states unless it is the very first action and resumes immediately (AW/AWI at position 0)
    for c0 in (0, 1):
        for c1 in (0, 1):
            for awi_immediate in (0, 1):
                defined = False
                first = True
                for i, s in enumerate(p):
                    if s == "D":
                        defined = True
                        first = False
                    elif s == "IFD":
                        first = False
                        if c0:
                            defined = True
                    elif s == "U":
                        first = False
                        if not defined:
                            return True
                    elif s == "AW":
                        if first:
                            first = False  # immediate, same activation
                        else:
                            defined = False
                    elif s == "AWI":
                        if first and awi_immediate:
                            first = False
                        else:
                            first = False
                            defined = False
                    elif s == "IFAW":
                        first = False
                        if c1:
                            defined = False
    return False


def analyse_coro(p):
    src = render_coro(p)
    must = coro_must_reject(p)
    res, _ = compile_source(src)
    if not res.ok:
        return {"status": "rejected", "must": must, "error": res.error}
    out = {"status": "accepted", "must": must, "witness": None, "src": src, "problems": [], "evals": 0}
    try:
        d = compile_design(res.vhdl, poison=True)
    except VhdlSyntaxError as e:
        out["problems"].append(("syntax", str(e)))
        return out
    except Unsupported as e:
        return {"status": "tool", "what": str(e), "src": src}
    # explicit-state search over (design state) with all inputs (a, c0, c1) per clock
    sim = d.sim()
    sim.set_many(dict(clk=0, a=0, b=1, c=0, x=0))
    del sim.PR[:]
    seen = {sim.snapshot()}
    frontier = [sim.snapshot()]
    menu = [dict(a=a, c=c) for a in (0, 1) for c in range(4)]
    while frontier:
        nxt = []
        for snap in frontier:
            for m in menu:
                sim.restore(snap)
                sim.set_many(m)
                sim.clock()
                out["evals"] += 1
                pr = sim.poisoned_reads()
                if pr:
                    out["problems"].append(("poisoned-read", f"variables {pr} read before written in a state reached with inputs {m}"))
                    return out
                s2 = sim.snapshot()
                if s2 not in seen:
                    seen.add(s2)
                    nxt.append(s2)
        frontier = nxt
    out["states"] = len(seen)
    return out


# ---- miscellaneous fixed shapes (each found by a seeded-change agent on the unmodified tree or taken from DESIGN.md) --------
MISC_HDR = HDR + ["class T(Entity):", "    clk = Port.input(Bit)", "    a = Port.input(Bit)", "    b = Port.input(Bit)",
                  "    x = Port.input(Unsigned[2])", "    w = Port.input(BitVector[4])", "    o = Port.output(Bit, default=False)",
                  "    o2 = Port.output(Unsigned[2], default=0)", "    def architecture(self):",
                  # an enum / integer / bool valued selector driven by another process
                  "        se = Signal[E3](E3.ea, name='se')", "        si = Signal[int](0, name='si')",
                  "        @std.sequential(std.Clock(self.clk))", "        def drive_selectors():",
                  "            if self.a:", "                se.next = E3.eb", "            elif self.b:", "                se.next = E3.ec",
                  "            else:", "                se.next = E3.ea",
                  "            si.next = 1 if self.b else 2 if self.a else 0"]
MISC_HDR = [l for l in MISC_HDR if not l.startswith("class T(")]
MISC_HDR = MISC_HDR[:len(HDR)] + ["from cohdl import enum", "class E3(enum.Enum):", "    ea = enum.auto()", "    eb = enum.auto()", "    ec = enum.auto()",
                                  # boolean valued helpers with several return paths (the merged result is an intermediate)
                                  "def in_window(mode, value, low, high):", "    if mode:", "        return value >= low", "    else:", "        return value <= high",
                                  "def check_mode(sel, value, low, high):", "    match sel:", "        case 0:", "            return value == low",
                                  "        case 1:", "            return value == high", "        case 2:", "            return value < high",
                                  "        case _:", "            return value != low",
                                  "def first_hit(sel, value, options):", "    for nr, option in enumerate(options):", "        if sel == nr:",
                                  "            return value == option", "    else:", "        return value == 0",
                                  "def early_out(en, value, low):", "    if not en:", "        return False", "    return value > low",
                                  "class T(Entity):"] + MISC_HDR[len(HDR):]
MISC = {
    # select_with / std.select without default on selector types whose choices do not cover every value
    "select_with-nodefault-seq-enum": (False, ["self.o2 <<= cohdl.select_with(se, {E3.ea: Unsigned[2](1), E3.eb: Unsigned[2](2)})"]),
    "select_with-default-seq-enum": (False, ["self.o2 <<= cohdl.select_with(se, {E3.ea: Unsigned[2](1), E3.eb: Unsigned[2](2)}, default=Unsigned[2](3))"]),
    "select_with-nodefault-seq-int": (False, ["self.o2 <<= cohdl.select_with(si, {0: Unsigned[2](1), 1: Unsigned[2](2)})"]),
    "select_with-nodefault-seq-bool": (False, ["k = self.a == self.b", "self.o2 <<= cohdl.select_with(k, {True: Unsigned[2](1)})"]),
    "std-select-nodefault-seq-enum": (False, ["self.o2 <<= std.select(se, {E3.ea: Unsigned[2](1), E3.ec: Unsigned[2](2)})"]),
    "std-select-nodefault-in-branch-enum": (False, ["if self.a:", "    self.o2 <<= std.select(se, {E3.ea: Unsigned[2](1), E3.ec: Unsigned[2](2)})"]),
    "select_with-nodefault-async-enum": (True, ["await self.a", "self.o2 <<= cohdl.select_with(se, {E3.ea: Unsigned[2](1), E3.eb: Unsigned[2](2)})"]),
    # a Signal constructed inside the body in one branch and read after / outside that branch
    "local-signal-in-if-read-after": (False, ["if self.a:", "    loc = Signal[Unsigned[2]](self.x)", "    self.o <<= loc[0]", "self.o2 <<= loc"], True),
    "local-signal-in-for-break-read-after": (False, ["for i in range(2):", "    if self.x[i]:", "        loc = Signal[Unsigned[2]](self.x + i)", "        break",
                                                     "self.o2 <<= loc"], True),
    "local-signal-in-match-read-after": (False, ["match self.x:", "    case 0:", "        loc = Signal[Unsigned[2]](self.x + 1)", "    case _:", "        pass",
                                                 "self.o2 <<= loc"], True),
    "local-signal-before-branch-ok": (False, ["loc = Signal[Unsigned[2]](self.x)", "if self.a:", "    self.o2 <<= loc", "self.o <<= loc[1]"]),
    "local-signal-inside-branch-only-ok": (False, ["if self.a:", "    loc = Signal[Unsigned[2]](self.x)", "    self.o2 <<= loc"]),
    "select_with-nodefault-seq": (False, ["self.o2 <<= cohdl.select_with(self.x, {0: Unsigned[2](1), 1: Unsigned[2](2)})"]),
    "select_with-default-seq": (False, ["self.o2 <<= cohdl.select_with(self.x, {0: Unsigned[2](1), 1: Unsigned[2](2)}, default=Unsigned[2](3))"]),
    "std-select-nodefault-seq": (False, ["self.o2 <<= std.select(self.x, {0: Unsigned[2](1), 2: Unsigned[2](2)})"]),
    "select_with-bit-nodefault-seq": (False, ["self.o2 <<= cohdl.select_with(self.a, {Bit(0): Unsigned[2](1), Bit(1): Unsigned[2](2)})"]),
    "chained-bool-casts": (False, ["t = self.a == self.b", "u = bool(t)", "k = bool(u)", "if k:", "    self.o <<= True"]),
    "bool-cast-twice-used": (False, ["t = self.a == self.b", "u = bool(t)", "if u:", "    self.o <<= True", "if bool(u):", "    self.o2 <<= 1"]),
    "named-index-expr": (False, ["idx = self.x + 1", "self.o <<= self.w[idx]"]),
    "await-indexed-bit": (True, ["await self.w[self.x]", "self.o <<= True"]),
    "await-indexed-bit-later": (True, ["self.o2 <<= 1", "await self.a", "await self.w[self.x]", "self.o <<= True"]),
    "await-expr-indexed-bit": (True, ["await cohdl.expr(self.w[self.x])", "self.o <<= True"]),
    "await-expr-indexed-bit-later": (True, ["self.o2 <<= 1", "await self.a", "await cohdl.expr(self.w[self.x])", "self.o <<= True"]),
    "await-expr-indexed-in-loop": (True, ["while True:", "    await cohdl.expr(self.w[self.x] & self.a)", "    self.o <<= self.w[self.x]"]),
    "ifexpr-temp-in-await": (True, ["t = self.a | self.b", "self.o <<= t", "await cohdl.expr(self.a & self.b)", "self.o2 <<= 2"]),
    "while-continue-temp-unused": (True, ["while True:", "    t = self.a ^ self.b", "    await self.a", "    if self.b:", "        continue", "    self.o <<= self.a"]),
    # (is_async, body, must_reject): value computed in one state consumed in another / outside the process
    "while-true-continue-temp-across-await": (True, ["while True:", "    t = self.a ^ self.b", "    await self.a", "    if self.b:", "        continue",
                                                    "    self.o <<= t"], True),
    "while-true-temp-across-await": (True, ["while True:", "    t = self.a ^ self.b", "    await self.a", "    self.o <<= t"], True),
    "while-cond-continue-temp-across-await": (True, ["while self.a:", "    t = self.a ^ self.b", "    await self.b", "    if self.x[0]:", "        continue",
                                                    "    self.o <<= t"], True),
    # results of inline VHDL expressions are intermediates as well
    "inline-vhdl-across-await": (True, ['t = f"{vhdl[Bit]:{self.a!r} or {self.b!r}}"', "await self.a", "self.o <<= t"], True),
    "inline-vhdl-same-state": (True, ["await self.a", 't = f"{vhdl[Bit]:{self.a!r} or {self.b!r}}"', "self.o <<= t"]),
    "inline-vhdl-sync": (False, ['t = f"{vhdl[Bit]:{self.a!r} or {self.b!r}}"', "if self.a:", "    self.o <<= t"]),
    "inline-vhdl-in-loop-across-await": (True, ["while True:", '    t = f"{vhdl[Bit]:{self.a!r} and {self.b!r}}"', "    await self.b", "    self.o <<= t"], True),
    # array literals whose elements are (redundant) bool casts of boolean intermediates
    "array-literal-bool-elements": (False, ["flags = Signal[Array[Boolean, 2]]([bool(self.a == self.b), bool(self.a != self.b)])", "self.o <<= flags[self.x[0:0].unsigned]"]),
    "array-value-bool-elements-in-branch": (False, ["if self.a:", "    flags = std.Value[Array[Boolean, 2]]((bool(self.w[1:0] == self.w[3:2]), bool(self.w[0])))",
                                                    "    self.o <<= flags[self.x[0:0].unsigned]", "else:", "    self.o <<= False"]),
    "array-variable-bool-elements": (False, ["flags = Variable[Array[Boolean, 2]]([bool(self.a == self.b), bool(self.b)])", "self.o <<= flags[self.x[0:0].unsigned]"]),
    # a reference to an element selected with a run-time index carries an index intermediate
    "indexed-ref-match-across-await": (True, ["elem = self.w[self.x]", "await self.a", "match elem:", "    case '1':", "        self.o2 <<= 1",
                                             "    case _:", "        self.o2 <<= 2"], True),
    "indexed-ref-if-across-await": (True, ["elem = self.w[self.x]", "await self.a", "if elem:", "    self.o2 <<= 1"], True),
    "indexed-ref-assign-across-await": (True, ["elem = self.w[self.x]", "await self.a", "self.o <<= elem"], True),
    "indexed-ref-match-same-state": (True, ["await self.a", "elem = self.w[self.x]", "match elem:", "    case '1':", "        self.o2 <<= 1",
                                           "    case _:", "        self.o2 <<= 2"]),
    "indexed-ref-match-sync": (False, ["elem = self.w[self.x]", "match elem:", "    case '1':", "        self.o2 <<= 1", "    case _:", "        self.o2 <<= 2"]),
    "indexed-slice-match-sync": (False, ["elem = self.w[self.x]", "match self.w[3:2]:", "    case '10':", "        self.o2 <<= 1", "    case _:",
                                         "        self.o <<= elem"]),
    # boolean helper functions with several return paths used as conditions / values
    "bool-helper-if-else-as-condition": (False, ["if in_window(self.a, self.x, self.w[1:0].unsigned, self.w[3:2].unsigned):", "    self.o <<= True", "else:", "    self.o2 <<= 1"]),
    "bool-helper-match-as-condition": (False, ["if check_mode(self.x, self.w[1:0].unsigned, self.w[3:2].unsigned, self.x):", "    self.o <<= True"]),
    "bool-helper-for-return-as-condition": (False, ["if first_hit(self.x, self.w[1:0].unsigned, (self.w[3:2].unsigned, self.x, 1)):", "    self.o <<= True"]),
    "bool-helper-early-out-as-value": (False, ["k = early_out(self.a, self.x, self.w[1:0].unsigned)", "self.o <<= k", "if k:", "    self.o2 <<= 2"]),
    "bool-helper-twice": (False, ["k = in_window(self.a, self.x, self.w[1:0].unsigned, self.w[3:2].unsigned)", "m = in_window(self.b, self.x, self.w[3:2].unsigned, self.w[1:0].unsigned)",
                                  "if k and m:", "    self.o <<= True", "elif k:", "    self.o2 <<= 1"]),
    "bool-helper-in-coroutine-state": (True, ["await self.a", "if in_window(self.b, self.x, self.w[1:0].unsigned, self.w[3:2].unsigned):", "    self.o <<= True",
                                              "await self.b", "k = early_out(self.a, self.x, self.w[1:0].unsigned)", "if k:", "    self.o2 <<= 3"]),
    "always-expr-reads-bit-of-process-intermediate": (False, ["t = self.w | self.w", "self.o <<= cohdl.always(t[0] | self.a)"], True),
    "always-expr-reads-slice-of-process-intermediate": (False, ["t = self.w | self.w", "self.o2 <<= cohdl.always((t[1:0] | self.w[3:2]).unsigned)"], True),
}


def render_misc(name):
    is_async, body = MISC[name][:2]
    L = list(MISC_HDR)
    L.append("        @std.sequential(std.Clock(self.clk))")
    L.append("        async def proc():" if is_async else "        def proc():")
    L += ["            " + l for l in body]
    L.append("")
    return "\n".join(L)


def analyse_misc(name):
    src = render_misc(name)
    must = len(MISC[name]) > 2 and MISC[name][2]
    res, _ = compile_source(src)
    if not res.ok:
        return {"status": "rejected", "must": must, "error": res.error}
    out = {"status": "accepted", "must": must, "witness": "a value computed in one state / process is consumed in another", "src": src, "problems": [], "evals": 0}
    try:
        d = compile_design(res.vhdl, poison=True)
    except VhdlSyntaxError as e:
        out["problems"].append(("syntax", str(e)))
        return out
    except Unsupported as e:
        return {"status": "tool", "what": str(e), "src": src}
    if d.findings:
        out["problems"].append(("static-" + d.findings[0].rule, repr(d.findings[0])))
        return out
    sim = d.sim(init=dict(clk=0, a=0, b=0, x=0, w=0))
    del sim.PR[:]
    seen = {sim.snapshot()}
    frontier = [sim.snapshot()]
    menu = [dict(a=a, b=b, x=x, w=w) for a in (0, 1) for b in (0, 1) for x in range(4) for w in (0, 5, 10, 15)]
    while frontier:
        nxt = []
        for snap in frontier:
            for m in menu:
                sim.restore(snap)
                try:
                    sim.set_many(m)
                    sim.clock()
                except rt.SimError as e:
                    out["problems"].append(("simerror", f"{e} with inputs {m}"))
                    return out
                out["evals"] += 1
                pr = sim.poisoned_reads()
                if pr:
                    out["problems"].append(("poisoned-read", f"variables {pr} read before written in a state reached with inputs {m}"))
                    return out
                s2 = sim.snapshot()
                if s2 not in seen:
                    seen.add(s2)
                    nxt.append(s2)
        frontier = nxt
    return out


def work(tasks):
    out = []
    for kind, prog, flavour in tasks:
        if kind == "misc":
            out.append((kind, prog, flavour, analyse_misc(prog)))
            continue
        if kind == "seq":
            out.append((kind, prog, flavour, analyse(prog, flavour)))
        elif kind == "ret":
            out.append((kind, prog, flavour, analyse(prog, flavour, ret=True)))
        else:
            out.append((kind, prog, flavour, analyse_coro(prog)))
    return out


def main(run: Run):
    tasks = []
    for p in programs(run.thorough):
        if uses_inner_conds_in_for(p):
            continue
        for fl in ("clocked", "clockless"):
            tasks.append(("seq", p, fl))
    for p in ret_programs(run.thorough):
        if uses_inner_conds_in_for(p):
            continue
        for fl in ("clocked", "clockless"):
            tasks.append(("ret", p, fl))
    for p in coro_programs(5 if run.thorough else 4):
        tasks.append(("coro", p, "coro"))
    for name in MISC:
        tasks.append(("misc", name, "misc"))
    run.count("programs_generated", len(tasks))
    for kind, res in pmap(work, list(chunked(tasks, 30))):
        if kind != "ok":
            run.tool_error(f"worker: {res[-500:]}")
            continue
        for k, prog, fl, r in res:
            ident = f"{k}/{fl}/{prog!r}"
            st = r["status"]
            run.count("programs_" + st)
            if st == "tool":
                run.tool_error(f"{ident}: {r['what']}")
                continue
            if r["must"]:
                run.count("use_not_dominated")
            if st == "rejected":
                if not r["must"]:
                    run.count("rejected_although_defined_on_all_paths")
                continue
            run.count("evaluations", r["evals"])
            if r["must"]:
                run.violation(f"{ident}/accepted", f"{ident}: accepted although the value is used without a definition on a feasible path "
                                                   f"(e.g. inputs {r['witness']})", {"kind": k, "program": prog, "flavour": fl, "cohdl_source": r["src"]})
            for rule in sorted({p[0] for p in r["problems"]}):
                msg = next(p[1] for p in r["problems"] if p[0] == rule)
                run.violation(f"{ident}/{rule}", f"{ident}: [{rule}] {msg}", {"kind": k, "program": prog, "flavour": fl, "cohdl_source": r["src"]})
            if not r["must"] and not r["problems"]:
                run.count("accepted_clean")
                if len(run.samples) < 5:
                    run.sample({"program": repr(prog), "flavour": fl, "evaluations": r["evals"]})
    if run.counters.get("accepted_clean", 0) < 30 or run.counters.get("use_not_dominated", 0) < 30:
        run.tool_error("vacuous: too few accepted programs or too few programs with a non-dominated use")
    run.assume("POISON instrumentation of vsim: all process variables declared without initial value are compiler intermediates")
    run.coverage_extra.update(
        distinct_nontrivial=run.counters.get("accepted_clean", 0) + run.counters.get("use_not_dominated", 0),
        exhaustive=True,
        rule="all programs of the control-flow grammar (if / if-else / elif / match with and without default / for-break / for-else, "
             "nesting 1 (thorough 2), definition before/inside, use inside/after) in clocked and clockless sequential contexts x all 128 "
             "input valuations; coroutine D/U/await sequences up to length 4 (5) x all reachable states x all inputs",
    )
    run.counters.setdefault("evaluations", 0)


def replay(run: Run, data):
    prog = totuple(data["program"]) if data["kind"] != "misc" else data["program"]
    if data["kind"] == "misc":
        r = analyse_misc(data["program"])
    elif data["kind"] in ("seq", "ret"):
        r = analyse(prog, data["flavour"], ret=data["kind"] == "ret")
    else:
        r = analyse_coro(prog)
    print(r.get("status"), r.get("must"), r.get("problems"))
    return not (r["status"] == "accepted" and (r["must"] or r["problems"]))


def totuple(x):
    if isinstance(x, list):
        return tuple(totuple(y) for y in x)
    return x

"""C04  Reset returns every context to its power-up behaviour from any state.

The C01 (coroutine) and C03 (synchronous body) program families are wrapped with every reset flavour
(sync/async x active-high/low), with objects of the four kinds (default; no default; noreset; variable with
default) and an optional on_reset action.  The environment may assert reset at any clock for any duration and,
for asynchronous resets, also pulse reset between clock edges.  Explicit-state product BFS therefore visits every
reachable (state, reset) pair; the reference models reset as "resettable objects := default, coroutine := first
state, on_reset effects applied, nothing else runs", so agreement in all futures after release is exactly
"behaves as after power-up".
"""
from __future__ import annotations

import itertools

from ..cohdl_util import compile_source
from ..core import Run, pmap, chunked
from ..gen import coro, seqbody
from ..mc.explorer import bfs
from ..vhdl.elab import compile_design, from_raw
from ..vhdl import rt
from ..vhdl.parser import VhdlSyntaxError
from .coro_common import CoroSystem
from .seq_common import SeqSystem

LEVEL = "model_checking"

FLAVOURS = [dict(is_async=a, active_low=l, step_cond=False) for a in (False, True) for l in (False, True)]
# step_cond gates the body like a clock enable; reset must still act at every active edge / instant
FLAVOURS += [dict(is_async=False, active_low=False, step_cond=True), dict(is_async=True, active_low=True, step_cond=True)]
# process created from `ctx.with_params(step_cond=...)` of a base context that carries the reset and the on_reset actions
FLAVOURS += [dict(is_async=False, active_low=False, step_cond=True, with_params=True), dict(is_async=True, active_low=False, step_cond=True, with_params=True)]
# coroutine processes WITHOUT any pushed signal (the reset wrapper has no reset_pushed part then)
FLAVOURS += [dict(is_async=False, active_low=False, step_cond=False, nopush=True), dict(is_async=True, active_low=True, step_cond=False, nopush=True)]


class ResetMixin:
    """events: ('C', inputs, r)  clock edge with reset level r (1 = active);  ('R', inputs) async reset pulse between edges"""

    def init_reset(self, inputs):
        rs = self.reset
        ens = (1, 0) if rs.get("step_cond") else (1,)
        self.menu = [("C", i, r, en) for i in inputs for r in (0, 1) for en in ens]
        if rs["is_async"]:
            self.menu += [("R", i) for i in inputs[:2]]
        self.sid_en_ = self.sim.ports["en"][0] if rs.get("step_cond") else None

    def set_rst(self, active):
        self.sim.N[self.sid_rst_] = self.rst_on if active else 1 - self.rst_on

    def apply(self, ev):
        sim = self.sim
        is_async = self.reset["is_async"]
        inp = ev[1]
        self.drive_inputs(inp)
        if ev[0] == "R":
            self.set_rst(True)
            sim.settle()
            self.ref.do_reset()
            m = self.compare_all(inp, "during asynchronous reset pulse")
            if m:
                return m
            self.set_rst(False)
            sim.settle()
            return self.compare_all(inp, "after asynchronous reset pulse")
        r = ev[2]
        en = ev[3]
        if self.sid_en_ is not None:
            sim.N[self.sid_en_] = en
        self.set_rst(bool(r))
        sim.settle()
        if r and is_async:
            self.ref.do_reset()
            m = self.compare_all(inp, "asynchronous reset asserted (before the clock edge)")
            if m:
                return m
        sim.N[self.sid_clk_] = 1
        sim.settle()
        sim.N[self.sid_clk_] = 0
        sim.settle()
        if r:
            self.ref.do_reset()
        elif en:
            self.ref.step(inp)
        if sim.A:
            a = sim.A[0]
            del sim.A[:]
            return f"VHDL assertion fired: {a}"
        if sim.PR:
            return f"intermediate variable read before written: {sim.poisoned_reads()}"
        return self.compare_all(inp, f"after clock with reset {'active' if r else 'inactive'}")


class ResetCoro(ResetMixin, CoroSystem):
    def __init__(self, sim, ref, reset):
        CoroSystem.__init__(self, sim, ref, reset)
        self.sid_rst_ = sim.ports["rst"][0]
        self.sid_clk_ = self.sid_clk
        self.init_reset([(0, 0), (1, 0), (0, 1), (1, 1)])

    def drive_inputs(self, inp):
        self.sim.N[self.sid_i0] = inp[0]
        self.sim.N[self.sid_i1] = inp[1]

    def compare_all(self, inp, when):
        m = self.compare(self.ref.outputs())
        return f"{when}: {m}" if m else None


class ResetSeq(ResetMixin, SeqSystem):
    def __init__(self, sim, ref, reset):
        SeqSystem.__init__(self, sim, ref, reset)
        self.sid_rst_ = self.sid["rst"]
        self.sid_clk_ = self.sid["clk"]
        self.init_reset([(a, b, c) for a in range(4) for b in range(2) for c in range(2)])

    def drive_inputs(self, inp):
        N = self.sim.N
        N[self.sid["a"]] = (inp[0], 0)
        N[self.sid["b"]] = (inp[1], 0)
        N[self.sid["c"]] = inp[2]

    def compare_all(self, inp, when):
        exp = self.ref.regs()
        exp.update(self.ref.comb(inp))
        return self.cmp(exp, when)


def make_system(kind, d, prog, flat, flavour, on_reset):
    """inputs (incl. an inactive reset) are driven from time 0: an undefined reset input at power-up is not part of the property"""
    rst_off = 1 if flavour["active_low"] else 0
    if kind == "coro":
        sim = d.sim(init=dict(clk=0, rst=rst_off, i0=0, i1=0, **({"en": 1} if flavour.get("step_cond") else {})))
        return ResetCoro(sim, coro.RefMachine(flat, c04=True, on_reset=on_reset, nopush=bool(flavour.get('nopush'))), flavour)
    sim = d.sim(init=dict(clk=0, rst=rst_off, a=0, b=0, c=0, **({"en": 1} if flavour.get("step_cond") else {})))
    return ResetSeq(sim, seqbody.Ref(prog, c04=True, on_reset=on_reset), flavour)


def check(kind, prog, flavour, on_reset, max_states=300000):
    if kind == "coro":
        src, flat = coro.render(prog, flavour, c04=True, on_reset=on_reset)
    else:
        src = seqbody.render(prog, flavour, c04=True, on_reset=on_reset)
    res, _ = compile_source(src)
    if not res.ok:
        return {"status": "rejected", "error": res.error}
    try:
        d = compile_design(res.vhdl, poison=True, poison_exclude=("v",))
    except VhdlSyntaxError as e:
        return {"status": "violation", "what": f"emitted VHDL does not parse: {e}", "trace": None, "src": src}
    try:
        system = make_system(kind, d, prog, flat if kind == "coro" else None, flavour, on_reset)
        r = bfs(system, max_states=max_states)
    except coro.ZeroTimeLoop:
        return {"status": "zero_time"}
    except rt.SimError as e:
        return {"status": "violation", "what": f"simulation error: {e}", "trace": None, "src": src}
    out = dict(status="ok", states=r.states, transitions=r.transitions, depth=r.depth, exhausted=r.exhausted, observations=len(r.observations))
    if r.violation is not None:
        out.update(status="violation", what=r.violation, trace=r.trace, src=src)
    return out


def replay_one(kind, prog, flavour, on_reset, trace):
    if kind == "coro":
        src, flat = coro.render(prog, flavour, c04=True, on_reset=on_reset)
    else:
        src = seqbody.render(prog, flavour, c04=True, on_reset=on_reset)
    res, _ = compile_source(src)
    if not res.ok:
        return None
    d = compile_design(res.vhdl, poison=True, poison_exclude=("v",))
    system = make_system(kind, d, prog, flat if kind == "coro" else None, flavour, on_reset)
    for ev in trace:
        msg = system.apply(totuple(ev))
        if msg is not None:
            return msg
    return None


def totuple(x):
    return tuple(totuple(y) for y in x) if isinstance(x, list) else x


def work(tasks):
    out = []
    for kind, prog, fi, on_reset in tasks:
        r = check(kind, prog, FLAVOURS[fi], on_reset)
        r.update(kind=kind, prog=prog, fi=fi, on_reset=on_reset)
        out.append(r)
    return out


def family(run):
    cprogs = [p for s in ((1, 2, 3) if run.thorough else (1, 2)) for p in coro.programs(s)]
    sprogs = [p for s in ((1, 2, 3) if run.thorough else (1, 2)) for p in seqbody.programs(s)]
    if not run.thorough:
        # the bool-snapshot / nested-return fragments (C03 material) take part alone, not in combinations
        sprogs = [p for p in sprogs if len(p) == 1 or not any(st[0] in ("B1", "B2", "N1", "N2", "N3", "N4", "MD1", "MD2", "LS1", "LS2", "LS3", "LS4", "RP1", "RP2", "VC1", "VC2") for st in p)]
    if not run.thorough:
        extra = list(coro.programs(3))
        run.rng.shuffle(extra)
        cprogs += extra[:40]
        extra = list(seqbody.programs(3))
        run.rng.shuffle(extra)
        sprogs += extra[:30]
    for fi in range(len(FLAVOURS)):
        if fi >= 4:
            # step_cond / with_params flavours: size-1 programs + every 6th size-2 program (thorough: all of size <= 2)
            cp = [p for p in cprogs if len(p) == 1 and not isinstance(p[0][-1], tuple)] + \
                 [p for k, p in enumerate(cprogs) if len(repr(p)) < 60 and (run.thorough or k % 6 == 0)]
            sp = [p for p in sprogs if len(p) == 1 and len(repr(p)) < 22] + \
                 [p for k, p in enumerate(sprogs) if len(repr(p)) < 40 and (run.thorough or k % 6 == 0)]
            cp = list(dict.fromkeys(cp))
            sp = list(dict.fromkeys(sp))
            for p in cp:
                yield ("coro", p, fi, (len(repr(p)) + fi) % 2 == 0)
            for p in sp:
                if not FLAVOURS[fi].get("nopush"):
                    yield ("seq", p, fi, (len(repr(p)) + fi) % 2 == 0)
            continue
        for p in cprogs:
            yield ("coro", p, fi, (len(repr(p)) + fi) % 2 == 0)
        for p in sprogs:
            yield ("seq", p, fi, (len(repr(p)) + fi) % 2 == 0)


# ---------------------------------------------------------------------------
# derived resets (ctx.or_reset / ctx.and_reset) and clock/reset taken from elements of one vector
# ---------------------------------------------------------------------------
DERIVED_SRC = """from cohdl import std, Entity, Port, Bit, BitVector, Unsigned, Signal
import cohdl

class T(Entity):
    ctrl = Port.input(BitVector[3])
    clk = Port.input(Bit)
    rst = Port.input(Bit)
    cond = Port.input(Bit)
    q = Port.output(Unsigned[2], default=0)
    def architecture(self):
        base = std.SequentialContext({clk}{parent})
        ctx = {derive}
        @ctx
        def proc():
            self.q <<= self.q + 1
"""


HIER_SRC = """from cohdl import std, Entity, Port, Bit, BitVector, Unsigned, Signal
import cohdl

class Sub(Entity):
    x = Port.input(Unsigned[2])
    y = Port.output(Unsigned[2])
    def architecture(self):
        @std.concurrent
        def logic():
            self.y <<= self.x

class T(Entity):
    ctrl = Port.input(BitVector[3])
    clk = Port.input(Bit)
    rst = Port.input(Bit)
    cond = Port.input(Bit)
    q = Port.output(Unsigned[2])
    def architecture(self):
        # a parent signal with a default that is connected to an INPUT port of a sub-entity keeps its default
        reg = Signal[Unsigned[2]](1, name="reg")
        Sub(x=reg, y=self.q)
        @std.sequential(std.Clock(self.clk){parent})
        def proc():
            nonlocal reg
            reg <<= reg + 1
"""


def derived_designs():
    """(name, source, spec) ; spec = dict(parent=None|(is_async, active_low), op=None|'or'|'and', al, asy, vec)"""
    out = []
    parents = [None] + [(a, l) for a in (False, True) for l in (False, True)]
    for vec in (False, True):
        clk = "std.Clock(self.ctrl[0])" if vec else "std.Clock(self.clk)"
        rsig = "self.ctrl[2]" if vec else "self.rst"
        for par in parents:
            ptxt = "" if par is None else f", std.Reset({rsig}, is_async={par[0]}, active_low={par[1]})"
            if par is not None and not vec:
                out.append((f"derived/hier-input-default/parent={par}", HIER_SRC.format(parent=ptxt),
                            dict(parent=par, op=None, al=False, asy=None, vec=False, dflt=1)))
            if par is not None and not vec:
                # the reset of the context is obtained from another Reset object queried in either polarity
                for q in ("active_high_signal", "active_low_signal"):
                    wrapped = f", std.Reset(std.Reset({rsig}, active_low={par[1]}).{q}(), is_async={par[0]}, active_low={q == 'active_low_signal'})"
                    out.append((f"derived/sep/parent={par}/requery/{q}", DERIVED_SRC.format(clk=clk, parent=wrapped, derive="base"),
                                dict(parent=par, op=None, al=False, asy=None, vec=False)))
            ops = [None] if vec else [None, "or", "and"]
            for op in ops:
                if op is None:
                    if par is None:
                        continue
                    out.append((f"derived/{'vec' if vec else 'sep'}/parent={par}/plain", DERIVED_SRC.format(clk=clk, parent=ptxt, derive="base"),
                                dict(parent=par, op=None, al=False, asy=None, vec=vec)))
                    continue
                for al in (False, True):
                    for asy in (None, False, True):
                        kw = f"self.cond, active_low={al}" + ("" if asy is None else f", is_async={asy}")
                        out.append((f"derived/sep/parent={par}/{op}_reset/active_low={al}/is_async={asy}",
                                    DERIVED_SRC.format(clk=clk, parent=ptxt, derive=f"base.{op}_reset({kw})"),
                                    dict(parent=par, op=op, al=al, asy=asy, vec=vec)))
    return out


def derived_expect(spec, rst, cond):
    """-> (reset active?, asynchronous?) of the process for the given input levels"""
    par = spec["parent"]
    p_act = None if par is None else (rst == (0 if par[1] else 1))
    if spec["op"] is None:
        return p_act, par[0]
    c_act = cond == (0 if spec["al"] else 1)
    if par is None:
        act = c_act
        asy = bool(spec["asy"])
    else:
        act = (p_act or c_act) if spec["op"] == "or" else (p_act and c_act)
        asy = par[0] if spec["asy"] is None else spec["asy"]
    return act, asy


def work_derived(idx):
    name, src, spec = derived_designs()[idx]
    res, _ = compile_source(src)
    if not res.ok:
        return {"name": name, "status": "rejected", "error": res.error}
    try:
        d = compile_design(res.vhdl)
    except VhdlSyntaxError as e:
        return {"name": name, "status": "violation", "what": f"emitted VHDL does not parse: {e}", "src": src}
    bad = [f for f in d.findings if f.rule == "sensitivity"]
    if bad:
        return {"name": name, "status": "violation", "src": src,
                "what": f"process is not sensitive to its asynchronous reset (reset cannot act at any instant): {bad[0].msg}"}
    if d.findings:
        return {"name": name, "status": "violation", "what": f"emitted VHDL is not legal: {d.findings[0]!r}", "src": src}
    vec = spec["vec"]

    def drive(sim, clk, rst, cond):
        if vec:
            sim.set_many({"ctrl": clk | (rst << 2), "cond": cond, "clk": 0, "rst": 0})
        else:
            sim.set_many({"clk": clk, "rst": rst, "cond": cond, "ctrl": 0})
        sim.settle()

    # exhaustive product exploration: state = (simulator snapshot, reference q, rst, cond); events: toggle ONE of the inputs
    # between edges ('R' / 'K'; single-input changes, so that no glitch of the combined reset is provoked by the harness) or
    # apply a rising clock edge ('C')
    inactive = [(r, c) for r in (0, 1) for c in (0, 1) if not derived_expect(spec, r, c)[0]]
    r0, c0 = inactive[0] if inactive else (0, 0)
    sim = d.sim(init=dict(clk=0, rst=0 if vec else r0, cond=c0, ctrl=(r0 << 2) if vec else 0))
    drive(sim, 0, r0, c0)
    dflt = spec.get("dflt", 0)
    q0 = sim.get("q")
    if q0 != dflt:
        return {"name": name, "status": "violation", "src": src, "what": f"power-up value of q is {q0}, expected the default {dflt}"}
    start = (sim.snapshot(), dflt, r0, c0)
    seen = {start}
    frontier = [(start, [])]
    transitions = 0
    while frontier:
        (snap, qref, rst0, cond0), hist = frontier.pop()
        for ev in ("R", "K", "C"):
            sim.restore(snap)
            q, rst, cond = qref, rst0, cond0
            if ev == "R":
                rst ^= 1
            elif ev == "K":
                cond ^= 1
            act, asy = derived_expect(spec, rst, cond)
            drive(sim, 0, rst, cond)
            if act and asy:
                q = dflt
            if ev == "C":
                drive(sim, 1, rst, cond)
                q = dflt if act else (q + 1) & 3
                drive(sim, 0, rst, cond)
            got = sim.get("q")
            transitions += 1
            if got != q:
                return {"name": name, "status": "violation", "src": src, "states": len(seen), "transitions": transitions,
                        "what": f"after {hist + [ev]} (rst={rst}, cond={cond}): q={got}, expected {q} (reset active={act}, async={asy})"}
            st = (sim.snapshot(), q, rst, cond)
            if st not in seen:
                seen.add(st)
                frontier.append((st, hist + [ev]))
    return {"name": name, "status": "ok", "states": len(seen), "transitions": transitions}


EXEC_SRC = """from cohdl import std, Entity, Port, Bit, BitVector, Unsigned, Signal
import cohdl

class T(Entity):
    clk = Port.input(Bit)
    rst = Port.input(Bit)
    start = Port.input(Bit)
    a = Port.input(Unsigned[2])
    res = Port.output(Unsigned[2], default=3)
    busy = Port.output(Bit, default=False)
    def architecture(self):
        ctx = std.SequentialContext(std.Clock(self.clk), std.Reset(self.rst, is_async={a}, active_low={l}))
        arg = Signal[Unsigned[2]](0, name="exec_arg")
        result = Signal[Unsigned[2]](1, name="exec_result")
        async def work(x):
            await std.tick()
            await std.tick()
            return x + 1
        executor = std.Executor.{maker}(ctx, work, result, arg)
        @ctx{deco}
        async def main():
            await self.start
            self.busy <<= True
            self.res <<= await executor.exec(self.a)
            self.busy <<= False
"""


REC_SRC = """from __future__ import annotations
from cohdl import std, Entity, Port, Bit, BitVector, Unsigned, Signal
import cohdl

class Inner(std.Record):
    y: Unsigned[2]
    z: Bit

class Mid(std.Record):
    w: Unsigned[2]
    inner: Inner

class Outer(std.Record):
    x: Unsigned[2]
    mid: Mid

class T(Entity):
    clk = Port.input(Bit)
    rst = Port.input(Bit)
    ld = Port.input(Bit)
    a = Port.input(Unsigned[2])
    ox = Port.output(Unsigned[2])
    ow = Port.output(Unsigned[2])
    oy = Port.output(Unsigned[2])
    oz = Port.output(Bit)
    def architecture(self):
        r = {init}
        @std.concurrent
        def conc():
            self.ox <<= r.x
            self.ow <<= r.mid.w
            self.oy <<= r.mid.inner.y
            self.oz <<= r.mid.inner.z
        @std.sequential(std.Clock(self.clk), std.Reset(self.rst, is_async={a}, active_low={l}))
        def proc():
            if self.ld:
                r.x <<= self.a
                r.mid.w <<= self.a + 1
                r.mid.inner.y <<= ~self.a
                r.mid.inner.z <<= self.a[0]
"""

# how the record of signals gets its defaults -> value every member must take while reset is active
REC_INITS = [
    ("null", "std.Signal[Outer](cohdl.Null)", dict(ox=0, ow=0, oy=0, oz=0)),
    ("full", "std.Signal[Outer](cohdl.Full)", dict(ox=3, ow=3, oy=3, oz=1)),
    ("kwargs", "std.Signal[Outer](x=1, mid=Mid(w=2, inner=Inner(y=1, z=True)))", dict(ox=1, ow=2, oy=1, oz=1)),
    ("value", "std.Signal[Outer](Outer(x=2, mid=Mid(w=1, inner=Inner(y=2, z=False))))", dict(ox=2, ow=1, oy=2, oz=0)),
    ("kwargs-nested-full", "std.Signal[Outer](x=1, mid=cohdl.Full)", dict(ox=1, ow=3, oy=3, oz=1)),
    ("kwargs-inner-null", "std.Signal[Outer](x=2, mid=Mid(w=1, inner=cohdl.Null))", dict(ox=2, ow=1, oy=0, oz=0)),
]


def work_reset_equiv(task):
    """generic differential oracle for "after reset is released the context behaves exactly as after power-up": for every
    state s reachable from power-up, reset is applied in s and the pair (s after reset, power-up state) is explored under all
    inputs; the outputs of the two copies must agree in every reachable pair"""
    name, src, (a, l), inputs, outs = task[:5]
    expect = task[5] if len(task) > 5 else None
    res, _ = compile_source(src)
    if not res.ok:
        return {"name": name, "status": "rejected", "error": res.error}
    try:
        d = compile_design(res.vhdl)
    except VhdlSyntaxError as e:
        return {"name": name, "status": "violation", "what": f"emitted VHDL does not parse: {e}", "src": src}
    if d.findings:
        return {"name": name, "status": "violation", "what": f"emitted VHDL is not legal: {d.findings[0]!r}", "src": src}
    inact, act = (1, 0) if l else (0, 1)
    init = dict(clk=0, rst=inact)
    init.update(inputs[0])
    sa, sb = d.sim(init=init), d.sim(init=init)
    power = sa.snapshot()
    # 1. reachable states from power-up
    seen = {power: []}
    frontier = [power]
    while frontier:
        nxt = []
        for snap in frontier:
            for i, inp in enumerate(inputs):
                sa.restore(snap)
                sa.set_many(inp)
                sa.clock()
                s2 = sa.snapshot()
                if s2 not in seen:
                    seen[s2] = seen[snap] + [i]
                    nxt.append(s2)
        frontier = nxt
    # 2. reset in every reachable state, then product exploration against the power-up state
    pairs = set()
    transitions = 0
    for snap, hist in seen.items():
        sa.restore(snap)
        sa.set_many({"rst": act})
        sa.settle()
        if not a:
            sa.clock()
        if expect is not None:
            got = {k: sa.get(k) for k in expect}
            if got != expect:
                return {"name": name, "status": "violation", "src": src, "states": len(seen), "transitions": transitions,
                        "what": f"inputs {hist} then reset active: outputs {got}, the defaults are {expect}"}
        sa.set_many({"rst": inact})
        sa.settle()
        start = (sa.snapshot(), power)
        if start in pairs:
            continue
        pairs.add(start)
        frontier = [(start, [])]
        while frontier:
            (pa, pb), suffix = frontier.pop()
            for i, inp in enumerate(inputs):
                sa.restore(pa)
                sb.restore(pb)
                for s_ in (sa, sb):
                    s_.set_many(inp)
                    s_.clock()
                transitions += 1
                ga, gb = {k: sa.get(k) for k in outs}, {k: sb.get(k) for k in outs}
                if ga != gb:
                    return {"name": name, "status": "violation", "src": src, "states": len(pairs), "transitions": transitions,
                            "what": f"inputs {hist} then reset then {suffix + [i]}: outputs {ga}, from power-up the same inputs give {gb}"}
                nx = (sa.snapshot(), sb.snapshot())
                if nx not in pairs:
                    pairs.add(nx)
                    frontier.append((nx, suffix + [i]))
    return {"name": name, "status": "ok", "states": len(pairs) + len(seen), "transitions": transitions}


def reset_equiv_tasks():
    inputs = [dict(start=s_, a=v) for s_ in (0, 1) for v in (1, 2)]
    out = []
    for maker in ("make_parallel",):
        for fl in [(a, l) for a in (False, True) for l in (False, True)]:
            out.append((f"derived/executor/{maker}/{'async' if fl[0] else 'sync'}-{'low' if fl[1] else 'high'}",
                        EXEC_SRC.format(a=fl[0], l=fl[1], maker=maker, deco="" if maker == "make_parallel" else "(executors=[executor])"),
                        fl, inputs, ("res", "busy")))
    inputs = [dict(ld=s_, a=v) for s_ in (0, 1) for v in (0, 1, 2)]
    for iname, init, expect in REC_INITS:
        for fl in [(a, l) for a in (False, True) for l in (False, True)]:
            out.append((f"derived/nested-record/{iname}/{'async' if fl[0] else 'sync'}-{'low' if fl[1] else 'high'}",
                        REC_SRC.format(a=fl[0], l=fl[1], init=init), fl, inputs, tuple(expect), expect))
    return out


def derived_family(run: Run):
    tasks = reset_equiv_tasks()
    run.count("reset_equivalence_designs", len(tasks))
    for kind, r in pmap(work_reset_equiv, tasks):
        if kind != "ok":
            run.tool_error(f"reset-equivalence worker failed: {r[-500:]}")
            continue
        run.count("derived_" + r["status"])
        if r["status"] == "ok":
            run.count("states", r["states"])
            run.count("transitions", r["transitions"])
        elif r["status"] == "violation":
            run.violation(r["name"], f"{r['name']}: {r['what'][:300]}", {"kind": "derived-equiv", "name": r["name"], "cohdl_source": r.get("src")})
    n = len(derived_designs())
    run.count("derived_designs", n)
    for kind, r in pmap(work_derived, list(range(n))):
        if kind != "ok":
            run.tool_error(f"derived worker failed: {r[-500:]}")
            continue
        run.count("derived_" + r["status"])
        if r["status"] == "ok":
            run.count("states", r["states"])
            run.count("transitions", r["transitions"])
        elif r["status"] == "violation":
            run.violation(r["name"], f"{r['name']}: {r['what'][:300]}", {"kind": "derived", "name": r["name"], "cohdl_source": r.get("src")})
    if run.counters.get("derived_ok", 0) * 2 < n:
        run.tool_error(f"vacuous: only {run.counters.get('derived_ok', 0)} of {n} derived-reset designs accepted and clean")


def main(run: Run):
    if not run.only or "derived" in run.only:
        derived_family(run)
        if run.only:
            run.coverage_extra.update(exhaustive=True, evaluations=run.counters.get("transitions", 0), distinct_nontrivial=run.counters.get("derived_ok", 0))
            return
    tasks = list(family(run))
    run.count("designs_generated", len(tasks))
    sample_every = max(1, len(tasks) // 5)
    done = 0
    for kind, res in pmap(work, list(chunked(tasks, 20)), seed=run.seed):
        if kind != "ok":
            run.tool_error(f"worker failed: {res[-600:]}")
            continue
        for r in res:
            done += 1
            st = r["status"]
            run.count("designs_" + st)
            ident = f"{r['kind']}/{flavour_name(r['fi'])}/on_reset={r['on_reset']}/{r['prog']!r}"
            if st in ("ok", "violation"):
                run.count("states", r.get("states", 0))
                run.count("transitions", r.get("transitions", 0))
                run.cmax("max_depth", r.get("depth", 0))
                run.count("traces_validated_against_impl", r.get("states", 0))
                if r.get("observations", 0) > 1:
                    run.count("designs_with_distinct_outcomes")
                if st == "ok" and not r.get("exhausted", True):
                    run.capped = True
            if st == "ok" and done % sample_every == 0:
                run.sample({"design": ident, "states": r["states"], "transitions": r["transitions"]})
            if st == "violation":
                trace = r.get("trace")
                if trace is not None and replay_one(r["kind"], r["prog"], FLAVOURS[r["fi"]], r["on_reset"], trace) is None:
                    run.tool_error(f"replay did not reproduce for {ident}")
                    continue
                run.violation(ident, f"{ident}: {r['what'][:300]} trace={trace}",
                              {"kind": r["kind"], "abstract_program": r["prog"], "flavour": r["fi"], "on_reset": r["on_reset"],
                               "events": trace, "cohdl_source": r.get("src")})
    acc = run.counters.get("designs_ok", 0) + run.counters.get("designs_violation", 0)
    if acc * 2 < len(tasks):
        run.tool_error(f"vacuous: only {acc} of {len(tasks)} designs accepted")
    run.assume("reset is modelled at the instants the harness applies it: level changes between clock edges and at clock edges (single clock)")
    run.coverage_extra.update(
        exhaustive=not run.capped,
        rule="C01/C03 program families (size<=2 + seed-chosen size-3 stratum; thorough size<=3) x 4 reset flavours, objects with default / "
             "without default / noreset / variable, alternating on_reset action; per design all reachable (state, reset) pairs under every input "
             "valuation and reset level per clock plus asynchronous reset pulses between edges",
        evaluations=run.counters.get("transitions", 0),
        distinct_nontrivial=run.counters.get("designs_with_distinct_outcomes", 0),
    )


def flavour_name(fi):
    f = FLAVOURS[fi]
    return ("async" if f["is_async"] else "sync") + ("-low" if f["active_low"] else "-high") + ("-stepcond" if f.get("step_cond") else "") + \
        ("-withparams" if f.get("with_params") else "") + ("-nopush" if f.get("nopush") else "")


def replay(run: Run, data):
    if data.get("kind") == "derived-equiv":
        t = [t_ for t_ in reset_equiv_tasks() if t_[0] == data["name"]][0]
        r = work_reset_equiv(t)
        print(r.get("status"), r.get("what"))
        return r["status"] != "violation"
    if data.get("kind") == "derived":
        idx = [k for k, d_ in enumerate(derived_designs()) if d_[0] == data["name"]][0]
        r = work_derived(idx)
        print(r.get("status"), r.get("what"))
        return r["status"] != "violation"
    msg = replay_one(data["kind"], totuple(data["abstract_program"]), FLAVOURS[data["flavour"]], data["on_reset"], data["events"])
    if msg is not None:
        print("reproduced:", msg)
        return False
    return True

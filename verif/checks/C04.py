"""C04  Reset returns every context to its power-up behaviour from any state.

The C01 (coroutine) and C03 (synchronous body) program families are wrapped with every reset flavour
(sync/async x active-high/low), with objects of the four kinds (default; no default; noreset; variable with
default) and an optional on_reset action.  The environment may assert reset at any clock for any duration and,
for asynchronous resets, also pulse reset between clock edges.  Explicit-state product BFS therefore visits every
reachable (state, reset) pair; the reference models reset as "resettable objects := default, coroutine := first
state, on_reset effects applied, nothing else runs", so agreement in all futures after release is exactly
"behaves as after power-up".
"""
from __future__ import annotations

import itertools

from ..cohdl_util import compile_source
from ..core import Run, pmap, chunked
from ..gen import coro, seqbody
from ..mc.explorer import bfs
from ..vhdl.elab import compile_design, from_raw
from ..vhdl import rt
from ..vhdl.parser import VhdlSyntaxError
from .coro_common import CoroSystem
from .seq_common import SeqSystem

LEVEL = "model_checking"

FLAVOURS = [dict(is_async=a, active_low=l, step_cond=False) for a in (False, True) for l in (False, True)]
# step_cond gates the body like a clock enable; reset must still act at every active edge / instant
FLAVOURS += [dict(is_async=False, active_low=False, step_cond=True), dict(is_async=True, active_low=True, step_cond=True)]
# process created from `ctx.with_params(step_cond=...)` of a base context that carries the reset and the on_reset actions
FLAVOURS += [dict(is_async=False, active_low=False, step_cond=True, with_params=True), dict(is_async=True, active_low=False, step_cond=True, with_params=True)]


class ResetMixin:
    """events: ('C', inputs, r)  clock edge with reset level r (1 = active);  ('R', inputs) async reset pulse between edges"""

    def init_reset(self, inputs):
        rs = self.reset
        ens = (1, 0) if rs.get("step_cond") else (1,)
        self.menu = [("C", i, r, en) for i in inputs for r in (0, 1) for en in ens]
        if rs["is_async"]:
            self.menu += [("R", i) for i in inputs[:2]]
        self.sid_en_ = self.sim.ports["en"][0] if rs.get("step_cond") else None

    def set_rst(self, active):
        self.sim.N[self.sid_rst_] = self.rst_on if active else 1 - self.rst_on

    def apply(self, ev):
        sim = self.sim
        is_async = self.reset["is_async"]
        inp = ev[1]
        self.drive_inputs(inp)
        if ev[0] == "R":
            self.set_rst(True)
            sim.settle()
            self.ref.do_reset()
            m = self.compare_all(inp, "during asynchronous reset pulse")
            if m:
                return m
            self.set_rst(False)
            sim.settle()
            return self.compare_all(inp, "after asynchronous reset pulse")
        r = ev[2]
        en = ev[3]
        if self.sid_en_ is not None:
            sim.N[self.sid_en_] = en
        self.set_rst(bool(r))
        sim.settle()
        if r and is_async:
            self.ref.do_reset()
            m = self.compare_all(inp, "asynchronous reset asserted (before the clock edge)")
            if m:
                return m
        sim.N[self.sid_clk_] = 1
        sim.settle()
        sim.N[self.sid_clk_] = 0
        sim.settle()
        if r:
            self.ref.do_reset()
        elif en:
            self.ref.step(inp)
        if sim.A:
            a = sim.A[0]
            del sim.A[:]
            return f"VHDL assertion fired: {a}"
        if sim.PR:
            return f"intermediate variable read before written: {sim.poisoned_reads()}"
        return self.compare_all(inp, f"after clock with reset {'active' if r else 'inactive'}")


class ResetCoro(ResetMixin, CoroSystem):
    def __init__(self, sim, ref, reset):
        CoroSystem.__init__(self, sim, ref, reset)
        self.sid_rst_ = sim.ports["rst"][0]
        self.sid_clk_ = self.sid_clk
        self.init_reset([(0, 0), (1, 0), (0, 1), (1, 1)])

    def drive_inputs(self, inp):
        self.sim.N[self.sid_i0] = inp[0]
        self.sim.N[self.sid_i1] = inp[1]

    def compare_all(self, inp, when):
        m = self.compare(self.ref.outputs())
        return f"{when}: {m}" if m else None


class ResetSeq(ResetMixin, SeqSystem):
    def __init__(self, sim, ref, reset):
        SeqSystem.__init__(self, sim, ref, reset)
        self.sid_rst_ = self.sid["rst"]
        self.sid_clk_ = self.sid["clk"]
        self.init_reset([(a, b, c) for a in range(4) for b in range(2) for c in range(2)])

    def drive_inputs(self, inp):
        N = self.sim.N
        N[self.sid["a"]] = (inp[0], 0)
        N[self.sid["b"]] = (inp[1], 0)
        N[self.sid["c"]] = inp[2]

    def compare_all(self, inp, when):
        exp = self.ref.regs()
        exp.update(self.ref.comb(inp))
        return self.cmp(exp, when)


def make_system(kind, d, prog, flat, flavour, on_reset):
    """inputs (incl. an inactive reset) are driven from time 0: an undefined reset input at power-up is not part of the property"""
    rst_off = 1 if flavour["active_low"] else 0
    if kind == "coro":
        sim = d.sim(init=dict(clk=0, rst=rst_off, i0=0, i1=0, **({"en": 1} if flavour.get("step_cond") else {})))
        return ResetCoro(sim, coro.RefMachine(flat, c04=True, on_reset=on_reset), flavour)
    sim = d.sim(init=dict(clk=0, rst=rst_off, a=0, b=0, c=0, **({"en": 1} if flavour.get("step_cond") else {})))
    return ResetSeq(sim, seqbody.Ref(prog, c04=True, on_reset=on_reset), flavour)


def check(kind, prog, flavour, on_reset, max_states=300000):
    if kind == "coro":
        src, flat = coro.render(prog, flavour, c04=True, on_reset=on_reset)
    else:
        src = seqbody.render(prog, flavour, c04=True, on_reset=on_reset)
    res, _ = compile_source(src)
    if not res.ok:
        return {"status": "rejected", "error": res.error}
    try:
        d = compile_design(res.vhdl, poison=True, poison_exclude=("v",))
    except VhdlSyntaxError as e:
        return {"status": "violation", "what": f"emitted VHDL does not parse: {e}", "trace": None, "src": src}
    try:
        system = make_system(kind, d, prog, flat if kind == "coro" else None, flavour, on_reset)
        r = bfs(system, max_states=max_states)
    except coro.ZeroTimeLoop:
        return {"status": "zero_time"}
    except rt.SimError as e:
        return {"status": "violation", "what": f"simulation error: {e}", "trace": None, "src": src}
    out = dict(status="ok", states=r.states, transitions=r.transitions, depth=r.depth, exhausted=r.exhausted, observations=len(r.observations))
    if r.violation is not None:
        out.update(status="violation", what=r.violation, trace=r.trace, src=src)
    return out


def replay_one(kind, prog, flavour, on_reset, trace):
    if kind == "coro":
        src, flat = coro.render(prog, flavour, c04=True, on_reset=on_reset)
    else:
        src = seqbody.render(prog, flavour, c04=True, on_reset=on_reset)
    res, _ = compile_source(src)
    if not res.ok:
        return None
    d = compile_design(res.vhdl, poison=True, poison_exclude=("v",))
    system = make_system(kind, d, prog, flat if kind == "coro" else None, flavour, on_reset)
    for ev in trace:
        msg = system.apply(totuple(ev))
        if msg is not None:
            return msg
    return None


def totuple(x):
    return tuple(totuple(y) for y in x) if isinstance(x, list) else x


def work(tasks):
    out = []
    for kind, prog, fi, on_reset in tasks:
        r = check(kind, prog, FLAVOURS[fi], on_reset)
        r.update(kind=kind, prog=prog, fi=fi, on_reset=on_reset)
        out.append(r)
    return out


def family(run):
    cprogs = [p for s in ((1, 2, 3) if run.thorough else (1, 2)) for p in coro.programs(s)]
    sprogs = [p for s in ((1, 2, 3) if run.thorough else (1, 2)) for p in seqbody.programs(s)]
    if not run.thorough:
        extra = list(coro.programs(3))
        run.rng.shuffle(extra)
        cprogs += extra[:40]
        extra = list(seqbody.programs(3))
        run.rng.shuffle(extra)
        sprogs += extra[:30]
    for fi in range(len(FLAVOURS)):
        if fi >= 4:
            # step_cond / with_params flavours: size-1 programs + every 6th size-2 program (thorough: all of size <= 2)
            cp = [p for p in cprogs if len(p) == 1 and not isinstance(p[0][-1], tuple)] + \
                 [p for k, p in enumerate(cprogs) if len(repr(p)) < 60 and (run.thorough or k % 6 == 0)]
            sp = [p for p in sprogs if len(p) == 1 and len(repr(p)) < 22] + \
                 [p for k, p in enumerate(sprogs) if len(repr(p)) < 40 and (run.thorough or k % 6 == 0)]
            cp = list(dict.fromkeys(cp))
            sp = list(dict.fromkeys(sp))
            for p in cp:
                yield ("coro", p, fi, (len(repr(p)) + fi) % 2 == 0)
            for p in sp:
                yield ("seq", p, fi, (len(repr(p)) + fi) % 2 == 0)
            continue
        for p in cprogs:
            yield ("coro", p, fi, (len(repr(p)) + fi) % 2 == 0)
        for p in sprogs:
            yield ("seq", p, fi, (len(repr(p)) + fi) % 2 == 0)


def main(run: Run):
    tasks = list(family(run))
    run.count("designs_generated", len(tasks))
    sample_every = max(1, len(tasks) // 5)
    done = 0
    for kind, res in pmap(work, list(chunked(tasks, 20)), seed=run.seed):
        if kind != "ok":
            run.tool_error(f"worker failed: {res[-600:]}")
            continue
        for r in res:
            done += 1
            st = r["status"]
            run.count("designs_" + st)
            ident = f"{r['kind']}/{flavour_name(r['fi'])}/on_reset={r['on_reset']}/{r['prog']!r}"
            if st in ("ok", "violation"):
                run.count("states", r.get("states", 0))
                run.count("transitions", r.get("transitions", 0))
                run.cmax("max_depth", r.get("depth", 0))
                run.count("traces_validated_against_impl", r.get("states", 0))
                if r.get("observations", 0) > 1:
                    run.count("designs_with_distinct_outcomes")
                if st == "ok" and not r.get("exhausted", True):
                    run.capped = True
            if st == "ok" and done % sample_every == 0:
                run.sample({"design": ident, "states": r["states"], "transitions": r["transitions"]})
            if st == "violation":
                trace = r.get("trace")
                if trace is not None and replay_one(r["kind"], r["prog"], FLAVOURS[r["fi"]], r["on_reset"], trace) is None:
                    run.tool_error(f"replay did not reproduce for {ident}")
                    continue
                run.violation(ident, f"{ident}: {r['what'][:300]} trace={trace}",
                              {"kind": r["kind"], "abstract_program": r["prog"], "flavour": r["fi"], "on_reset": r["on_reset"],
                               "events": trace, "cohdl_source": r.get("src")})
    acc = run.counters.get("designs_ok", 0) + run.counters.get("designs_violation", 0)
    if acc * 2 < len(tasks):
        run.tool_error(f"vacuous: only {acc} of {len(tasks)} designs accepted")
    run.assume("reset is modelled at the instants the harness applies it: level changes between clock edges and at clock edges (single clock)")
    run.coverage_extra.update(
        exhaustive=not run.capped,
        rule="C01/C03 program families (size<=2 + seed-chosen size-3 stratum; thorough size<=3) x 4 reset flavours, objects with default / "
             "without default / noreset / variable, alternating on_reset action; per design all reachable (state, reset) pairs under every input "
             "valuation and reset level per clock plus asynchronous reset pulses between edges",
        evaluations=run.counters.get("transitions", 0),
        distinct_nontrivial=run.counters.get("designs_with_distinct_outcomes", 0),
    )


def flavour_name(fi):
    f = FLAVOURS[fi]
    return ("async" if f["is_async"] else "sync") + ("-low" if f["active_low"] else "-high") + ("-stepcond" if f.get("step_cond") else "") + \
        ("-withparams" if f.get("with_params") else "")


def replay(run: Run, data):
    msg = replay_one(data["kind"], totuple(data["abstract_program"]), FLAVOURS[data["flavour"]], data["on_reset"], data["events"])
    if msg is not None:
        print("reproduced:", msg)
        return False
    return True

"""C12  Instantiating an entity is equivalent to inlining it.

Bounded-exhaustive enumeration of instantiation trees: leaf templates {combinational xor, register, typed vector
leaf, 2-state coroutine} x topologies {single, same template twice on bit actuals, chain through an internal
signal, depth-2 nesting, instance created inside a concurrent context, typed views / slices as actuals,
std.OpenEntity / std.ConnectedEntity}.  Every tree is rendered twice from one description: hierarchical
(Entity instances) and flat (the leaf's logic function called on the same actuals).
Oracle
  (i)  explicit-state product BFS of (hierarchical design || flat design) under all inputs per clock: all outputs equal in
       every reachable state;
  (ii) structure, from vfront's view of the emitted text: the top entity's port list equals the declared ports (name,
       direction, type, order); each formal is associated exactly once with the actual named in the source; one emitted
       entity per template; sub-entities precede their users in to_string and in the to_dir file list.
"""
from __future__ import annotations

import itertools
import os
import shutil
import tempfile

from ..cohdl_util import compile_source, load_module, unload_module, compile_entity
from ..core import Run, pmap, chunked
from ..mc.explorer import bfs
from ..vhdl import parser as P
from ..vhdl.elab import compile_design, from_raw, Design
from ..vhdl import rt
from ..vhdl.parser import Unsupported, VhdlSyntaxError

LEVEL = "model_checking"

HDR = """from cohdl import std, Entity, Port, Bit, BitVector, Unsigned, Signal, Variable
import cohdl

def leaf_xor(a, b, y):
    @std.concurrent
    def logic():
        y.next = a ^ b

def leaf_reg(clk, d, q):
    @std.sequential(std.Clock(clk))
    def proc():
        q.next = d

def leaf_vec(x, u, yv, ys):
    @std.concurrent
    def logic():
        yv.next = x ^ u.bitvector
        ys.next = u.resize(3) + 1

def leaf_io(d, io, q):
    @std.concurrent
    def logic():
        q.next = d ^ io

def leaf_iovec(iov, y):
    @std.concurrent
    def logic():
        y.next = iov + 1

def leaf_fsm(clk, go, pulse, cnt):
    @std.sequential(std.Clock(clk))
    async def proc():
        await go
        pulse.push = True
        cnt.next = cnt + 1
        await cohdl.true

class LeafXor(Entity):
    a = Port.input(Bit)
    b = Port.input(Bit)
    y = Port.output(Bit)
    def architecture(self):
        leaf_xor(self.a, self.b, self.y)

class LeafReg(Entity):
    clk = Port.input(Bit)
    d = Port.input(Bit)
    q = Port.output(Bit, default=False)
    def architecture(self):
        leaf_reg(self.clk, self.d, self.q)

class LeafVec(Entity):
    x = Port.input(BitVector[2])
    u = Port.input(Unsigned[2])
    yv = Port.output(BitVector[2])
    ys = Port.output(Unsigned[3])
    def architecture(self):
        leaf_vec(self.x, self.u, self.yv, self.ys)

class LeafIo(Entity):
    d = Port.input(Bit)
    io = Port.inout(Bit)
    q = Port.output(Bit)
    def architecture(self):
        leaf_io(self.d, self.io, self.q)

class LeafIoVec(Entity):
    iov = Port.inout(Unsigned[2])
    y = Port.output(Unsigned[2])
    def architecture(self):
        leaf_iovec(self.iov, self.y)

class LeafFsm(Entity):
    clk = Port.input(Bit)
    go = Port.input(Bit)
    pulse = Port.output(Bit, default=False)
    cnt = Port.output(Unsigned[2], default=0)
    def architecture(self):
        leaf_fsm(self.clk, self.go, self.pulse, self.cnt)

def mid_logic(clk, a, b, y, z, hier):
    t = Signal[Bit](False, name="mid_t")
    if hier:
        LeafXor(a=a, b=b, y=t)
        LeafReg(clk=clk, d=t, q=y)
    else:
        leaf_xor(a, b, t)
        leaf_reg(clk, t, y)
    @std.concurrent
    def mid_conc():
        z.next = t & a

def mid_inline_logic(a, b, y, hier):
    if hier:
        @std.concurrent
        def mid_inline():
            LeafXor(a=a, b=b, y=y)
    else:
        leaf_xor(a, b, y)

class MidInline(Entity):
    a = Port.input(Bit)
    b = Port.input(Bit)
    y = Port.output(Bit)
    def architecture(self):
        mid_inline_logic(self.a, self.b, self.y, True)

class Mid(Entity):
    clk = Port.input(Bit)
    a = Port.input(Bit)
    b = Port.input(Bit)
    y = Port.output(Bit, default=False)
    z = Port.output(Bit)
    def architecture(self):
        mid_logic(self.clk, self.a, self.b, self.y, self.z, True)
"""

TOP_PORTS = [("clk", "in", "Bit"), ("i", "in", "BitVector[4]"), ("j", "in", "Unsigned[2]"), ("io", "inout", "Bit"), ("iov", "inout", "BitVector[2]"),
             ("o", "out", "BitVector[4]"),
             ("ou", "out", "Unsigned[3]"), ("oc", "out", "Unsigned[2]"), ("ob", "out", "Bit")]
TOP_DECL = """
class T(Entity):
    clk = Port.input(Bit)
    i = Port.input(BitVector[4])
    j = Port.input(Unsigned[2])
    io = Port.inout(Bit)
    iov = Port.inout(BitVector[2])
    o = Port.output(BitVector[4], default="0000")
    ou = Port.output(Unsigned[3], default=0)
    oc = Port.output(Unsigned[2], default=0)
    ob = Port.output(Bit, default=False)
    def architecture(self):
"""

# topology -> list of body lines for hierarchical (H) and flat (F) rendering; {inst} placeholders:
#   INST(LeafX, leaf_x, dict formal->actual expr)
def inst(h, cls, fn, order, conn, helper=None, rev=False, korder=None):
    if h:
        args = ", ".join(f"{k}={conn[k]}" for k in (korder if korder is not None else reversed(order) if rev else order))
        if helper:
            return f"{helper}[{cls}]({args})"
        return f"{cls}({args})"
    return f"{fn}(" + ", ".join(conn[k] for k in order) + ")"


XOR = ("LeafXor", "leaf_xor", ["a", "b", "y"])
REG = ("LeafReg", "leaf_reg", ["clk", "d", "q"])
VEC = ("LeafVec", "leaf_vec", ["x", "u", "yv", "ys"])
FSM = ("LeafFsm", "leaf_fsm", ["clk", "go", "pulse", "cnt"])
IO = ("LeafIo", "leaf_io", ["d", "io", "q"])
IOV = ("LeafIoVec", "leaf_iovec", ["iov", "y"])


def designs():
    """yields (name, builder) ; builder(h) -> list of architecture body lines; plus expected port maps for h=True:
    list of (entity, {formal: actual_text}) in instantiation order"""
    D = []

    def add(name, fnbody, pm):
        D.append((name, fnbody, pm))

    # single instances, whole / bit / slice / view actuals
    for a, b, y in [("self.i[0]", "self.i[1]", "self.ob"), ("self.i[3]", "self.i[0]", "self.o[2]"), ("self.j[0]", "self.i[2]", "self.o[0]")]:
        add(f"single-xor/{a},{b}->{y}", lambda h, a=a, b=b, y=y: [inst(h, *XOR, dict(a=a, b=b, y=y))], [("leafxor", dict(a=a, b=b, y=y))])
    for d, q in [("self.i[0]", "self.ob"), ("self.i[2]", "self.o[3]")]:
        add(f"single-reg/{d}->{q}", lambda h, d=d, q=q: [inst(h, *REG, dict(clk="self.clk", d=d, q=q))], [("leafreg", dict(clk="self.clk", d=d, q=q))])
    for x, u, yv, ys in [("self.i[1:0]", "self.j", "self.o[1:0]", "self.ou"), ("self.i[3:2]", "self.i[1:0].unsigned", "self.o[3:2]", "self.ou"),
                         ("self.j.bitvector", "self.j", "self.o[2:1]", "self.ou"),
                         # typed views on output actuals (conversion on the formal side of the association)
                         ("self.i[1:0]", "self.j", "self.oc.bitvector", "self.ou"),
                         ("self.i[2:1]", "self.i[3:2].unsigned", "self.oc.bitvector", "self.o[2:0].unsigned")]:
        add(f"single-vec/{x},{u}->{yv}", lambda h, x=x, u=u, yv=yv, ys=ys: [inst(h, *VEC, dict(x=x, u=u, yv=yv, ys=ys))],
            [("leafvec", dict(x=x, u=u, yv=yv, ys=ys))])
    # inout ports: forwarded whole and through a typed view (conversion needed on both sides of the association)
    add("single-io", lambda h: [inst(h, *IO, dict(d="self.i[0]", io="self.io", q="self.ob"))], [("leafio", dict(d="self.i[0]", io="self.io", q="self.ob"))])
    add("single-iovec-view", lambda h: [inst(h, *IOV, dict(iov="self.iov.unsigned", y="self.oc"))],
        [("leafiovec", dict(iov="self.iov.unsigned", y="self.oc"))])
    add("io-twice", lambda h: SIG4 + [inst(h, *IO, dict(d="self.i[0]", io="self.io", q="t0")), inst(h, *IO, dict(d="self.i[1]", io="self.io", q="t1"))] + PUB2,
        [("leafio", dict(d="self.i[0]", io="self.io", q="t0")), ("leafio", dict(d="self.i[1]", io="self.io", q="t1"))])
    # an instance created inside a context of a NON-top entity (the instance belongs to that entity)
    add("inline-in-mid", lambda h: ["MidInline(a=self.i[0], b=self.i[1], y=self.ob)" if h else "mid_inline_logic(self.i[0], self.i[1], self.ob, False)"],
        [("midinline", dict(a="self.i[0]", b="self.i[1]", y="self.ob"))])
    add("inline-in-mid-twice", lambda h: SIG4 + (["MidInline(a=self.i[0], b=self.i[1], y=t0)", "MidInline(a=self.i[2], b=self.j[0], y=t1)"] if h else
                                                 ["mid_inline_logic(self.i[0], self.i[1], t0, False)", "mid_inline_logic(self.i[2], self.j[0], t1, False)"]) + PUB2,
        [("midinline", dict(a="self.i[0]", b="self.i[1]", y="t0")), ("midinline", dict(a="self.i[2]", b="self.j[0]", y="t1"))])
    add("leaf-below-two-parents", lambda h: SIG4 + (["MidInline(a=self.i[0], b=self.i[1], y=t0)", "Mid(clk=self.clk, a=self.i[2], b=self.i[3], y=t1, z=t2)",
                                                     "LeafXor(a=self.j[0], b=self.j[1], y=t3)"] if h else
                                                    ["mid_inline_logic(self.i[0], self.i[1], t0, False)", "mid_logic(self.clk, self.i[2], self.i[3], t1, t2, False)",
                                                     "leaf_xor(self.j[0], self.j[1], t3)"]) + PUB4,
        [("midinline", dict(a="self.i[0]", b="self.i[1]", y="t0")), ("mid", dict(clk="self.clk", a="self.i[2]", b="self.i[3]", y="t1", z="t2")),
         ("leafxor", dict(a="self.j[0]", b="self.j[1]", y="t3"))])
    add("single-fsm", lambda h: [inst(h, *FSM, dict(clk="self.clk", go="self.i[0]", pulse="self.ob", cnt="self.oc"))],
        [("leaffsm", dict(clk="self.clk", go="self.i[0]", pulse="self.ob", cnt="self.oc"))])
    # same template twice / four times on bit actuals (each instance drives its own signal: cohdl rejects two instances
    # driving different bits of one object, which the property allows)
    SIG4 = ["t0 = Signal[Bit](False, name='t0')", "t1 = Signal[Bit](False, name='t1')", "t2 = Signal[Bit](False, name='t2')",
            "t3 = Signal[Bit](False, name='t3')"]
    PUB4 = ["@std.concurrent", "def pub():", "    self.o <<= t3 @ t2 @ t1 @ t0"]
    PUB2 = ["@std.concurrent", "def pub():", "    self.o[1:0] <<= t1 @ t0"]
    add("twice-xor", lambda h: SIG4 + [inst(h, *XOR, dict(a="self.i[0]", b="self.i[1]", y="t0")),
                                       inst(h, *XOR, dict(a="self.i[2]", b="self.i[3]", y="t1"))] + PUB4,
        [("leafxor", dict(a="self.i[0]", b="self.i[1]", y="t0")), ("leafxor", dict(a="self.i[2]", b="self.i[3]", y="t1"))])
    add("twice-reg-swapped", lambda h: SIG4 + [inst(h, *REG, dict(clk="self.clk", d="self.i[1]", q="t0")),
                                               inst(h, *REG, dict(clk="self.clk", d="self.i[0]", q="t1"))] + PUB4,
        [("leafreg", dict(clk="self.clk", d="self.i[1]", q="t0")), ("leafreg", dict(clk="self.clk", d="self.i[0]", q="t1"))])
    add("four-xor", lambda h: SIG4 + [inst(h, *XOR, dict(a=f"self.i[{k}]", b=f"self.i[{(k + 1) % 4}]", y=f"t{3 - k}")) for k in range(4)] + PUB4,
        [("leafxor", dict(a=f"self.i[{k}]", b=f"self.i[{(k + 1) % 4}]", y=f"t{3 - k}")) for k in range(4)])
    add("twice-fsm", lambda h: ["c2 = Signal[Unsigned[2]](0, name='c2')", "p2 = Signal[Bit](False, name='p2')",
                                inst(h, *FSM, dict(clk="self.clk", go="self.i[0]", pulse="self.ob", cnt="self.oc")),
                                inst(h, *FSM, dict(clk="self.clk", go="self.i[1]", pulse="p2", cnt="c2")),
                                "@std.concurrent", "def pub():", "    self.o[1:0] <<= c2.bitvector", "    self.o[2] <<= p2"],
        [("leaffsm", dict(clk="self.clk", go="self.i[0]", pulse="self.ob", cnt="self.oc")), ("leaffsm", dict(clk="self.clk", go="self.i[1]", pulse="p2", cnt="c2"))])
    # chain through internal signals
    add("chain-xor-reg", lambda h: ["t = Signal[Bit](False, name='t')", inst(h, *XOR, dict(a="self.i[0]", b="self.i[1]", y="t")),
                                    inst(h, *REG, dict(clk="self.clk", d="t", q="self.ob"))],
        [("leafxor", dict(a="self.i[0]", b="self.i[1]", y="t")), ("leafreg", dict(clk="self.clk", d="t", q="self.ob"))])
    add("chain-reg-reg-vec", lambda h: ["w0 = Signal[Bit](False, name='w0')", "w1 = Signal[Bit](False, name='w1')",
                                        "w = Signal[BitVector[2]]('00', name='w')",
                                        inst(h, *REG, dict(clk="self.clk", d="self.i[0]", q="w0")),
                                        inst(h, *REG, dict(clk="self.clk", d="w0", q="w1")),
                                        "@std.concurrent", "def join():", "    w.next = w1 @ w0",
                                        inst(h, *VEC, dict(x="w", u="self.j", yv="self.o[1:0]", ys="self.ou"))],
        [("leafreg", dict(clk="self.clk", d="self.i[0]", q="w0")), ("leafreg", dict(clk="self.clk", d="w0", q="w1")),
         ("leafvec", dict(x="w", u="self.j", yv="self.o[1:0]", ys="self.ou"))])
    # depth 2
    add("nested-mid", lambda h: ["Mid(clk=self.clk, a=self.i[0], b=self.i[1], y=self.ob, z=self.o[0])" if h else
                                 "mid_logic(self.clk, self.i[0], self.i[1], self.ob, self.o[0], False)"],
        [("mid", dict(clk="self.clk", a="self.i[0]", b="self.i[1]", y="self.ob", z="self.o[0]"))])
    add("nested-mid-twice", lambda h: SIG4 + ["Mid(clk=self.clk, a=self.i[0], b=self.i[1], y=t3, z=t0)" if h else
                                              "mid_logic(self.clk, self.i[0], self.i[1], t3, t0, False)",
                                              "Mid(clk=self.clk, a=self.i[2], b=self.i[0], y=t2, z=t1)" if h else
                                              "mid_logic(self.clk, self.i[2], self.i[0], t2, t1, False)"] + PUB4,
        [("mid", dict(clk="self.clk", a="self.i[0]", b="self.i[1]", y="t3", z="t0")),
         ("mid", dict(clk="self.clk", a="self.i[2]", b="self.i[0]", y="t2", z="t1"))])
    # keyword arguments written in an order different from the port declaration order
    # keyword arguments permuted among ports of the same direction and type (associations are by name, not by position)
    add("keyword-order-permuted", lambda h: SIG4 + [inst(h, *XOR, dict(a="self.i[0]", b="self.i[1]", y="t0"), korder=["b", "a", "y"]),
                                                     inst(h, *REG, dict(clk="self.clk", d="self.i[2]", q="t1"), korder=["d", "clk", "q"]),
                                                     inst(h, *FSM, dict(clk="self.clk", go="self.i[3]", pulse="t2", cnt="self.oc"), korder=["go", "clk", "cnt", "pulse"]),
                                                     inst(h, *IO, dict(d="self.j[0]", io="self.io", q="t3"), korder=["io", "q", "d"])] + PUB4,
        [("leafxor", dict(a="self.i[0]", b="self.i[1]", y="t0")), ("leafreg", dict(clk="self.clk", d="self.i[2]", q="t1")),
         ("leaffsm", dict(clk="self.clk", go="self.i[3]", pulse="t2", cnt="self.oc")), ("leafio", dict(d="self.j[0]", io="self.io", q="t3"))])
    add("keyword-order-permuted-xor", lambda h: [inst(h, *XOR, dict(a="self.i[0]", b="self.i[1]", y="self.ob"), korder=["b", "a", "y"])],
        [("leafxor", dict(a="self.i[0]", b="self.i[1]", y="self.ob"))])
    add("keyword-order-permuted-reg", lambda h: [inst(h, *REG, dict(clk="self.clk", d="self.i[2]", q="self.ob"), korder=["d", "clk", "q"])],
        [("leafreg", dict(clk="self.clk", d="self.i[2]", q="self.ob"))])
    add("keyword-order-permuted-fsm", lambda h: [inst(h, *FSM, dict(clk="self.clk", go="self.i[3]", pulse="self.ob", cnt="self.oc"), korder=["go", "clk", "cnt", "pulse"])],
        [("leaffsm", dict(clk="self.clk", go="self.i[3]", pulse="self.ob", cnt="self.oc"))])
    add("keyword-order-reversed", lambda h: [inst(h, *VEC, dict(x="self.i[1:0]", u="self.j", yv="self.o[1:0]", ys="self.ou"), rev=True),
                                             inst(h, *REG, dict(clk="self.clk", d="self.i[2]", q="self.ob"), rev=True)],
        [("leafvec", dict(x="self.i[1:0]", u="self.j", yv="self.o[1:0]", ys="self.ou")), ("leafreg", dict(clk="self.clk", d="self.i[2]", q="self.ob"))])
    add("keyword-order-rotated-xor", lambda h: SIG4 + ["LeafXor(b=self.i[1], y=self.ob, a=self.i[0])" if h else "leaf_xor(self.i[0], self.i[1], self.ob)",
                                                       "Mid(z=t0, y=t1, b=self.i[3], a=self.i[2], clk=self.clk)" if h else
                                                       "mid_logic(self.clk, self.i[2], self.i[3], t1, t0, False)"] + PUB4,
        None)
    # the same template at two depths (directly and below Mid), found at the shallower depth first
    add("two-depths", lambda h: SIG4 + [inst(h, *XOR, dict(a="self.i[2]", b="self.i[3]", y="t1")),
                                        "Mid(clk=self.clk, a=self.i[0], b=self.i[1], y=t3, z=t0)" if h else
                                        "mid_logic(self.clk, self.i[0], self.i[1], t3, t0, False)"] + PUB4,
        [("leafxor", dict(a="self.i[2]", b="self.i[3]", y="t1")), ("mid", dict(clk="self.clk", a="self.i[0]", b="self.i[1]", y="t3", z="t0"))])
    # a registered parent signal WITH default (driven by a parent process) as whole-signal actual of a leaf input
    add("parent-register-as-input", lambda h: ["cnt = Signal[Unsigned[2]](1, name='cnt')", "w = Signal[BitVector[2]]('10', name='w')",
                                               "@std.sequential(std.Clock(self.clk))", "def count():", "    cnt.next = cnt + 1",
                                               "    w.next = self.i[1:0]",
                                               inst(h, *VEC, dict(x="w", u="cnt", yv="self.o[1:0]", ys="self.ou"))],
        [("leafvec", dict(x="w", u="cnt", yv="self.o[1:0]", ys="self.ou"))])
    # instance created inside a concurrent context
    add("inline-in-concurrent", lambda h: ["@std.concurrent", "def logic():",
                                           "    " + (inst(True, *XOR, dict(a="self.i[0]", b="self.i[1]", y="self.ob")) if h else "pass"),
                                           "    self.o[3] <<= self.i[3]"] + ([] if h else [inst(False, *XOR, dict(a="self.i[0]", b="self.i[1]", y="self.ob"))]),
        [("leafxor", dict(a="self.i[0]", b="self.i[1]", y="self.ob"))])
    # instance created inside a concurrent context whose actual is an expression result (an intermediate of that context)
    add("inline-expression-actual", lambda h: (["@std.concurrent", "def logic():", "    t = self.j + 1",
                                               "    LeafVec(x=self.i[1:0], u=t, yv=self.o[1:0], ys=self.ou)"] if h else
                                              ["tt = Signal[Unsigned[2]](name='tt')", "@std.concurrent", "def logic():", "    tt.next = self.j + 1",
                                               "leaf_vec(self.i[1:0], tt, self.o[1:0], self.ou)"]),
        None)
    # several ports fed by different bits / slices of ONE expression result (each actual needs its own connection)
    add("inline-expression-bits", lambda h: (["@std.concurrent", "def logic():", "    t = self.i[1:0] ^ self.i[3:2]",
                                              "    LeafXor(a=t[0], b=t[1], y=self.ob)"] if h else
                                             ["tt = Signal[BitVector[2]](name='tt')", "@std.concurrent", "def logic():", "    tt.next = self.i[1:0] ^ self.i[3:2]",
                                              "leaf_xor(tt[0], tt[1], self.ob)"]),
        None)
    add("inline-expression-bit-twice", lambda h: (["@std.concurrent", "def logic():", "    t = self.i[1:0] ^ self.i[3:2]",
                                                   "    LeafXor(a=t[1], b=t[1], y=self.ob)", "    self.o[0] <<= t[0]"] if h else
                                                  ["tt = Signal[BitVector[2]](name='tt')", "@std.concurrent", "def logic():", "    tt.next = self.i[1:0] ^ self.i[3:2]",
                                                   "    self.o[0] <<= tt[0]", "leaf_xor(tt[1], tt[1], self.ob)"]),
        None)
    add("inline-expression-slices", lambda h: (["@std.concurrent", "def logic():", "    t = self.i ^ (self.j.bitvector @ self.j.bitvector)",
                                                "    LeafVec(x=t[1:0], u=t[3:2].unsigned, yv=self.o[1:0], ys=self.ou)"] if h else
                                               ["tt = Signal[BitVector[4]](name='tt')", "@std.concurrent", "def logic():",
                                                "    tt.next = self.i ^ (self.j.bitvector @ self.j.bitvector)",
                                                "leaf_vec(tt[1:0], tt[3:2].unsigned, self.o[1:0], self.ou)"]),
        None)
    add("inline-two-instances-one-expression", lambda h: (["t0 = Signal[Bit](False, name='t0')", "t1 = Signal[Bit](False, name='t1')", "@std.concurrent", "def logic():",
                                                           "    t = self.i[1:0] ^ self.i[3:2]",
                                                           "    LeafXor(a=t[0], b=self.i[0], y=t0)", "    LeafXor(a=t[1], b=self.i[0], y=t1)",
                                                           "    self.o <<= t1 @ t0 @ t1 @ t0"] if h else
                                                          ["t0 = Signal[Bit](False, name='t0')", "t1 = Signal[Bit](False, name='t1')",
                                                           "tt = Signal[BitVector[2]](name='tt')", "@std.concurrent", "def logic():",
                                                           "    tt.next = self.i[1:0] ^ self.i[3:2]", "    self.o <<= t1 @ t0 @ t1 @ t0",
                                                           "leaf_xor(tt[0], self.i[0], t0)", "leaf_xor(tt[1], self.i[0], t1)"]),
        None)
    # helpers
    add("open-entity", lambda h: (["e = std.OpenEntity[LeafXor](a=self.i[0], b=self.i[1])",
                                   "@std.concurrent", "def pub():", "    self.ob <<= e.y"] if h else
                                  ["t = Signal[Bit](name='t')", "leaf_xor(self.i[0], self.i[1], t)", "@std.concurrent", "def pub():", "    self.ob <<= t"]),
        None)
    add("connected-entity", lambda h: (["e = std.ConnectedEntity[LeafReg](clk=self.clk)", "@std.concurrent", "def pub():", "    e.d <<= self.i[2]",
                                        "    self.ob <<= e.q"] if h else
                                       ["t = Signal[Bit](name='t')", "q = Signal[Bit](False, name='q')", "leaf_reg(self.clk, t, q)", "@std.concurrent",
                                        "def pub():", "    t.next = self.i[2]", "    self.ob <<= q"]),
        None)
    return D


def generated_designs():
    """all sequences of two leaf instances; the second may consume a single-bit output of the first (chains); every
    instance drives its own signals, a concurrent context publishes them on the ports"""
    bit_in = ["self.i[0]", "self.i[1]", "self.i[2]", "self.j[0]"]

    def frags(k, prev_bit):
        ins = bit_in + ([prev_bit] if prev_bit else [])
        for a in ins:
            for b in ins:
                yield ("xor", XOR, dict(a=a, b=b, y=f"t{k}"), f"t{k}")
        for d in ins:
            yield ("reg", REG, dict(clk="self.clk", d=d, q=f"t{k}"), f"t{k}")
            yield ("fsm", FSM, dict(clk="self.clk", go=d, pulse=f"t{k}", cnt=f"c{k}"), f"t{k}")
        for x in ("self.i[1:0]", "self.i[3:2]"):
            yield ("vec", VEC, dict(x=x, u="self.j", yv=f"yv{k}", ys=f"ys{k}"), None)

    out = []
    for f0 in frags(0, None):
        for f1 in frags(1, f0[3]):
            name = "gen/" + "+".join(f"{f[0]}({','.join(v for kk, v in f[2].items() if kk not in ('clk',))})" for f in (f0, f1))

            def builder(h, f0=f0, f1=f1):
                L = []
                for k, f in enumerate((f0, f1)):
                    L += [f"t{k} = Signal[Bit](False, name='t{k}')", f"c{k} = Signal[Unsigned[2]](0, name='c{k}')",
                          f"yv{k} = Signal[BitVector[2]]('00', name='yv{k}')", f"ys{k} = Signal[Unsigned[3]](0, name='ys{k}')"]
                for f in (f0, f1):
                    L.append(inst(h, *f[1], f[2]))
                L += ["@std.concurrent", "def pub():", "    self.o <<= yv1 @ t1 @ t0", "    self.ob <<= t0 ^ t1 ^ yv0[0] ^ yv0[1]",
                      "    self.ou <<= ys0 + ys1", "    self.oc <<= c0 + c1"]
                return L

            pm = [(f[1][0].lower(), f[2]) for f in (f0, f1)]
            out.append((name, builder, pm))
    return out


_ALL = None


def all_designs():
    global _ALL
    if _ALL is None:
        _ALL = designs() + generated_designs()
    return _ALL


def render(builder, h):
    lines = builder(h)
    return HDR + TOP_DECL + "".join("        " + l + "\n" for l in lines)


INPUTS = [(i, j) for i in range(16) for j in range(4)]
OUTS = ["o", "ou", "oc", "ob"]


class EqSystem:
    def __init__(self, sa, sb, uses_io=False):
        self.a, self.b = sa, sb
        for s in (sa, sb):
            s.set_many(dict(clk=0, i=0, j=0, io=0, iov=0))
        # designs that use the inout ports are explored with the environment driving them too (reduced i alphabet)
        self.menu = INPUTS if not uses_io else [(i, j, io, iov) for i in (0, 1, 2, 3) for j in (0, 3) for io in (0, 1) for iov in range(4)]

    def snapshot(self):
        return (self.a.snapshot(), self.b.snapshot())

    def restore(self, s):
        self.a.restore(s[0])
        self.b.restore(s[1])

    def choices(self):
        return self.menu

    def observe(self):
        return tuple(self.a.get_raw(n) for n in OUTS)

    def cmp(self, when):
        for n in OUTS:
            x, y = self.a.get_raw(n), self.b.get_raw(n)
            if x != y:
                return f"{when}: output {n}: hierarchical={self.a.get(n)} ({x}) flat={self.b.get(n)} ({y})"
        return None

    def apply(self, ch):
        for s in (self.a, self.b):
            s.set_many(dict(i=ch[0], j=ch[1]) if len(ch) == 2 else dict(i=ch[0], j=ch[1], io=ch[2], iov=ch[3]))
        m = self.cmp("after input change")
        if m:
            return m
        for s in (self.a, self.b):
            s.clock()
        return self.cmp("after clock")


TYPE_VHDL = {"Bit": ("sl",), "BitVector[4]": ("vec", "slv", 4), "Unsigned[2]": ("vec", "uns", 2), "Unsigned[3]": ("vec", "uns", 3)}


def norm_actual(text):
    """source actual text -> (root, path) as it must appear in the port map"""
    t = text.replace("self.", "")
    t = t.replace(".unsigned", "").replace(".bitvector", "")
    root = t.split("[")[0]
    path = t[len(root):]
    path = path.replace("[", "(").replace("]", ")").replace(":", " downto ")
    return root, path


def strip_conversion(node):
    """`T(name)` with T a vector type mark -> name (type conversions in association elements; their type-correctness
    is decided by vsim's port-map rule, the structure check only compares which object is connected)"""
    if isinstance(node, P.Apply) and isinstance(node.prefix, P.Name) and node.prefix.ident in ("unsigned", "signed", "std_logic_vector") \
            and len(node.args) == 1 and isinstance(node.args[0], (P.Name, P.Apply)):
        return node.args[0]
    return node


def actual_of(node):
    """AST of a port-map actual -> (root name without buffer_ prefix, path text)"""
    path = ""
    node = strip_conversion(node)
    while isinstance(node, P.Apply):
        a = node.args[0]
        if isinstance(a, P.RangeArg):
            path = f"({a.left.value} {a.dir} {a.right.value})" + path
        else:
            path = f"({a.value})" + path
        node = node.prefix
    name = node.ident
    if name.startswith("buffer_"):
        name = name[len("buffer_"):]
    return name, path


def structure_check(vhdl, expected_pm):
    problems = []
    units = P.parse(vhdl)
    ents = [u for u in units if isinstance(u, P.Entity)]
    archs = {u.entity: u for u in units if isinstance(u, P.Architecture)}
    names = [e.name for e in ents]
    if len(set(names)) != len(names):
        problems.append(("duplicate-entity", f"entities emitted more than once: {names}"))
    top = ents[-1]
    got = [(p.raw, p.mode) for p in top.ports]
    exp = [(n, m) for n, m, _ in TOP_PORTS]
    if got != exp:
        problems.append(("port-list", f"top entity ports {got} != declared {exp}"))
    # order: every instantiated entity must be declared before its user
    pos = {n: k for k, n in enumerate(names)}
    for e in ents:
        a = archs.get(e.name)
        if a is None:
            problems.append(("no-arch", e.name))
            continue
        for s in a.stmts:
            if isinstance(s, P.Instance):
                if s.entity not in pos:
                    problems.append(("missing-entity", f"{s.entity} instantiated by {e.name} is not emitted"))
                elif pos[s.entity] > pos[e.name]:
                    problems.append(("order", f"{s.entity} emitted after its user {e.name}"))
    if expected_pm is not None:
        a = archs[top.name]
        insts = [s for s in a.stmts if isinstance(s, P.Instance)]
        if len(insts) != len(expected_pm):
            problems.append(("instances", f"{len(insts)} instances emitted, {len(expected_pm)} in the source"))
        else:
            # instances may be emitted in any order: match as multisets
            gotl = sorted((s.entity, tuple(sorted((strip_conversion(f).ident, actual_of(ac)) for f, ac, _ in s.ports))) for s in insts)
            expl = sorted((ent, tuple(sorted((f, norm_actual(t)) for f, t in pm.items()))) for ent, pm in expected_pm)
            if gotl != expl:
                problems.append(("port-map", f"emitted associations {gotl} != source {expl}"))
    return problems


def analyse(idx):
    name, builder, pm = all_designs()[idx]
    out = {"name": name, "problems": [], "status": "ok"}
    hs, fs = render(builder, True), render(builder, False)
    rh, _ = compile_source(hs)
    rf, _ = compile_source(fs)
    if not rh.ok or not rf.ok:
        out["status"] = "rejected"
        out["error"] = f"hier: {rh.error} | flat: {rf.error}"
        return out
    out["src"] = hs
    try:
        out["problems"] += structure_check(rh.vhdl, pm)
        dh = compile_design(rh.vhdl)
        df = compile_design(rf.vhdl)
    except VhdlSyntaxError as e:
        out["problems"].append(("syntax", str(e)))
        return out
    except Unsupported as e:
        if "not in design file" in str(e) and not any(r == "missing-entity" for r, _ in out["problems"]):
            # no design of this check uses extern entities: an instantiated entity that is not emitted is a violation
            out["problems"].append(("missing-entity", str(e)))
        if out["problems"]:
            return out  # the structure check already found a violation; the text cannot be elaborated
        out["status"] = "tool"
        out["what"] = str(e)
        return out
    for f in dh.findings:
        out["problems"].append((f.rule, f.msg))
    # no source design writes its in / inout ports: the emitted architecture must not contain a driver for them
    for pn, mode, _ in TOP_PORTS:
        if mode != "out" and dh.driver_table.get(f"t.{pn}"):
            out["problems"].append(("port-driver", f"{mode} port '{pn}' of the top entity is never written in the source but is driven by "
                                                   f"{dh.driver_table[f't.{pn}']} in the emitted architecture"))
    nent = len(dh.entity_order)
    out["entities"] = nent
    if dh.findings:
        return out  # statically invalid text: behaviour is not defined
    try:
        r = bfs(EqSystem(dh.sim(), df.sim(), uses_io=any("self.io" in l for l in builder(True))), max_states=300000)
    except rt.SimError as e:
        out["problems"].append(("simerror", str(e)))
        return out
    out.update(states=r.states, transitions=r.transitions, exhausted=r.exhausted, observations=len(r.observations))
    if r.violation:
        out["problems"].append(("behaviour", f"{r.violation} trace={r.trace}"))
        out["trace"] = r.trace
    return out


def todir_check(run):
    from cohdl import std

    name, builder, pm = [d for d in designs() if d[0] == "nested-mid-twice"][0]
    mod = load_module(render(builder, True))
    d = tempfile.mkdtemp(prefix="verif_c12_")
    try:
        files = [os.path.basename(f) for f in std.VhdlCompiler.to_dir(mod.T, d)]
        run.count("todir_files", len(files))
        want_before = {"Mid.vhd": ["LeafXor.vhd", "LeafReg.vhd"], "T.vhd": ["Mid.vhd"]}
        for user, deps in want_before.items():
            for dep in deps:
                if dep not in files or user not in files or files.index(dep) > files.index(user):
                    run.violation(f"todir/{dep}<{user}", f"to_dir file list {files}: {dep} must precede {user}")
        if len(set(files)) != len(files) or sorted(files) != sorted(["LeafXor.vhd", "LeafReg.vhd", "Mid.vhd", "T.vhd"]):
            run.violation("todir/files", f"to_dir wrote {files}; expected one file per template")
    finally:
        shutil.rmtree(d, True)
        unload_module(mod)


EXTERN_SRC = HDR + """
class Fifo(Entity, extern=True):
    d = Port.input(Bit)
    q = Port.output(Bit)

class Sync(Entity, extern=True, attributes={"path": "vendor"}):
    d = Port.input(Bit)
    q = Port.output(Bit)

class Wrap(Entity):
    d = Port.input(Bit)
    q = Port.output(Bit)
    def architecture(self):
        t = Signal[Bit](name="t")
        Fifo(d=self.d, q=t)
        Sync(d=t, q=self.q)

class T(Entity):
    d = Port.input(Bit)
    q = Port.output(Bit)
    r = Port.output(Bit)
    def architecture(self):
        Wrap(d=self.d, q=self.q)
        Fifo(d=self.d, q=self.r)
"""


def extern_check(run):
    """extern entities are instantiated but never emitted (neither as entity declarations nor as files)"""
    from cohdl import std

    mod = load_module(EXTERN_SRC)
    d = tempfile.mkdtemp(prefix="verif_c12_")
    try:
        text = std.VhdlCompiler.to_string(mod.T)
        units = P.parse(text)
        ents = [u.name for u in units if isinstance(u, P.Entity)]
        run.count("extern_designs", 1)
        if ents != ["wrap", "t"]:
            run.violation("extern/entities", f"design with extern entities Fifo and Sync: emitted entities {ents}, expected ['wrap', 't'] "
                                             f"(extern entities are not part of the output)")
        insts = sorted(s_.entity for u in units if isinstance(u, P.Architecture) for s_ in u.stmts if isinstance(s_, P.Instance))
        if insts != ["fifo", "fifo", "sync", "wrap"]:
            run.violation("extern/instances", f"instantiated entities {insts}, expected ['fifo', 'fifo', 'sync', 'wrap']")
        files = sorted(os.path.basename(f) for f in std.VhdlCompiler.to_dir(mod.T, d))
        if files != ["T.vhd", "Wrap.vhd"]:
            run.violation("extern/files", f"to_dir wrote {files}, expected ['T.vhd', 'Wrap.vhd']")
    finally:
        shutil.rmtree(d, True)
        unload_module(mod)


def main(run: Run):
    nfixed = len(designs())
    ngen = len(all_designs()) - nfixed
    idxs = list(range(nfixed))
    if run.thorough:
        idxs += list(range(nfixed, nfixed + ngen))
    else:
        # seed-chosen stratum of the generated two-instance family beyond the complete fixed set
        pick = list(range(nfixed, nfixed + ngen))
        run.rng.shuffle(pick)
        idxs += sorted(pick[:240])
    n = len(idxs)
    run.count("designs_generated", n)
    for kind, r in pmap(analyse, idxs):
        if kind != "ok":
            run.tool_error(f"worker: {r[-500:]}")
            continue
        run.count("designs_" + r["status"])
        if r["status"] == "tool":
            run.tool_error(f"{r['name']}: {r['what']}")
            continue
        if r["status"] == "rejected":
            run.note(f"{r['name']} rejected: {r['error'][:200]}")
            continue
        run.count("states", r.get("states", 0))
        run.count("transitions", r.get("transitions", 0))
        run.count("traces_validated_against_impl", r.get("states", 0))
        if r.get("observations", 0) > 1:
            run.count("designs_with_distinct_outcomes")
        if not r.get("exhausted", True) and not r["problems"]:
            run.capped = True
        for rule in sorted({p[0] for p in r["problems"]}):
            msg = next(p[1] for p in r["problems"] if p[0] == rule)
            run.violation(f"tree/{r['name']}/{rule}", f"{r['name']}: [{rule}] {msg[:400]}", {"design": r["name"], "cohdl_source": r.get("src")})
        if not r["problems"]:
            run.sample({"tree": r["name"], "states": r.get("states"), "entities": r.get("entities")})
    todir_check(run)
    extern_check(run)
    if run.counters.get("designs_ok", 0) < n * 0.7:
        run.tool_error("vacuous: too many instantiation trees rejected")
    run.assume("flat rendering calls the very same logic function on the same actuals; equivalence is checked by vsim on both texts")
    run.coverage_extra.update(
        exhaustive=not run.capped,
        rule="every instantiation tree of the fixed family (4 leaf templates x topologies incl. slice/bit/view actuals, nesting, inline, helpers) "
             "+ generated two-instance sequences (quick: 240 seed-chosen, thorough: all 962) x all reachable product states under all 64 input "
             "valuations per clock",
        evaluations=run.counters.get("transitions", 0),
        distinct_nontrivial=run.counters.get("designs_with_distinct_outcomes", 0),
    )


def replay(run: Run, data):
    for k, d in enumerate(all_designs()):
        if d[0] == data["design"]:
            r = analyse(k)
            print(r["status"], r["problems"])
            return not r["problems"]
    return True

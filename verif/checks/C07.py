"""C07  One driver per signal: conflicts rejected, accepted designs conflict-free.

Bounded-exhaustive enumeration of placements of 2 (quick) / 3 (thorough) accesses to one object over
the site kinds {concurrent ctx A/B, sequential ctx C/D, `with cohdl.always:` inside C, always-expression
read inside C, sub-entity instance output (two instances)}.  (std.block is not usable at the pinned commit:
`Block` is no context manager; temporaries cannot be named across contexts, Variables stand in for them.)
Oracle:
  * source-level expectation (computed here, not from the compiler): reject iff some scalar part of the object
    is driven from more than one driver (context / always-block / instance output), an input port is written
    (directly or via an instance output), or a Variable/Temporary is used in more than one context;
  * every *accepted* design: the driver table computed by vfront from the emitted architecture has exactly one
    driver per scalar sub-element (all statements of one emitted concurrent block count as one driver),
    no input port is assigned, and every name resolves (a process variable used outside its process does not).
A rejection is never a violation.
"""
from __future__ import annotations

import itertools

from ..cohdl_util import compile_source
from ..core import Run, pmap, chunked
from ..vhdl.elab import Design
from ..vhdl.parser import Unsupported, VhdlSyntaxError

LEVEL = "exploration"

OBJECTS = ["sig", "out", "inp", "var"]
# site -> (context id, driver id)   always-block writes are emitted as concurrent statements: own driver
SITES = {
    "A": ("ca", "ca"), "B": ("cb", "cb"), "C": ("sc", "sc"), "D": ("sd", "sd"),
    "CA": ("sc", "sc.always"), "CE": ("sc", None), "I": (None, "inst1"), "J": (None, "inst2"),
    # R: context declared with the core API cohdl.sequential_context (no implicit reset_pushed write)
    "R": ("sr", "sr"),
    # RE: same raw context, statement placed in the `else:` branch of its `if cohdl.rising_edge(clk):`
    "RE": ("sr", "sr"),
    # II: ONE instance whose two output ports are both connected to the object (two drivers)
    "II": (None, "inst3.y1+inst3.y2"),
}
# whole / bit 0 / bit 1 / run-time index / push / read / inline VHDL write (target first) / inline VHDL write guarded by a
# condition whose (read) placeholder precedes the written object
KINDS = ["w", "w0", "w1", "wdyn", "push", "r", "iw", "iwg"]
PARTS = {"w": {0, 1}, "w0": {0}, "w1": {1}, "wdyn": {0, 1}, "push": {0, 1}, "iw": {0, 1}, "iwg": {0, 1}}


def accesses_for(obj):
    for site in SITES:
        for kind in KINDS:
            if site in ("I", "J", "II") and kind != "w":
                continue
            if site == "CE" and kind != "r":
                continue
            if obj in ("var",) and kind in ("push", "iw", "iwg"):
                continue
            if kind == "iwg" and site in ("A", "B", "CA"):
                continue  # the guarded form is a sequential statement
            if kind in ("iw", "iwg") and site in ("CA",):
                continue
            if obj == "tmp" and kind != "r":
                continue  # a temporary is produced once (in ctx A or C, see render) and only read elsewhere
            if obj == "inp" and kind == "push":
                continue
            yield (site, kind)


def expected_reject(obj, accs):
    """weakest reading of the statement; returns (must_reject: bool, reason)"""
    obj = obj.split("~")[0]
    drivers = {}
    ctxs = set()
    for site, kind in accs:
        ctx, drv = SITES[site]
        if ctx is not None:
            ctxs.add(ctx)
        if kind != "r":
            for part in PARTS[kind]:
                for d_ in drv.split("+"):
                    drivers.setdefault(part, set()).add(d_)
    if obj == "inp" and drivers:
        return True, "input port is written"
    if obj in ("sig", "out"):
        for part, ds in drivers.items():
            if len(ds) > 1:
                return True, f"bit {part} driven by {sorted(ds)}"
    if obj == "var":
        if any(SITES[s][0] is None for s, _ in accs):
            return True, "variable connected to an instance port"
        if len(ctxs) > 1:
            return True, f"variable used in contexts {sorted(ctxs)}"
        # NOTE: variable in a concurrent context is rejected by cohdl, but the property does not demand it
    if obj == "tmp":
        prod = "ca"  # producing context
        if ctxs - {prod}:
            return True, f"temporary produced in {prod} used in {sorted(ctxs - {prod})}"
    return False, ""


def stmt(obj_expr, kind, n, obj):
    op = "@=" if obj == "var" else "<<="
    if kind == "w":
        return f"{obj_expr} {op} self.i"
    if kind == "w0":
        return f"{obj_expr}[0] {op} self.i[0]"
    if kind == "w1":
        return f"{obj_expr}[1] {op} self.i[1]"
    if kind == "wdyn":
        return f"{obj_expr}[self.k] {op} self.i[0]"
    if kind == "push":
        return f"{obj_expr} ^= self.i"
    if kind == "iw":
        return 'f"{cohdl.vhdl:{' + obj_expr + '} <= {self.i!r};}"'
    if kind == "iwg":
        return 'f"{cohdl.vhdl:if {self.k[0]!r} = \'1\' then {' + obj_expr + '} <= {self.i!r}; end if;}"'
    return f"self.o{n} <<= {obj_expr}"


def render(obj, accs):
    # "<obj>~same": every context function of the design has the same name (`logic`)
    same = obj.endswith("~same")
    obj = obj.split("~")[0]
    ox = {"sig": "x", "out": "self.xout", "inp": "self.xin", "var": "x", "tmp": "x"}[obj]
    body = {"ca": [], "cb": [], "sc": [], "sd": [], "ck": [], "sc.always": [], "sr": [], "sr.else": []}
    inst = []
    for n, (site, kind) in enumerate(accs):
        if site in ("I", "J"):
            inst.append(f"        Sub(a=self.i[0], y={ox})")
        elif site == "II":
            inst.append(f"        Sub2(a=self.i[0], y1={ox}, y2={ox})")
        elif site == "CA":
            body["sc.always"].append(stmt(ox, kind, n, obj))
        elif site == "CE":
            body["sc"].append(f"self.o{n} <<= cohdl.always({ox} | self.i)")
        elif site == "RE":
            body["sr.else"].append(stmt(ox, kind, n, obj))
        else:
            body[SITES[site][0]].append(stmt(ox, kind, n, obj))
    L = ["from cohdl import std, Entity, Port, Bit, BitVector, Unsigned, Signal, Variable", "import cohdl", "",
         "class Sub(Entity):", "    a = Port.input(Bit)", "    y = Port.output(BitVector[2])", "    def architecture(self):",
         "        @std.concurrent", "        def logic():", "            self.y <<= self.a @ self.a", "",
         "class Sub2(Entity):", "    a = Port.input(Bit)", "    y1 = Port.output(BitVector[2])", "    y2 = Port.output(BitVector[2])",
         "    def architecture(self):", "        @std.concurrent", "        def logic():", "            self.y1 <<= self.a @ self.a",
         "            self.y2 <<= self.a @ ~self.a", "",
         "class T(Entity):", "    clk = Port.input(Bit)", "    i = Port.input(BitVector[2])", "    k = Port.input(Unsigned[1])",
         "    xin = Port.input(BitVector[2])", "    xout = Port.output(BitVector[2], default='00')"]
    for n in range(len(accs)):
        L.append(f"    o{n} = Port.output(BitVector[2], default='00')")
    L.append("    def architecture(self):")
    if obj == "sig":
        L.append("        x = Signal[BitVector[2]]('00')")
    elif obj == "var":
        L.append("        x = Variable[BitVector[2]]('00')")
    elif obj == "tmp":
        L.append("        x = None")
    L += inst

    def ctx(deco, name, lines, extra=None):
        out = [f"        {deco}", f"        def {'logic' if same else name}():"]
        alll = lines + (extra or [])
        if obj in ("sig", "var") and any(l.startswith("x <<=") or l.startswith("x ^=") or l.startswith("x @=") for l in alll):
            out.append("            nonlocal x")
        if obj == "tmp" and name == "ca":
            out.append("            x = self.i | self.xin")
        out += ["            " + l for l in lines]
        if extra:
            out.append("            with cohdl.always:")
            out += ["                " + l for l in extra]
        if len(out) == 2 or (len(out) == 3 and "nonlocal" in out[-1]):
            out.append("            pass")
        return out

    need_ca = body["ca"] or obj == "tmp"
    if need_ca:
        L += ctx("@std.concurrent", "ca", body["ca"])
    if body["cb"]:
        L += ctx("@std.concurrent", "cb", body["cb"])
    if body["sc"] or body["sc.always"]:
        L += ctx("@std.sequential(std.Clock(self.clk))", "sc", body["sc"], body["sc.always"])
    if body["sd"]:
        L += ctx("@std.sequential(std.Clock(self.clk))", "sd", body["sd"])
    if body["sr"] or body["sr.else"]:
        raw = ctx("@cohdl.sequential_context", "sr", body["sr"] + body["sr.else"])
        # wrap the statements in an explicit clock-edge test
        head = [l for l in raw if l.strip().startswith(("@", "def ", "nonlocal"))]
        L += head + ["            if cohdl.rising_edge(self.clk):"] + ["                " + l for l in (body["sr"] or ["pass"])]
        if body["sr.else"]:
            L += ["            else:"] + ["                " + l for l in body["sr.else"]]
    if body["ck"]:
        L += ["        @std.block", "        def blk():"]
        L += ["    " + l for l in ctx("@std.concurrent", "ck", body["ck"])]
    L.append("")
    return "\n".join(L)


def canon(obj, accs):
    return obj + ":" + "+".join(f"{s}.{k}" for s, k in accs)


def analyse(obj, accs):
    src = render(obj, accs)
    try:
        res, _ = compile_source(src)
    except SyntaxError as e:
        return {"status": "tool", "what": f"generated source invalid: {e}", "src": src}
    must, reason = expected_reject(obj, accs)
    if not res.ok:
        return {"status": "rejected", "must": must, "error": res.error}
    out = {"status": "accepted", "must": must, "reason": reason, "src": src, "problems": []}
    try:
        d = Design(res.vhdl)
    except VhdlSyntaxError as e:
        out["problems"].append(("syntax", str(e)))
        return out
    except Unsupported as e:
        return {"status": "tool", "what": f"vfront unsupported: {e}", "src": src}
    for m in d.multi_driven:
        out["problems"].append(("multi-driver", f"signal {m[0]} is driven by {m[1]} and {m[2]}"))
    for f in d.findings:
        if f.rule in ("write-input", "unresolved"):
            out["problems"].append((f.rule, f.msg))
    out["drivers"] = {k: [list(x) for x in v] for k, v in d.driver_table.items() if "x" in k.rsplit(".", 1)[-1]}
    return out


# ---- fixed extra placements: intermediates and the always forms -----------------------------------------------------
XHDR = """from cohdl import std, Entity, Port, Bit, BitVector, Unsigned, Signal, Variable
import cohdl
class T(Entity):
    clk = Port.input(Bit)
    i = Port.input(BitVector[2])
    xin = Port.input(BitVector[2])
    o0 = Port.output(BitVector[2], default='00')
    o1 = Port.output(BitVector[2], default='00')
    def architecture(self):
        @std.sequential(std.Clock(self.clk))
        def sc():
"""
EXTRA = {
    # name: (must_reject, body lines)
    "always-block-intermediate-whole": (False, ["with cohdl.always:", "    t = self.i | self.xin", "    self.o0 <<= t"]),
    "always-block-intermediate-sliced": (False, ["with cohdl.always:", "    t = self.i | self.xin", "    self.o0[0] <<= t[0]", "    self.o0[1] <<= t[1]"]),
    "always-block-intermediate-slice": (False, ["with cohdl.always:", "    t = self.i | self.xin", "    self.o0 <<= t[1:0]"]),
    "always-expr-reads-process-intermediate": (True, ["t = self.i | self.xin", "self.o0 <<= cohdl.always(t | self.i)"]),
    "always-expr-reads-bit-of-process-intermediate": (True, ["t = self.i | self.xin", "self.o0[0] <<= cohdl.always(t[0] | self.i[1])"]),
    "always-expr-reads-slice-of-process-intermediate": (True, ["t = self.i | self.xin", "self.o0 <<= cohdl.always(t[1:0] | self.i)"]),
    "always-block-reads-process-intermediate": (True, ["t = self.i | self.xin", "with cohdl.always:", "    self.o0 <<= t"]),
    "always-block-reads-bit-of-process-intermediate": (True, ["t = self.i | self.xin", "with cohdl.always:", "    self.o0[0] <<= t[1]"]),
    # distinct objects whose names differ only by leading / trailing underscores: each has its own single driver
    "underscore-twin-objects": (False, """from cohdl import std, Entity, Port, Bit, BitVector, Unsigned, Signal, Variable
import cohdl
class T(Entity):
    clk = Port.input(Bit)
    i = Port.input(BitVector[2])
    xin = Port.input(BitVector[2])
    o0 = Port.output(BitVector[2], default='00')
    o1 = Port.output(BitVector[2], default='00')
    def architecture(self):
        q = Signal[BitVector[2]]('00', name='q')
        _q = Signal[BitVector[2]]('00', name='_q')
        q_ = Signal[BitVector[2]]('00', name='q_')
        def helper(src):
            _reg = Signal[BitVector[2]]('00')
            @std.sequential(std.Clock(self.clk))
            def proc_helper():
                nonlocal _reg
                _reg <<= src
            return _reg
        r0 = helper(self.i)
        r1 = helper(self.xin)
        @std.sequential(std.Clock(self.clk))
        def sa():
            nonlocal q
            q <<= self.i
        @std.sequential(std.Clock(self.clk))
        def sb():
            nonlocal _q
            _q <<= ~self.i
        @std.concurrent
        def ca():
            nonlocal q_
            q_ <<= self.xin
            self.o0 <<= q ^ _q ^ r0
            self.o1 <<= q_ ^ r1
"""),
    # the same entity instantiated several times, every instance output drives its own object
    "same-entity-instantiated-twice": (False, """from cohdl import std, Entity, Port, Bit, BitVector, Unsigned, Signal, Variable
import cohdl
class Leaf(Entity):
    a = Port.input(BitVector[2])
    y = Port.output(BitVector[2])
    def architecture(self):
        @std.concurrent
        def logic():
            self.y <<= ~self.a
class T(Entity):
    i = Port.input(BitVector[2])
    xin = Port.input(BitVector[2])
    o0 = Port.output(BitVector[2])
    o1 = Port.output(BitVector[2])
    def architecture(self):
        s = Signal[BitVector[2]](name='s')
        Leaf(a=self.i, y=self.o0)
        Leaf(a=self.xin, y=s)
        @std.concurrent
        def logic():
            self.o1 <<= s
"""),
    "same-entity-three-instances-chained": (False, """from cohdl import std, Entity, Port, Bit, BitVector, Unsigned, Signal, Variable
import cohdl
class Leaf(Entity):
    a = Port.input(Unsigned[2])
    y = Port.output(Unsigned[2])
    def architecture(self):
        @std.concurrent
        def logic():
            self.y <<= self.a + 1
class Mid(Entity):
    a = Port.input(Unsigned[2])
    y = Port.output(Unsigned[2])
    def architecture(self):
        t = Signal[Unsigned[2]](name='t')
        Leaf(a=self.a, y=t)
        Leaf(a=t, y=self.y)
class T(Entity):
    i = Port.input(Unsigned[2])
    xin = Port.input(Unsigned[2])
    o0 = Port.output(Unsigned[2])
    o1 = Port.output(Unsigned[2])
    def architecture(self):
        s0 = Signal[Unsigned[2]](name='s0')
        s1 = Signal[Unsigned[2]](name='s1')
        Mid(a=self.i, y=s0)
        Leaf(a=s0, y=s1)
        Mid(a=self.xin, y=self.o1)
        Leaf(a=s1, y=self.o0)
"""),
    "process-reads-always-block-intermediate": (False, ["with cohdl.always:", "    t = self.i | self.xin", "self.o1 <<= t", "self.o0[0] <<= t[1]"]),
}


def analyse_extra(name):
    must, body = EXTRA[name]
    src = body if isinstance(body, str) else XHDR + "".join("            " + l + "\n" for l in body)
    res, _ = compile_source(src)
    if not res.ok:
        return {"status": "rejected", "must": must, "error": res.error}
    out = {"status": "accepted", "must": must, "reason": "an intermediate of the process body is used by an always form (a separate concurrent driver)",
           "src": src, "problems": []}
    try:
        d = Design(res.vhdl)
    except VhdlSyntaxError as e:
        out["problems"].append(("syntax", str(e)))
        return out
    except Unsupported as e:
        return {"status": "tool", "what": f"vfront unsupported: {e}", "src": src}
    for m in d.multi_driven:
        out["problems"].append(("multi-driver", f"signal {m[0]} is driven by {m[1]} and {m[2]}"))
    for f in d.findings:
        out["problems"].append((f.rule, f.msg))
    return out


def work(tasks):
    out = []
    for obj, accs in tasks:
        if obj == "extra":
            out.append((obj, accs, analyse_extra(accs)))
        else:
            out.append((obj, accs, analyse(obj, accs)))
    return out


def family(run):
    for obj in OBJECTS:
        acc = list(accesses_for(obj))
        for a in acc:
            yield obj, (a,)
        for a, b in itertools.combinations_with_replacement(acc, 2):
            yield obj, (a, b)
    # the same placements with every context function named `logic` (writer pairs only)
    for obj in ("sig", "out", "inp"):
        acc = [a for a in accesses_for(obj) if a[1] != "r" and a[0] not in ("I", "J", "II", "CE")]
        for a, b in itertools.combinations_with_replacement(acc, 2):
            if SITES[a[0]][0] != SITES[b[0]][0]:
                yield obj + "~same", (a, b)
    if run.thorough:
        for obj in ("sig", "out", "inp", "var"):
            kinds = ("w", "w0", "w1", "wdyn", "r", "push") if obj in ("sig", "out") else ("w", "w0", "r", "push")
            acc = [a for a in accesses_for(obj) if a[1] in kinds]
            for t in itertools.combinations_with_replacement(acc, 3):
                yield obj, t


def main(run: Run):
    tasks = list(family(run)) + [("extra", name) for name in EXTRA]
    run.count("designs_generated", len(tasks))
    for kind, res in pmap(work, list(chunked(tasks, 40))):
        if kind != "ok":
            run.tool_error(f"worker: {res[-500:]}")
            continue
        for obj, accs, r in res:
            if obj == "extra":
                ident = f"extra/{accs}"
                run.count("designs_" + r["status"])
                if r["status"] == "tool":
                    run.tool_error(f"{ident}: {r['what']}")
                elif r["status"] == "accepted":
                    if r["must"]:
                        run.violation(f"{ident}/accepted", f"{ident}: accepted although {r['reason']}", {"extra": accs, "cohdl_source": r["src"]})
                    for rule in sorted({p_[0] for p_ in r["problems"]}):
                        msg = next(p_[1] for p_ in r["problems"] if p_[0] == rule)
                        run.violation(f"{ident}/{rule}", f"{ident}: emitted architecture: [{rule}] {msg}", {"extra": accs, "cohdl_source": r["src"]})
                continue
            ident = canon(obj, accs)
            st = r["status"]
            run.count("designs_" + st)
            if st == "tool":
                run.tool_error(f"{ident}: {r['what']}")
                continue
            if r.get("must"):
                run.count("expected_reject")
            if st == "rejected":
                continue
            srcdrv = "+".join(sorted({d_ for s_, k_ in accs if k_ != "r" and SITES[s_][1] for d_ in SITES[s_][1].split("+")}))
            always = "+".join(sorted({s_ for s_, k_ in accs if s_ in ("CA", "CE")}))
            if r["must"]:
                run.violation(f"placement/{ident}/accepted<{srcdrv}>", f"{ident}: accepted although {r['reason']}",
                              {"object": obj, "accesses": list(accs), "cohdl_source": r["src"]})
            for rule in sorted({p[0] for p in r["problems"]}):
                msg = next(p[1] for p in r["problems"] if p[0] == rule)
                tag = f"<{srcdrv}>" if rule == "multi-driver" else f"<always={always}>" if rule == "unresolved" else ""
                run.violation(f"placement/{ident}/{rule}{tag}", f"{ident}: emitted architecture: [{rule}] {msg}",
                              {"object": obj, "accesses": list(accs), "cohdl_source": r["src"]})
            if not r["must"] and not r["problems"]:
                run.count("accepted_conflict_free")
                if len(run.samples) < 4:
                    run.sample({"placement": ident, "drivers": r.get("drivers")})
    if run.counters.get("designs_accepted", 0) < 50 or run.counters.get("expected_reject", 0) < 50:
        run.tool_error("vacuous: too few accepted designs or too few conflicting placements")
    run.assume("driver sets are computed by vfront from the emitted text (per scalar sub-element; run-time index = whole dimension)")
    run.coverage_extra.update(
        evaluations=len(tasks),
        distinct_nontrivial=run.counters.get("accepted_conflict_free", 0) + run.counters.get("expected_reject", 0),
        exhaustive=True,
        rule="all placements of 1-2 (thorough: 3 on a reduced kind set) accesses to one object of each kind over 10 site kinds x 6 access "
             "kinds; non-trivial = accepted and analysed, or expected to be rejected",
    )


def replay(run: Run, data):
    if "extra" in data:
        r = analyse_extra(data["extra"])
        print(r.get("status"), r.get("must"), r.get("problems"))
        return not (r["status"] == "accepted" and (r["must"] or r["problems"]))
    accs = tuple(tuple(a) for a in data["accesses"])
    r = analyse(data["object"], accs)
    print(r.get("status"), r.get("must"), r.get("problems"))
    return not (r["status"] == "accepted" and (r["must"] or r["problems"]))

"""C19  Fixed-point arithmetic is exact and resize follows the selected styles.

Bounded-exhaustive: every format [l:r] inside the tier's bound for std.SFixed / std.UFixed, every ordered
format pair for + - * == and construction from another format, every (source, target) pair x
{TRUNCATE, ROUND} x {WRAP, SATURATE} (+ the default arguments) for resize, construction from every
Signed[n]/Unsigned[n], from ints and from dyadic floats, comparison with int/float constants — for EVERY
raw operand value, at two levels:

  py : the operation executed by CPython on cohdl constants,
  hw : the operation inside a compiled `std.concurrent` wrapper (raw bits in through BitVector ports and
       std.from_bits, raw result bits out through std.to_bits), emitted VHDL simulated with vsim.

Oracle: verif/ref/c19_fixed.py (fractions.Fraction, written from the property statement).
"""
from __future__ import annotations

from ..core import Run, pmap, ToolError
from ..gen import c19_fixed as g
from ..gen import c19_seq as sq
from ..ref import c19_fixed as ref

LEVEL = "exploration"


# ------------------------------------------------------------------------------------------------
# per-operation bookkeeping
# ------------------------------------------------------------------------------------------------

class OpStat:
    __slots__ = ("op", "level", "evals", "bad", "exc", "first_bad", "first_exc", "outcomes", "note", "classes")

    def __init__(self, op, level):
        self.op = op
        self.level = level
        self.evals = 0
        self.bad = 0
        self.exc = 0
        self.first_bad = None  # (a, b, what)
        self.first_exc = None  # (a, b, text)
        self.outcomes = set()
        self.note = None
        self.classes = {}  # input class -> [inputs in the class, failing inputs, first failing (a, b, text)]

    def tally(self, cls, a, b, msg):
        c = self.classes.get(cls)
        if c is None:
            c = self.classes[cls] = [0, 0, None]
        c[0] += 1
        if msg is not None:
            c[1] += 1
            if c[2] is None:
                c[2] = (a, b, msg)

    def record(self, a, b, status, payload):
        self.evals += 1
        if status == "exc":
            self.exc += 1
            if self.first_exc is None:
                self.first_exc = (a, b, payload)
            self.tally("rejected", a, b, payload)
            return
        self.outcomes.add(payload)
        msg = g.check_result(self.op, a, b, payload)
        self.tally(g.input_class(self.op, a, b), a, b, msg)
        if msg is not None:
            self.bad += 1
            if self.first_bad is None:
                self.first_bad = (a, b, msg)

    def export(self):
        return {"op": self.op, "level": self.level, "evals": self.evals, "bad": self.bad, "exc": self.exc,
                "first_bad": self.first_bad, "first_exc": self.first_exc, "distinct": len(self.outcomes),
                "must_accept": g.must_accept(self.op), "note": self.note, "classes": self.classes}


def input_space(op):
    wa, wb = g.op_inputs(op)
    return [(a, b) for a in range(1 << wa) for b in range(1 << wb)]


# ------------------------------------------------------------------------------------------------
# Python level
# ------------------------------------------------------------------------------------------------

def run_py(op):
    st = OpStat(op, "py")
    try:
        f = g.py_function(op)
    except Exception as e:  # noqa
        f = None
        err = f"{type(e).__name__}: {str(e)[:160]}"
    for a, b in input_space(op):
        if f is None:
            st.record(a, b, "exc", err)
            continue
        try:
            out = g.describe(f(a, b))
        except Exception as e:  # noqa: cohdl rejects with AssertionError & friends
            st.record(a, b, "exc", f"{type(e).__name__}: {str(e)[:160]}")
            continue
        st.record(a, b, "ok", out)
    return st


def result_shape(op, py_stat):
    """('fixed', kind, l, r) | ('bool',) | None: what the compiled wrapper's output port has to carry.
    Known from the operation itself except for arithmetic, where the implementation chooses the format
    (taken from the Python level result type; the oracle only constrains the represented number)."""
    t = op[0]
    if t in ("eq", "eqc") or (t == "arithc" and op[1] == "eq"):
        return ("bool",)
    if t == "resize_s":
        return ("fixed", op[2], op[5][0], op[5][1])
    if t == "resize":
        return ("fixed", op[1], op[3][0], op[3][1])
    if t == "ctor_f":
        return ("fixed", op[1], op[3][0], op[3][1])
    if t in ("ctor_v", "ctor_c"):
        return ("fixed", op[1], op[2][0], op[2][1])
    shapes = {o[:4] for o in (py_stat.outcomes if py_stat else ()) if o[0] == "fixed"}
    if len(shapes) == 1:
        return next(iter(shapes))
    return None


# ------------------------------------------------------------------------------------------------
# compiled level
# ------------------------------------------------------------------------------------------------

def build(ops, shapes, source="value"):
    """compile a wrapper for ops -> (sim | None, error text | None, source text, vhdl); the simulator carries
    the description of its inputs in sim.c19_io"""
    from ..cohdl_util import compile_source
    from ..vhdl.elab import compile_design

    wa = max(g.op_inputs(op)[0] for op in ops)
    wb = max(g.op_inputs(op)[1] for op in ops)
    widths = [None if s[0] == "bool" else s[2] - s[3] + 1 for s in shapes]
    src, io = g.entity_source(ops, widths, wa, wb, source)
    res, _ = compile_source(src, entity="T")
    if not res.ok:
        return None, res.error, src, None
    d = compile_design(res.vhdl)  # VhdlSyntaxError / Unsupported propagate as tool errors
    if d.findings or d.multi_driven:
        txt = "; ".join(f"{f.rule}: {f.msg}" for f in d.findings[:3]) or f"multiply driven: {d.multi_driven[:3]}"
        return None, "emitted VHDL is not well formed: " + txt, src, res.vhdl
    from ..vhdl import rt
    try:
        sim = d.sim()
        sim.c19_io = io
        return sim, None, src, res.vhdl
    except rt.SimError as e:
        return None, f"SimError during initialisation: {e}", src, res.vhdl


def drive(sim, wa, wb, a, b):
    """apply one operand valuation; yields once per pattern of the unrelated bus bits (ref sources: all zeros,
    all ones), after the outputs are valid"""
    io = sim.c19_io
    if io["mode"] == "bus":
        oa, ob, W = io["oa"], io["ob"], io["W"]
        used = ((1 << wa) - 1) << oa
        val = a << oa
        if ob is not None:
            used |= ((1 << wb) - 1) << ob
            val |= b << ob
        elif wb:
            sim.set("b", b, settle=False)
        junk = ((1 << W) - 1) & ~used
        patterns = (val, val | junk)
    else:
        patterns = (None,)
        if wa and wb:
            sim.set_many({"a": a, "b": b})
        elif wa:
            sim.set("a", a)
        elif wb:
            sim.set("b", b)
        # no inputs: the initial settle of the simulator already evaluated the constants
    for pat in patterns:
        if pat is not None:
            sim.set("dbus", pat)
        if io["clk"]:
            sim.clock("clk")
        yield pat


def simulate(sim, ops, shapes, stats):
    """drive every input valuation; returns None or the text of a run-time error of the design"""
    from ..vhdl import rt

    wa = max(g.op_inputs(op)[0] for op in ops)
    wb = max(g.op_inputs(op)[1] for op in ops)
    uses = [g.op_inputs(op) for op in ops]
    if getattr(sim, "c19_io", {}).get("clk"):
        sim.set("clk", 0)
    for a in range(1 << wa):
        for b in range(1 << wb):
            try:
                for _pat in drive(sim, wa, wb, a, b):
                    for i, op in enumerate(ops):
                        ua, ub = uses[i]
                        # an op that does not read an input is only sampled once per value of the inputs it does read
                        if (not ua and a) or (not ub and b):
                            continue
                        v = sim.get(f"o{i}")
                        s = shapes[i]
                        if v is None:
                            stats[i].record(a, b, "ok", ("undefined",))
                        elif s[0] == "bool":
                            stats[i].record(a, b, "ok", ("bool", bool(v)))
                        else:
                            stats[i].record(a, b, "ok", ("fixed", s[1], s[2], s[3], int(v)))
            except rt.SimError as e:
                return f"SimError at a={a} b={b}: {e}"
    return None


def run_hw(ops, shapes, py_rejected, try_rejected=True, source="value", skip_rejected=False):
    """-> list of OpStat (level hw), one per op.  Tries one wrapper for the whole batch, falls back to one
    wrapper per operation when the batch is rejected or fails at run time (to attribute the failure)."""
    level = "hw" if source == "value" else f"hw-{source}"
    stats = [OpStat(op, level) for op in ops]
    info = {"entities": 0, "rejected_entities": 0}
    todo = [i for i, s in enumerate(shapes) if s is not None]
    for i, s in enumerate(shapes):
        if s is None:
            stats[i].note = "skipped: result format unknown (operation rejected at the Python level for every input)"
    if not todo:
        return stats, info

    def attempt(idx):
        sub_ops = [ops[i] for i in idx]
        sub_shapes = [shapes[i] for i in idx]
        sim, err, src, vhdl = build(sub_ops, sub_shapes, source)
        info["entities"] += 1
        if sim is None:
            info["rejected_entities"] += 1
            return err
        sub_stats = [OpStat(op, level) for op in sub_ops]
        err = simulate(sim, sub_ops, sub_shapes, sub_stats)
        if err is not None:
            return err
        for i, st in zip(idx, sub_stats):
            stats[i] = st
        return None

    # operations the Python level rejected for every input are expected to be rejected by the compiler too:
    # they get a wrapper of their own so that they do not take the batch down with them
    alone = [i for i in todo if py_rejected[i]]
    if skip_rejected:
        # operand-source variants: what the Python level rejects outright is left to the `value` source
        for i in alone:
            stats[i].note = "not attempted: rejected at the Python level for every input (covered with the value source)"
        alone = []
    if not try_rejected:
        # quick tier: where a rejection is acceptable anyway, the compiler is not asked again
        for i in alone:
            if not g.must_accept(ops[i]):
                stats[i].note = "not attempted: rejected at the Python level for every input, rejection acceptable"
        alone = [i for i in alone if g.must_accept(ops[i])]
    batch = [i for i in todo if not py_rejected[i]]
    err = attempt(batch) if len(batch) > 1 else "single"
    for i in (alone if err is None else alone + batch):
        e = attempt([i])
        if e is not None:
            # the whole operation is unavailable in compiled code: one rejection per input valuation
            for a, b in input_space(ops[i]):
                stats[i].record(a, b, "exc", e)
    return stats, info


def batches(ops):
    """operations that can share one wrapper: same operand formats / same raw input widths"""
    groups = {}
    for op in ops:
        key = (g.hw_first_type(op), g.hw_second_type(op), g.op_inputs(op)[1] if op[0] == "ctor_v" else 0)
        groups.setdefault(key, []).append(op)
    return list(groups.values())


# ------------------------------------------------------------------------------------------------
# operation sequences on a std.Variable / std.Signal (results are values, not aliases)
# ------------------------------------------------------------------------------------------------

def seq_op(kind, A, qual, seq):
    return ("seq", kind, A, qual, seq)


def seq_must_accept(seq):
    # abs is not covered by the statement (and may legitimately be unavailable); everything else is
    return not any(l[0] == "take" and l[1][0] == "abs" for l in seq)


def seq_compare(kind, A, exp, obs):
    """exp: ref.run_sequence result; obs: register -> describe() tuple.  -> None | text"""
    fa = g.kfmt(kind, A)
    for reg, got in obs.items():
        if reg == "e":
            want = exp["e"]
            if want is ref.UNKNOWN:
                continue
            if got[0] != "bool":
                return f"e: expected a boolean, got {got}"
            if got[1] != want:
                return f"e = (r == v): expected {want}, got {got[1]}"
            continue
        if reg == "v":
            want, wf = exp["v"], fa
        elif reg == "r":
            want, wf = exp["r"]
        else:
            want, wf = exp["s"], None
        if want is ref.UNKNOWN and got[0] == "undefined":
            continue  # e.g. derived from a signal that was never assigned
        if got[0] != "fixed":
            return f"{reg}: expected a fixed point value, got {got}"
        if got[1] != kind:
            return f"{reg}: result kind {got[1]} differs from operand kind {kind}"
        if wf is not None and tuple(got[1:4]) != tuple(wf):
            return f"{reg}: format {got[1]}[{got[2]}:{got[3]}], expected {wf[0]}[{wf[1]}:{wf[2]}]"
        if want is ref.UNKNOWN:
            continue
        have = ref.value(got[1:4], got[4])
        if have != want:
            return f"{reg} represents {have}, expected {want} (value snapshot semantics)"
    return None


def seq_py_outcome(kind, A, seq, a, b, prog=None):
    """-> ("ok", {reg: outcome}) | ("exc", text)"""
    try:
        if prog is None:
            prog, _ = sq.py_program(kind, A, seq)
        out = prog(g.fixed_const(kind, A, a), g.fixed_const(kind, A, b))
        return "ok", {k: g.describe(x) for k, x in out.items()}
    except Exception as e:  # noqa
        return "exc", f"{type(e).__name__}: {str(e)[:160]}"


class SeqStat(OpStat):
    __slots__ = ()

    def export(self):
        return {"op": self.op, "level": self.level, "evals": self.evals, "bad": self.bad, "exc": self.exc,
                "first_bad": self.first_bad, "first_exc": self.first_exc, "distinct": len(self.outcomes),
                "must_accept": seq_must_accept(self.op[4]), "note": self.note, "classes": self.classes}

    def record_seq(self, a, b, status, payload, exp=None):
        self.evals += 1
        if status == "exc":
            self.exc += 1
            if self.first_exc is None:
                self.first_exc = (a, b, payload)
            self.tally("rejected", a, b, payload)
            return
        self.outcomes.add(tuple(sorted(payload.items())))
        msg = seq_compare(self.op[1], self.op[2], exp, payload)
        self.tally("any", a, b, msg)
        if msg is not None:
            self.bad += 1
            if self.first_bad is None:
                self.first_bad = (a, b, msg)


def run_seq_py(kind, A, seq):
    st = SeqStat(seq_op(kind, A, "var", seq), "py")
    fa = g.kfmt(kind, A)
    w = g.width(A)
    try:
        prog, _ = sq.py_program(kind, A, seq)
    except Exception as e:  # noqa
        prog, err = None, f"{type(e).__name__}: {str(e)[:160]}"
    for a in range(1 << w):
        for b in range(1 << w):
            if prog is None:
                st.record_seq(a, b, "exc", err)
                continue
            status, out = seq_py_outcome(kind, A, seq, a, b, prog)
            st.record_seq(a, b, status, out, ref.run_sequence(fa, seq, a, b) if status == "ok" else None)
    return st


def seq_shapes(kind, A, seq):
    """register -> width of the raw bits (None: boolean) for the wrapper's output ports; the formats of s and of
    r after `v + 0` are chosen by the implementation and taken from a Python level run"""
    status, out = seq_py_outcome(kind, A, seq, 0, 0)
    if status != "ok":
        return None
    sh = {}
    for reg, o in out.items():
        if o[0] == "bool":
            sh[reg] = None
        elif o[0] == "fixed":
            sh[reg] = (o[1], o[2], o[3])
        else:
            return None
    return sh


def build_seq(kind, A, qual, seqs, shapes):
    from ..cohdl_util import compile_source
    from ..vhdl.elab import compile_design
    from ..vhdl import rt

    widths = [{reg: (None if f is None else f[1] - f[2] + 1) for reg, f in sh.items()} for sh in shapes]
    src = sq.hw_source(kind, A, qual, seqs, widths)
    res, _ = compile_source(src, entity="T")
    if not res.ok:
        return None, res.error, src
    d = compile_design(res.vhdl)
    if d.findings or d.multi_driven:
        txt = "; ".join(f"{f.rule}: {f.msg}" for f in d.findings[:3]) or f"multiply driven: {d.multi_driven[:3]}"
        return None, "emitted VHDL is not well formed: " + txt, src
    try:
        return d.sim(), None, src
    except rt.SimError as e:
        return None, f"SimError during initialisation: {e}", src


def seq_read(sim, i, sh):
    obs = {}
    for reg, f in sh.items():
        v = sim.get(f"o{i}_{reg}")
        if v is None:
            obs[reg] = ("undefined",)
        elif f is None:
            obs[reg] = ("bool", bool(v))
        else:
            obs[reg] = ("fixed", f[0], f[1], f[2], int(v))
    return obs


def simulate_seq(sim, kind, A, qual, seqs, shapes, stats):
    """var: one clock per input pair.  sig: two clocks, (a0, b0) then (a, b); the second activation is checked,
    it reads the value the first one left in the signal.  Packed inputs: a0 * 2**w + a."""
    from ..vhdl import rt

    fa = g.kfmt(kind, A)
    w = g.width(A)
    n = 1 << w
    try:
        sim.set("clk", 0)  # a rising edge needs a defined '0' first
        if qual == "var":
            for a in range(n):
                for b in range(n):
                    sim.set_many({"a": a, "b": b})
                    sim.clock("clk")
                    for i, seq in enumerate(seqs):
                        stats[i].record_seq(a, b, "ok", seq_read(sim, i, shapes[i]), ref.run_sequence(fa, seq, a, b))
        else:
            for a0 in range(n):
                for b0 in range(n):
                    firsts = [ref.run_sequence(fa, seq, a0, b0, signal=True, v_before=ref.UNKNOWN) for seq in seqs]
                    for a in range(n):
                        for b in range(n):
                            sim.set_many({"a": a0, "b": b0})
                            sim.clock("clk")
                            sim.set_many({"a": a, "b": b})
                            sim.clock("clk")
                            for i, seq in enumerate(seqs):
                                exp = ref.run_sequence(fa, seq, a, b, signal=True, v_before=firsts[i]["v_next"])
                                # the signal read back by the epilogue shows the value from before this activation
                                stats[i].record_seq(a0 * n + a, b0 * n + b, "ok", seq_read(sim, i, shapes[i]), exp)
    except rt.SimError as e:
        return f"SimError: {e}"
    return None


def run_seq_hw(kind, A, qual, seqs):
    stats = [SeqStat(seq_op(kind, A, qual, seq), "hw") for seq in seqs]
    info = {"entities": 0, "rejected_entities": 0}
    shapes = [seq_shapes(kind, A, seq) for seq in seqs]
    todo = [i for i, sh in enumerate(shapes) if sh is not None]
    for i, sh in enumerate(shapes):
        if sh is None:
            stats[i].note = "skipped: result format unknown (program rejected at the Python level)"

    def attempt(idx):
        sub = [seqs[i] for i in idx]
        sub_shapes = [shapes[i] for i in idx]
        sim, err, src = build_seq(kind, A, qual, sub, sub_shapes)
        info["entities"] += 1
        if sim is None:
            info["rejected_entities"] += 1
            return err
        sub_stats = [SeqStat(seq_op(kind, A, qual, s_), "hw") for s_ in sub]
        err = simulate_seq(sim, kind, A, qual, sub, sub_shapes, sub_stats)
        if err is not None:
            return err
        for i, st in zip(idx, sub_stats):
            stats[i] = st
        return None

    err = attempt(todo) if len(todo) > 1 else "single"
    if err is not None:
        for i in todo:
            e = attempt([i])
            if e is not None:
                stats[i].record_seq(0, 0, "exc", e)
    return stats, info


def work_seq(task):
    import time
    cpu0 = time.process_time()
    info = {"entities": 0, "rejected_entities": 0}
    out = []
    if task[0] == "seqpy":
        _, kind, A, seqs = task
        for seq in seqs:
            out.append(run_seq_py(kind, A, seq).export())
    else:
        _, kind, A, qual, seqs = task
        stats, info = run_seq_hw(kind, A, qual, seqs)
        out.extend(st.export() for st in stats)
    info["cpu_ms"] = int((time.process_time() - cpu0) * 1000)
    return {"task": task[:3], "stats": out, "info": info}


# ------------------------------------------------------------------------------------------------
# worker
# ------------------------------------------------------------------------------------------------

def work(task):
    """task = ("pair", kind, A, B, full) | ("single", kind, A, maxn, full);  -> dict(stats=[...], info={...})"""
    if task[0] in ("seqpy", "seqhw"):
        return work_seq(task)
    import time
    cpu0 = time.process_time()
    full = task[4]
    skip_rej = False
    if task[0] == "pair":
        ops = g.pair_ops(task[1], task[2], task[3])
    elif task[0] == "const":
        # ("const", kind, A, B, full, sides): binary operators with a compile-time constant on one side
        ops = [op for op in g.const_ops(task[1], task[2], task[3]) if op[5] in task[5]]
    elif task[0] == "shape":
        # ("shape", kind, A, B, full, do_hw, (), targets, hw targets): resize written in other call shapes, second object xb
        ops = [op for T in task[7] for op in g.shape_ops(task[1], task[2], task[3], T)]
        skip_rej = True  # what the plain resize rejects (listed findings) is not re-attempted per shape
    else:
        ops = g.single_ops(task[1], task[2], task[3])
    out = []
    info = {"entities": 0, "rejected_entities": 0}
    py = {}
    for op in ops:
        st = run_py(op)
        py[op] = st
        out.append(st.export())
    do_hw = task[5] if len(task) > 5 else True
    for batch in (batches(ops) if do_hw else ()):
        # the default-argument form of resize is exercised at the Python level only (quick tier)
        if not full:
            batch = [op for op in batch if not (op[0] == "resize" and op[4] is None)]
        if task[0] == "shape":
            batch = [op for op in batch if op[5] in task[8]]  # compiled for the smaller target set only
            if not batch:
                continue
        shapes = [result_shape(op, py[op]) for op in batch]
        stats, inf = run_hw(batch, shapes, [py[op].exc == py[op].evals for op in batch], try_rejected=full,
                            skip_rejected=skip_rej)
        for k in inf:
            info[k] += inf[k]
        out.extend(st.export() for st in stats)
    # operand sources: the same operations with xa / xb obtained in other ways (one wrapper per source)
    for source in (task[6] if len(task) > 6 else ()):
        batch = [op for op in ops if g.hw_first_type(op) is not None and not (op[0] == "resize" and op[4] is None)]
        shapes = [result_shape(op, py[op]) for op in batch]
        stats, inf = run_hw(batch, shapes, [py[op].exc == py[op].evals for op in batch], source=source, skip_rejected=True)
        for k in inf:
            info[k] += inf[k]
        out.extend(st.export() for st in stats)
    for d in out:
        if d["op"][0] == "resize_s":
            d["level"] = g.shape_level(d["level"], d["op"])  # call shape + format of the second object
    info["cpu_ms"] = int((time.process_time() - cpu0) * 1000)
    return {"task": task, "stats": out, "info": info}


# ------------------------------------------------------------------------------------------------
# main
# ------------------------------------------------------------------------------------------------

def warm_up():
    """import cohdl and compile one wrapper in the parent so that forked workers start warm"""
    op = ("arith", "add", "S", (0, 0), (0, 0))
    try:
        run_hw([op], [result_shape(op, run_py(op))], [False])
    except Exception:  # noqa: the workers will report whatever is wrong
        pass


def bounds(run: Run):
    """py level: every format of [lo..hi] x width<=maxw.  hw level (cohdl needs ~0.3 s per compiled
    operation): complete for the hw_* bound; quick adds a seed-selected 1/hw_extra_mod of the other pairs."""
    import os
    dev = os.environ.get("VERIF_C19_BOUND")  # development aid: "lo,hi,maxw" (the run is then marked capped)
    if dev:
        lo, hi, mw = (int(x) for x in dev.split(","))
        run.capped = True
        return dict(lo=lo, hi=hi, maxw=mw, maxn=mw, hw_lo=lo, hw_hi=hi, hw_maxw=mw, hw_extra_mod=0, seq=SEQ_QUICK, src_fmts=SRC_QUICK, shape_fmts=SRC_QUICK, shape_hw_fmts=SHAPE_HW_QUICK, const_fmts=SRC_QUICK)
    if run.thorough:
        return dict(lo=-4, hi=4, maxw=6, maxn=6, hw_lo=-4, hw_hi=4, hw_maxw=6, hw_extra_mod=0, seq=SEQ_THOROUGH, src_fmts=SRC_THOROUGH, shape_fmts=tuple(g.formats(-1, 1, 3)), shape_hw_fmts=SRC_QUICK, const_fmts=None)
    return dict(lo=-3, hi=3, maxw=5, maxn=5, hw_lo=-2, hw_hi=2, hw_maxw=5, hw_extra_mod=12, seq=SEQ_QUICK, src_fmts=SRC_QUICK, shape_fmts=SRC_QUICK, shape_hw_fmts=SHAPE_HW_QUICK, const_fmts=SRC_QUICK)


# operand sources (hw level): every ordered pair of these formats x every source of g.SOURCES
SRC_QUICK = ((1, -1), (0, 0), (1, 0), (0, -1))
SRC_SOURCES_QUICK = g.SOURCES[1:]
SRC_THOROUGH = tuple(g.formats(-2, 2, 4))
SHAPE_HW_QUICK = ((1, -1), (0, 0), (0, -1))

# operation sequences: (level, qualifier, format, depth of the per-take alphabets, depth of the mixed alphabet)
SEQ_QUICK = (
    ("py", "var", (1, -1), 3, 2),
    ("py", "var", (0, -1), 3, 2),
    ("hw", "var", (1, -1), 2, 0),
)
SEQ_THOROUGH = (
    ("py", "var", (1, -1), 3, 3),
    ("py", "var", (0, -1), 3, 3),
    ("py", "var", (1, 0), 3, 2),
    ("py", "var", (2, -1), 3, 2),
    ("hw", "var", (1, -1), 3, 2),
    ("hw", "var", (0, -1), 2, 0),
    ("hw", "sig", (1, -1), 2, 0),
)


def seq_tasks(bd):
    from ..core import chunked
    tasks = []
    n_prog = 0
    for lvl, qual, A, depth, mixed in bd["seq"]:
        fam = sq.program_family(A, depth, mixed)
        for kind in g.KINDS:
            n_prog += len(fam)
            if lvl == "py":
                tasks.extend(("seqpy", kind, A, chunk) for chunk in chunked(fam, 60))
            else:
                tasks.extend(("seqhw", kind, A, qual, chunk) for chunk in chunked(fam, 16))
    return tasks, n_prog


def op_key(op):
    if op[0] == "seq":
        return sq.prog_key(op[1], op[2], op[3], op[4])
    return g.op_key(op)


def to_op(x):
    return ("seq", x[1], tuple(x[2]), x[3], sq.to_seq(x[4])) if x[0] == "seq" else g.to_op(x)


def finding_key(level, op):
    return f"{level}/{op_key(op)}"


def classify_classes(s):
    """-> list of (input class, verdict, text, first failing (a, b), inputs, failing) for one exported OpStat:
    one entry per input class of the case; verdict in ok / violation / rejected"""
    out = []
    for cls, (n_in, n_bad, first) in sorted(s["classes"].items()):
        if cls == "rejected":
            if s["must_accept"]:
                out.append((cls, "violation", f"rejected although the property requires a result: {first[2]} "
                            f"[a={first[0]:#b} b={first[1]:#b}; {n_bad} of {s['evals']} inputs of the case]", first[:2], n_in, n_bad))
            else:
                out.append((cls, "rejected", None, None, n_in, n_bad))
        elif n_bad:
            out.append((cls, "violation", f"{first[2]} [a={first[0]:#b} b={first[1]:#b}; {n_bad} of {n_in} inputs of class "
                        f"{cls} wrong]", first[:2], n_in, n_bad))
        else:
            out.append((cls, "ok", None, None, n_in, 0))
    return out


def classify(s):
    """-> (verdict, text) for one exported OpStat; verdict in ok / violation / rejected"""
    if s["bad"]:
        a, b, msg = s["first_bad"]
        return "violation", f"{msg} [a={a:#b} b={b:#b}; {s['bad']} of {s['evals']} inputs wrong]"
    if s["exc"] and s["must_accept"]:
        a, b, msg = s["first_exc"]
        return "violation", f"rejected although the property requires a result: {msg} [a={a:#b} b={b:#b}; {s['exc']} of {s['evals']} inputs]"
    if s["exc"]:
        return "rejected", None
    return "ok", None


def main(run: Run):
    if not ref.selftest():
        raise ToolError("reference self test failed")
    bd = bounds(run)
    fmts = g.formats(bd["lo"], bd["hi"], bd["maxw"])
    tasks = []
    hw_fmts = set(g.formats(bd["hw_lo"], bd["hw_hi"], bd["hw_maxw"]))
    extra = 0
    for kind in g.KINDS:
        for A in fmts:
            tasks.append(("single", kind, A, bd["maxn"], run.thorough))
            for B in fmts:
                do_hw = A in hw_fmts and B in hw_fmts
                if not do_hw and bd["hw_extra_mod"]:
                    # beyond the complete hw bound: a seed-selected stratum of the remaining pairs
                    do_hw = (fmts.index(A) * 31 + fmts.index(B) * 7 + run.seed) % bd["hw_extra_mod"] == 0
                    extra += do_hw
                srcs = (g.SOURCES[1:] if run.thorough else SRC_SOURCES_QUICK) if (A in bd["src_fmts"] and B in bd["src_fmts"]) else ()
                tasks.append(("pair", kind, A, B, run.thorough, do_hw or bool(srcs), srcs))
    # compile-time constant operands: the run-time operand takes every format of the complete hw bound, the
    # constant every format of const_fmts (thorough: also the whole hw bound), on the left and on the right
    cf = set(bd["const_fmts"]) if bd["const_fmts"] is not None else set(hw_fmts)
    n_const = 0
    for kind in g.KINDS:
        for A in sorted(hw_fmts):
            for B in sorted(hw_fmts):
                sides = ("L" if A in cf else "") + ("R" if B in cf else "")
                if sides:
                    n_const += len(sides)
                    tasks.append(("const", kind, A, B, run.thorough, sides))
    run.count("hw_constant_operand_format_pairs", n_const)
    # resize call shapes: (A, B) formats of the two objects, every target of the same set
    for kind in g.KINDS:
        for A in bd["shape_fmts"]:
            for B in bd["shape_fmts"]:
                hw = A in bd["shape_hw_fmts"] and B in bd["shape_hw_fmts"]
                tasks.append(("shape", kind, A, B, run.thorough, hw, (), tuple(bd["shape_fmts"]), tuple(bd["shape_hw_fmts"])))
    run.count("hw_pairs_complete_bound", 2 * len(hw_fmts) ** 2)
    run.count("hw_operand_source_pairs", 2 * len(bd["src_fmts"]) ** 2)
    run.count("hw_pairs_seed_selected_extra", extra)
    # big tasks first for a better schedule
    tasks.sort(key=lambda t: -(g.width(t[2]) + (g.width(t[3]) if t[0] == "pair" else 3) + (4 if (len(t) > 5 and t[5]) else 0) + (6 if (len(t) > 6 and t[6]) else 0)))
    stasks, n_prog = seq_tasks(bd)
    tasks = stasks + tasks  # the sequence wrappers are the longest single tasks: schedule them first
    run.count("sequence_programs", n_prog)
    run.count("formats", len(fmts) * 2)
    run.count("tasks", len(tasks))
    only = getattr(run, "only", None)
    sampled = set()
    known_instances = {}
    # operation types that have listed findings (their non-failing classes are matched too, see below)
    tokens = {"resize": ("/resize/",), "resize_s": ("/resize/",), "arith": ("/add/", "/sub/", "/mul/"), "eq": ("/eq/",), "ctor_f": ("/ctor/",),
              "ctor_v": ("/ctor/",), "ctor_c": ("/ctor/",), "eqc": ("/eqc/",), "seq": ("/seq/",)}
    known_op_types = {t for t, toks in tokens.items() if any(tok in k.get("key", "") for k in run.known for tok in toks)}
    warm_up()
    for kind_, res in pmap(work, tasks, chunksize=4, seed=run.seed):
        if kind_ != "ok":
            run.tool_error(f"worker failed: {res[-800:]}")
            continue
        run.count("wrapper_entities_compiled", res["info"]["entities"])
        run.count("wrapper_entities_rejected", res["info"]["rejected_entities"])
        run.count("worker_cpu_ms", res["info"]["cpu_ms"])
        for s in res["stats"]:
            op = to_op(s["op"])
            lvl = s["level"]
            if only and op[0] not in only and lvl not in only:
                continue
            lvl_base = lvl.split("@")[0]
            fam = f"{lvl_base}_{op[0]}"
            run.count("operations")
            run.count(f"ops_{fam}")
            if s["note"]:
                run.count("hw_ops_not_attempted" if s["note"].startswith("not attempted") else "hw_ops_skipped_unknown_result_format")
                continue
            run.count("evaluations", s["evals"])
            run.count(f"evals_{fam}", s["evals"])
            run.count(f"evals_{lvl_base}", s["evals"])
            run.count("evaluations_rejected", s["exc"])
            if s["distinct"] >= 2:
                run.count("ops_with_distinct_outcomes")
            verdict, text = classify(s)
            run.count(f"ops_{verdict}")
            if verdict == "ok" and s["distinct"] >= 2 and fam not in sampled and len(sampled) < 8:
                sampled.add(fam)
                run.sample({"level": lvl, "op": op_key(op), "inputs": s["evals"], "distinct_results": s["distinct"]})
            # a failing input is identified by (case, input class): one violation per pair.  A listed finding names
            # its input class, so inputs of the same case that fail outside that class are reported.
            check_known = op[0] in known_op_types
            for cls, cverdict, ctext, first, n_in, n_bad in classify_classes(s):
                run.count("input_classes")
                if cverdict != "violation" and not check_known:
                    continue
                key = f"{finding_key(lvl, op)}/in={cls}"
                entry = run._known_match(key)
                if cverdict != "violation":
                    if entry is not None and cverdict == "ok":
                        # the other direction: every input of a listed class is expected to fail
                        run.count("known_finding_class_not_failing")
                        if run.counters["known_finding_class_not_failing"] <= 10:
                            run.note(f"listed finding no longer fails: {key} ({n_in} inputs correct)")
                            print(f"NOTE property=C19 listed finding no longer fails: {key} ({n_in} inputs correct)", flush=True)
                    continue
                run.count("violating_input_classes")
                if entry is not None:
                    pat = entry.get("key", key)
                    known_instances[pat] = known_instances.get(pat, 0) + 1
                    run.count("known_finding_instances")
                    if n_bad < n_in:
                        run.count("known_finding_class_partly_failing")
                        if run.counters["known_finding_class_partly_failing"] <= 10:
                            run.note(f"listed finding fails for only {n_bad} of {n_in} inputs of its class: {key}")
                            print(f"NOTE property=C19 listed finding fails for only {n_bad} of {n_in} inputs of its class: {key}", flush=True)
                    if known_instances[pat] > 1:
                        continue
                run.violation(key, f"{lvl} {op_key(op)} in={cls}: {ctext}",
                              {"level": lvl, "op": list(op), "a": first[0], "b": first[1], "input_class": cls,
                               "generator": "c19_fixed"})
    if known_instances:
        run.coverage_extra["known_finding_instances_by_entry"] = dict(sorted(known_instances.items()))
    # vacuity guards
    ev = run.counters.get("evaluations", 0)
    rej = run.counters.get("evaluations_rejected", 0)
    if not only:
        for lvl in ("py", "hw"):
            for fam in ("arith", "resize", "eq", "ctor_f", "ctor_v", "ctor_c", "eqc", "seq", "arithc", "resize_s"):
                if run.counters.get(f"evals_{lvl}_{fam}", 0) == 0:
                    run.tool_error(f"vacuous: no {lvl} level evaluation of {fam}")
        if ev == 0 or (ev - rej) * 2 < ev:
            run.tool_error(f"vacuous: only {ev - rej} of {ev} evaluations produced a result")
    run.assume("vsim (own VHDL-2008 subset simulator) implements IEEE 1076/numeric_std semantics")
    run.assume("raw bits enter/leave through std.from_bits / std.to_bits (BitVector <-> fixed point), MSB = left index")
    run.assume("an exception is a violation for + - * and resize (statement: 'of any formats', 'to any target format'), "
               "for == of equal formats, and for constructors whose source type is entirely representable in the target "
               "(constants: when the constant is representable); everywhere else a rejection is accepted")
    run.coverage_extra.update(
        exhaustive=not run.capped,
        rule=(f"all formats [l:r] with {bd['lo']}<=r<=l<={bd['hi']}, width<={bd['maxw']} for SFixed and UFixed; all ordered format "
              "pairs for + - * == and format conversion; all (source,target) pairs x {TRUNCATE,ROUND} x {WRAP,SATURATE} "
              f"+ default styles for resize; construction from Signed[n]/Unsigned[n] n<={bd['maxn']}, from every int and "
              "every half-resolution dyadic float around the range; comparison with those constants; every raw "
              "operand value at the Python level; the same operations in compiled wrappers under vsim for every "
              f"format pair inside {bd['hw_lo']}..{bd['hw_hi']}, width<={bd['hw_maxw']}"
              + (f" plus a seed-selected 1/{bd['hw_extra_mod']} of the remaining pairs" if bd["hw_extra_mod"] else "")
              + f"; operand sources {g.SOURCES[1:] if run.thorough else SRC_SOURCES_QUICK} for every ordered pair of the formats {bd['src_fmts']}"
              + f"; + - * == with a compile-time constant (min, max, -1 LSB / +1 LSB) on the left resp. right: run-time operand of "
              f"every hw format, constant formats {bd['const_fmts'] or 'all hw formats'}; resize call shapes {g.SHAPES} (helper of xa "
              f"held while xb.resize is accessed, resize of xb inside the argument list) for all (xa, xb, target) formats of "
              f"{bd['shape_fmts']} x 4 styles at the Python level, compiled for {bd['shape_hw_fmts']}"
              + "; operation sequences (value-returning operations on a std.Variable/std.Signal that is re-assigned before "
              "the results are used): all well-typed sequences up to the listed depth over {r=T(v), v:=b, v:=r, s=r+v, e=(r==v)} "
              "per take operation T and over the mixed alphabet, all inputs: " + repr(bd["seq"])),
        evaluations=ev,
        distinct_nontrivial=run.counters.get("ops_with_distinct_outcomes", 0),
        bounds=bd,
    )


# ------------------------------------------------------------------------------------------------
# replay
# ------------------------------------------------------------------------------------------------

def replay(run: Run, data):
    """re-execute one stored case: the operation `op` at `level` on the raw operands (a, b)"""
    op = to_op(data["op"])
    a, b = data["a"], data["b"]
    lvl = data["level"]
    if op[0] == "seq":
        return replay_seq(op, lvl, a, b)
    if lvl == "py":
        status, out = g.py_run(op, a, b)
    else:
        shape = result_shape(op, run_py(op))
        if shape is None:
            print("cannot rebuild the wrapper: result format unknown")
            return True
        source = lvl[3:] or "value"
        st = run_hw([op], [shape], [False], source=source)[0][0]
        cls = st.classes.get(data.get("input_class", ""))
        if st.exc:
            status, out = "exc", st.first_exc[2]
        elif st.bad:
            fb = (cls[2] if cls and cls[2] else st.first_bad)
            print(f"reproduced: {lvl} {op_key(op)} a={fb[0]:#b} b={fb[1]:#b}: {fb[2]}")
            return False
        else:
            return True
    if status == "exc":
        if g.must_accept(op):
            print(f"reproduced: {lvl} {g.op_key(op)} rejected: {out}")
            return False
        return True
    msg = g.check_result(op, a, b, out)
    if msg is not None:
        print(f"reproduced: {lvl} {g.op_key(op)} a={a:#b} b={b:#b}: {msg}")
        return False
    return True


def replay_seq(op, lvl, a, b):
    _, kind, A, qual, seq = op
    fa = g.kfmt(kind, A)
    if lvl == "py":
        st = SeqStat(op, "py")
        status, out = seq_py_outcome(kind, A, seq, a, b)
        st.record_seq(a, b, status, out, ref.run_sequence(fa, seq, a, b) if status == "ok" else None)
    else:
        # a fresh wrapper with this program alone, all inputs (cheap), report the stored input if it fails
        stats, _ = run_seq_hw(kind, A, qual, [seq])
        st = stats[0]
        if st.note:
            print("cannot rebuild the wrapper:", st.note)
            return True
    if st.exc:
        if seq_must_accept(seq):
            print(f"reproduced: {lvl} {op_key(op)} rejected: {st.first_exc[2]}")
            return False
        return True
    if st.bad:
        fa_, fb_, msg = st.first_bad
        print(f"reproduced: {lvl} {op_key(op)} a={fa_:#b} b={fb_:#b}: {msg}")
        return False
    return True

"""C05  Type conversions on assignment preserve the value or are rejected.

Bounded-exhaustive matrix: every ordered pair (source, target) over {Bit, bool, BitVector[n], Unsigned[n], Signed[n]}
(n in 1..3; thorough 1..5), integer / Null / Full / bool literals as sources, x every assignment form
{<<= concurrent, .next, <<= sequential, @= variable, .value, ^= push, .push, slice target, element target,
sub-entity port connection, function-return merge, if-expression merge, Signal initialisation (literals)}.
One design per (pair, form); every accepted design is simulated (vsim) for EVERY source value.
Oracle (from the property statement):
  * must-reject table: narrowing, Signed->Unsigned and Unsigned->Signed of width <= source, width-mismatched BitVector
    assignments, Bit/bool <-> vector, literals not representable in the target.  An accepted design of that table is a violation.
  * every accepted design (also outside the table): the target's represented value equals the source's for every source value
    (numbers for numeric types, bit patterns when a BitVector is involved, truth value for Bit/bool, zeros/ones for Null/Full).
A rejection is never a violation (rejected-but-allowed pairs are only counted).
"""
from __future__ import annotations

import itertools

from ..cohdl_util import compile_source
from ..core import Run, pmap, chunked
from ..vhdl.elab import compile_design, signed_of
from ..vhdl import rt
from ..vhdl.parser import Unsupported, VhdlSyntaxError

LEVEL = "exploration"

FORMS = ["conc", "next", "seq", "var", "value", "push", "pushprop", "slice", "elem", "port", "ret", "ifexp", "linit_sig", "linit_var",
         "view", "view_seq",
         # _x: the source is an expression RESULT (an intermediate), not a declared object; _null: the other arm of a merge is
         # Null (arms cannot be joined into one type); port_ctx*: instance created inside a concurrent context
         "conc_x", "seq_x", "var_x", "push_x", "port_ctx", "port_ctx_x", "ifexp_null", "ifexp_null_x", "ret_null", "ret_null_x",
         "linit_var_merge", "linit_var_merge_x", "ifexp_x", "ret_x",
         # local declarations initialised from an expression result; Temporary declarations; a locally declared signal read
         # back through a typed view (lsig_view: the local signal has another vector kind, the view restores the source kind)
         "linit_var_x", "linit_sig_x", "ltemp", "ltemp_x", "lsig_view", "lvar_view",
         # whole-array / element assignment between std.Array objects whose element types are the source and target type
         "sarr_whole", "sarr_elem",
         # select_with WITHOUT default: the last alternative is emitted as `when others`
         "selnd", "selnd_seq"]
LIT_FORMS = ["conc", "seq", "var", "push", "init", "slice", "port", "ret", "ifexp", "view", "merge2", "ret2", "pdefault", "linit_var", "ctor"]


def types(maxw):
    out = [("Bit",), ("bool",)]
    for k in ("BitVector", "Unsigned", "Signed"):
        for n in range(1, maxw + 1):
            out.append((k, n))
    return out


def tsrc(t):
    return t[0] if len(t) == 1 else f"{t[0]}[{t[1]}]"


def width(t):
    return 1 if len(t) == 1 else t[1]


def is_vec(t):
    return t[0] in ("BitVector", "Unsigned", "Signed")


LITS = [("int", v) for v in (-2, -1, 0, 1, 2, 3, 4, 7, 8)] + [("Null",), ("Full",), ("True",), ("False",)] + \
       [("str", b) for b in ("1", "10", "101", "0110", "11010", "100110")]


def lit_src(l):
    if l[0] == "str":
        return repr(l[1])
    return str(l[1]) if l[0] == "int" else l[0]


def must_reject(s, t):
    """s: type tuple or literal tuple.  Returns True / False (must be value preserving if accepted; acceptance not demanded)"""
    if s[0] in ("Null", "Full"):
        return False
    if s[0] == "str":
        # bit string literal: a width-mismatched BitVector assignment is an error; Bit/bool targets are not covered
        return is_vec(t) and len(s[1]) != t[1]
    if s[0] == "Integer":
        # run-time integer (Signal[int]): representability is not statically decidable; the statement lists integer
        # LITERALS only.  Accepted designs are checked for well-typed VHDL and value preservation of in-range values.
        return False
    if s[0] in ("True", "False"):
        # Python bool literals are the integers 1 / 0: always representable in numeric targets; other targets are not
        # covered by the statement
        return False
    if s[0] == "int":
        v = s[1]
        if t[0] == "Unsigned":
            return not (0 <= v < (1 << t[1]))
        if t[0] == "Signed":
            return not (-(1 << (t[1] - 1)) <= v < (1 << (t[1] - 1)))
        return False  # int -> Bit / bool / BitVector: not covered by the statement
    if not is_vec(s) or not is_vec(t):
        # Bit / bool involved.  vector -> bool is the documented truth-value test (non-zero), not an assignment between
        # Bit and vector: left open (neither demanded nor forbidden, no value comparison)
        if is_vec(s) and t == ("bool",):
            return False
        return is_vec(s) != is_vec(t)
    ks, ws, kt, wt = s[0], s[1], t[0], t[1]
    if ks == "BitVector" or kt == "BitVector":
        return ws != wt
    if ks == kt:
        return wt < ws
    if ks == "Unsigned" and kt == "Signed":
        return wt <= ws
    if ks == "Signed" and kt == "Unsigned":
        return wt <= ws  # equal width (explicit in the statement) and narrowing; wider is judged by value preservation only
    return False


def src_values(s):
    if s[0] in ("Bit", "bool"):
        return [0, 1]
    if s[0] == "Integer":
        return list(range(8))  # raw bits of the Signed[3] port feeding the integer signal: -4..3
    if is_vec(s):
        return list(range(1 << s[1]))
    return [None]


def expected(s, raw, t):
    """expected raw target bits (int) for source raw bits, or None if the source value is not representable (then an
    accepted design necessarily changes the value -> violation)"""
    wt = width(t)
    mt = (1 << wt) - 1
    if s[0] == "Null":
        return 0
    if s[0] == "Full":
        return mt
    if s[0] == "str":
        if not is_vec(t):
            return "open"
        return int(s[1], 2) if len(s[1]) == wt else None
    if s[0] in ("True", "False"):
        v = 1 if s[0] == "True" else 0
        if not is_vec(t) or t[0] == "Unsigned":
            return v
        if t[0] == "Signed":
            return v if (v == 0 or wt >= 2) else None
        return "open"
    if s[0] == "int":
        v = s[1]
        if t[0] == "Unsigned":
            return v if 0 <= v <= mt else None
        if t[0] == "Signed":
            return v & mt if -(1 << (wt - 1)) <= v < (1 << (wt - 1)) else None
        return "open"
    if s[0] == "Integer":
        num = signed_of(raw, 3)
        if t[0] == "Unsigned":
            return num if 0 <= num <= mt else "open"
        if t[0] == "Signed":
            return num & mt if -(1 << (wt - 1)) <= num < (1 << (wt - 1)) else "open"
        return "open"
    if not is_vec(s) and not is_vec(t):
        return raw
    if is_vec(s) and t == ("bool",):
        return "open"
    if is_vec(s) != is_vec(t):
        return None
    ws = s[1]
    if s[0] == "BitVector" or t[0] == "BitVector":
        return raw if ws == wt else None
    num = raw if s[0] == "Unsigned" else signed_of(raw, ws)
    if t[0] == "Unsigned":
        return num if 0 <= num <= mt else None
    return num & mt if -(1 << (wt - 1)) <= num < (1 << (wt - 1)) else None


HDR = "from cohdl import std, Entity, Port, Bit, BitVector, Unsigned, Signed, Signal, Variable, Temporary, Null, Full\nimport cohdl\n"


def render(s, t, form):
    S = lit_src(s) if s[0] in ("int", "Null", "Full", "True", "False", "str") else None
    T = tsrc(t)
    src = S if S is not None else "self.src"
    wt = width(t)
    L = [HDR]
    if form.endswith("_x"):
        src = "(self.src | self.src)"
        form_x, form = form, form[:-2]
    if form in ("port", "port_ctx"):
        L += ["class Sub(Entity):", f"    x = Port.input({T})", f"    y = Port.output({T})", "    def architecture(self):",
              "        @std.concurrent", "        def logic():", "            self.y <<= self.x", ""]
    L += ["class T(Entity):", "    clk = Port.input(Bit)", "    c = Port.input(Bit)"]
    if s == ("Integer",):
        L.append("    srci = Port.input(Signed[3])")
        if not form.startswith("pdefault"):
            src = "isrc"
    elif S is None:
        L.append(f"    src = Port.input({tsrc(s)})")
    L.append(f"    alt = Port.input({T})")
    if form in ("merge2", "ret2"):
        L.append(f"    nar = Port.input(Unsigned[{wt - 1}])")
    if form == "pdefault":
        L.append(f"    tgtd = Port.output({T}, default={src})")
    dflt = ", default=Null" if form in ("push", "pushprop") else ""
    view = None
    if form in ("view", "view_seq"):
        # the target is a typed view of a port declared with another vector kind of the same width
        decl, view = {"Signed": ("Unsigned", "signed"), "Unsigned": ("Signed", "unsigned"), "BitVector": ("Unsigned", "bitvector")}[t[0]]
        L.append(f"    tgt = Port.output({decl}[{wt}])")
    elif form == "slice":
        L.append(f"    big = Port.output(BitVector[{wt + 2}])")
    elif form == "elem":
        L.append("    big = Port.output(BitVector[3])")
    else:
        L.append(f"    tgt = Port.output({T}{dflt})")
    L.append("    def architecture(self):")
    if s == ("Integer",):
        L += ["        isrc = Signal[int](0, name='isrc')", "        @std.concurrent", "        def feed():", "            isrc.next = self.srci"]
    seq = "        @std.sequential(std.Clock(self.clk))"
    con = "        @std.concurrent"
    if form == "conc":
        L += [con, "        def logic():", f"            self.tgt <<= {src}"]
    elif form == "next":
        L += [con, "        def logic():", f"            self.tgt.next = {src}"]
    elif form == "seq":
        L += [seq, "        def proc():", f"            self.tgt <<= {src}"]
    elif form == "var":
        L += [seq, "        def proc():", f"            v = Variable[{T}]()", f"            v @= {src}", "            self.tgt <<= v"]
    elif form == "value":
        L += [seq, "        def proc():", f"            v = Variable[{T}]()", f"            v.value = {src}", "            self.tgt <<= v"]
    elif form == "push":
        L += [seq, "        def proc():", f"            self.tgt ^= {src}"]
    elif form == "pushprop":
        L += [seq, "        def proc():", f"            self.tgt.push = {src}"]
    elif form == "init":
        L += [f"        s = Signal[{T}]({src})", con, "        def logic():", "            self.tgt <<= s"]
    elif form == "linit_sig":
        L += [seq, "        def proc():", f"            s = Signal[{T}]({src})", "            self.tgt <<= s"]
    elif form == "linit_var":
        L += [seq, "        def proc():", f"            v = Variable[{T}]({src})", "            self.tgt <<= v"]
    elif form in ("sarr_whole", "sarr_elem"):
        L += [f"        asrc = std.Array[{tsrc(s)}, 2](name='asrc')", f"        adst = std.Array[{T}, 2](name='adst')",
              seq, "        def proc():", "            nonlocal adst", f"            asrc[0] <<= {src}", f"            asrc[1] <<= {src}"]
        L += ["            adst <<= asrc"] if form == "sarr_whole" else ["            adst[0] <<= asrc[0]", "            adst[1] <<= asrc[1]"]
        L += ["            self.tgt <<= adst[1]"]
    elif form in ("selnd", "selnd_seq"):
        L += [con if form == "selnd" else seq, "        def logic():", f"            self.tgt <<= cohdl.select_with(self.c, {{False: self.alt, True: {src}}})"]
    elif form == "ltemp":
        L += [seq, "        def proc():", f"            tmp = Temporary[{T}]({src})", "            self.tgt <<= tmp"]
    elif form in ("lsig_view", "lvar_view"):
        k2 = {"BitVector": "Unsigned", "Unsigned": "Signed", "Signed": "BitVector"}[s[0]]
        back = {"BitVector": "bitvector", "Unsigned": "unsigned", "Signed": "signed"}[s[0]]
        q = "Signal" if form == "lsig_view" else "Variable"
        L += [seq, "        def proc():", f"            loc = {q}[{k2}[{s[1]}]]({src}.{k2.lower()})", f"            self.tgt <<= loc.{back}"]
    elif form == "view":
        L += [con, "        def logic():", f"            self.tgt.{view} <<= {src}"]
    elif form == "view_seq":
        L += [seq, "        def proc():", f"            self.tgt.{view} <<= {src}"]
    elif form == "slice":
        L += [con, "        def logic():", f"            self.big[{wt}:1] <<= {src}", "            self.big[0] <<= False",
              f"            self.big[{wt + 1}] <<= False"]
    elif form == "elem":
        L += [con, "        def logic():", f"            self.big[1] <<= {src}", "            self.big[0] <<= False", "            self.big[2] <<= False"]
    elif form == "port":
        L += [f"        Sub(x={src}, y=self.tgt)"]
    elif form == "port_ctx":
        L += [con, "        def logic():", f"            Sub(x={src}, y=self.tgt)"]
    elif form == "ifexp_null":
        L += [con, "        def logic():", f"            self.tgt <<= {src} if self.c else Null"]
    elif form == "ret_null":
        L += ["        def f():", "            if self.c:", f"                return {src}", "            return Null",
              seq, "        def logic():", "            self.tgt <<= f()"]
    elif form == "linit_var_merge":
        L += [seq, "        def proc():", f"            v = Variable[{T}]({src} if self.c else Null)", "            self.tgt <<= v"]
    elif form == "ret":
        L += ["        def f():", "            if self.c:", f"                return {src}", "            return self.alt",
              seq, "        def logic():", "            self.tgt <<= f()"]
    elif form == "ifexp":
        L += [con, "        def logic():", f"            self.tgt <<= {src} if self.c else self.alt"]
    elif form == "merge2":
        # the literal is the SECOND arm, the first arm is a strictly narrower Unsigned run-time value
        L += [con, "        def logic():", f"            self.tgt <<= self.nar if self.c else {src}"]
    elif form == "ret2":
        L += ["        def f():", "            if self.c:", "                return self.nar", f"            return {src}",
              seq, "        def logic():", "            self.tgt <<= f()"]
    elif form == "pdefault":
        L += [seq, "        def proc():", "            if self.c:", "                self.tgtd <<= self.alt", con, "        def pub():", "            self.tgt <<= self.tgtd"]
    elif form == "ctor":
        L += [con, "        def logic():", f"            self.tgt <<= {T}({src})"]
    L.append("")
    return "\n".join(L)


def applicable(s, t, form):
    if form == "slice":
        return t[0] == "BitVector"
    if form == "elem":
        return t == ("Bit",)
    if form == "init":
        return s[0] in ("int", "Null", "Full", "True", "False", "str")
    if form in ("view", "view_seq"):
        return is_vec(t)
    if form in ("merge2", "ret2"):
        # (a bit string literal in a merge takes the type of the other, narrower arm: not a width mismatch)
        return t[0] in ("Unsigned", "Signed") and t[1] >= 2 and s[0] != "str"
    if form in ("pdefault", "ctor"):
        return s[0] in ("int", "Null", "Full", "True", "False", "str")
    if form.endswith("_x"):
        # expression sources: objects of vector / Bit type (`x | x` has the type and value of x)
        if s[0] not in ("Bit", "BitVector", "Unsigned", "Signed"):
            return False
        return applicable(s, t, form[:-2])
    if form in ("lsig_view", "lvar_view"):
        return is_vec(s)
    if form in ("sarr_whole", "sarr_elem"):
        return is_vec(s) and is_vec(t)
    if form in ("ifexp_null", "ret_null", "linit_var_merge"):
        return is_vec(t) and s[0] not in ("int", "Null", "Full", "True", "False")
    if form == "port_ctx":
        return s[0] not in ("int", "Null", "Full", "True", "False")
    return True


def analyse(s, t, form):
    src = render(s, t, form)
    must = must_reject(s, t)
    res, _ = compile_source(src)
    if not res.ok:
        return {"status": "rejected", "must": must, "error": res.error}
    out = {"status": "accepted", "must": must, "src": src, "problems": [], "evals": 0}
    try:
        d = compile_design(res.vhdl)
    except VhdlSyntaxError as e:
        out["problems"].append(("syntax", str(e)))
        return out
    except Unsupported as e:
        return {"status": "tool", "what": str(e)}
    if d.findings:
        out["problems"].append(("static-" + d.findings[0].rule, repr(d.findings[0])))
        return out
    wt = width(t)
    if form.endswith("_x"):
        form = form[:-2]
    clocked = form in ("seq", "var", "value", "push", "pushprop", "linit_sig", "linit_var", "view_seq", "pdefault", "linit_var_merge",
                       "ret", "ret2", "ret_null", "ltemp", "lsig_view", "lvar_view", "sarr_whole", "sarr_elem", "selnd_seq")
    is_lit = s[0] in ("int", "Null", "Full", "True", "False", "str")
    sim = d.sim(init=dict(clk=0, c=1))
    for raw in src_values(s):
        if s == ("Integer",) and expected(s, raw, t) == "open":
            continue  # out-of-range run-time integer: numeric_std reports a range error, nothing is claimed
        try:
            kv = {"c": 1, "alt": 0}
            if form in ("merge2", "ret2"):
                kv = {"c": 0, "alt": 0, "nar": 0}
            if form == "pdefault":
                kv = {"c": 0, "alt": 0}
            if s == ("Integer",):
                kv["srci"] = raw
            elif not is_lit:
                kv["src"] = raw
            sim.set_many(kv)
            if clocked:
                for _ in range(3 if form.startswith("sarr") else 1):
                    sim.clock()
            if form in ("slice", "elem"):
                big = sim.get("big")
                got = None if big is None else (big >> 1) & ((1 << wt) - 1)
            else:
                got = sim.get("tgt")
                if isinstance(got, bool):
                    got = int(got)
        except rt.SimError as e:
            out["problems"].append(("simerror", f"source value {raw}: {e}"))
            break
        out["evals"] += 1
        exp = expected(s, raw, t)
        if exp == "open":
            continue
        if exp is None:
            out["problems"].append(("value-not-preservable", f"source {lit_src(s) if is_lit else raw} of {tsrc(s) if not is_lit else 'literal'} is not "
                                                             f"representable in {tsrc(t)} but the design was accepted (target={got})"))
            break
        if got != exp:
            out["problems"].append(("value", f"source {lit_src(s) if is_lit else raw}: target bits {got}, expected {exp}"))
            break
        if form in ("merge2", "ret2"):
            for a in range(1 << (wt - 1)):
                sim.set_many({"c": 1, "nar": a})
                if clocked:
                    sim.clock()
                g = sim.get("tgt")
                if g != a:
                    out["problems"].append(("value", f"merge with c=1: target {g}, expected nar={a}"))
                    break
        if form in ("ifexp_null", "ret_null", "linit_var_merge"):
            # other branch: Null
            sim.set_many({"c": 0})
            if clocked:
                sim.clock()
            g = sim.get("tgt")
            if g != 0:
                out["problems"].append(("value", f"merge with c=0: target {g}, expected Null (0)"))
                break
        if form in ("ret", "ifexp", "selnd", "selnd_seq"):
            # other branch: alt must pass through unchanged
            for a in range(1 << wt):
                sim.set_many({"c": 0, "alt": a})
                if clocked:
                    sim.clock()
                g = sim.get("tgt")
                g = int(g) if isinstance(g, bool) else g
                if g != a:
                    out["problems"].append(("value", f"merge with c=0: target {g}, expected alt={a}"))
                    break
    return out


def work(tasks):
    return [(s, t, f, analyse(s, t, f)) for s, t, f in tasks]


def main(run: Run):
    maxw = 6 if run.thorough else 4
    T = types(maxw)
    tasks = []
    for s in T + [("Integer",)]:
        for t in T:
            for f in FORMS:
                if applicable(s, t, f):
                    tasks.append((s, t, f))
    for l in LITS:
        for t in T:
            for f in LIT_FORMS:
                if applicable(l, t, f):
                    tasks.append((l, t, f))
    run.count("designs_generated", len(tasks))
    accepted_forms = set()
    for kind, res in pmap(work, list(chunked(tasks, 40))):
        if kind != "ok":
            run.tool_error(f"worker: {res[-500:]}")
            continue
        for s, t, f, r in res:
            sname = lit_src(s) if s[0] in ("int", "Null", "Full", "True", "False", "str") else tsrc(s)
            ident = f"{sname}->{tsrc(t)}/{f}"
            st = r["status"]
            run.count("designs_" + st)
            if st == "tool":
                run.tool_error(f"{ident}: {r['what']}")
                continue
            if r["must"]:
                run.count("pairs_in_must_reject_table")
            if st == "rejected":
                if not r["must"]:
                    run.count("rejected_although_allowed")
                continue
            run.count("evaluations", r["evals"])
            if r["must"]:
                run.violation(f"conv/{ident}/accepted", f"{ident}: accepted although the statement lists this conversion as a compile-time error",
                              {"source": list(s), "target": list(t), "form": f, "cohdl_source": r["src"]})
            for rule in sorted({p[0] for p in r["problems"]}):
                msg = next(p[1] for p in r["problems"] if p[0] == rule)
                if rule == "value-not-preservable" and r["must"]:
                    continue  # same root cause as 'accepted'
                run.violation(f"conv/{ident}/{rule}", f"{ident}: [{rule}] {msg}", {"source": list(s), "target": list(t), "form": f, "cohdl_source": r["src"]})
            if not r["must"] and not r["problems"]:
                run.count("accepted_value_preserving")
                accepted_forms.add(f)
                if len(run.samples) < 5:
                    run.sample({"conversion": ident, "source_values_checked": r["evals"]})
    dead = sorted({f for _, _, f in tasks} - accepted_forms)
    if dead and not run.only:
        run.tool_error(f"vacuous: no accepted value-preserving design for assignment form(s) {dead}")
    if run.counters.get("accepted_value_preserving", 0) < 100 or run.counters.get("pairs_in_must_reject_table", 0) < 100:
        run.tool_error("vacuous: too few accepted or too few must-reject designs")
    run.coverage_extra.update(
        distinct_nontrivial=run.counters.get("accepted_value_preserving", 0) + run.counters.get("pairs_in_must_reject_table", 0),
        exhaustive=True,
        rule=f"all ordered (source, target) pairs over Bit, bool, BitVector/Unsigned/Signed[1..{maxw}] and 13 literals x all applicable assignment "
             "forms; every accepted design simulated for every source value",
    )
    run.counters.setdefault("evaluations", 0)


def replay(run: Run, data):
    r = analyse(tuple(data["source"]), tuple(data["target"]), data["form"])
    print(r.get("status"), r.get("must"), r.get("problems"))
    return not (r["status"] == "accepted" and (r["must"] or r["problems"]))

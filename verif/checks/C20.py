"""C20  AXI4-Lite register maps decode, mask and hand-shake correctly.

Explicit-state product BFS (verif/mc/explorer.bfs) of

    (register-map design compiled by cohdl, simulated by vsim)
  x (byte-array register model + AXI transaction/protocol monitor, verif/ref/c20_model.py)
  x (protocol-respecting master + hardware-side environment)

per register-map layout (verif/gen/c20_layouts.py) and per alphabet variant.  Each variant is explored to exhaustion
(or to the stated state cap -> reported as capped).  Variants are independent BFS tasks (pmap).

Environment, per clock: on each of AW, W, AR the master may start a transfer (any payload of the variant's alphabet)
if it is not already offering one and fewer than `maxo` of its requests on that channel are unanswered; once started
it holds valid+payload until the ready handshake; bready and rready are free in every clock; the hardware-side inputs
are free in every clock (values of the layout).  While a channel is idle the payload lines carry trap values (a mapped
address / full strobes / a data word outside the alphabet) so that a slave using payload without valid is caught.
Reset is held inactive.

Known-defect handling: a violation of the register rule is attributed to the write input (address:class, strobe) that
could not be explained; it is reported (key = layout/regs/write/addr=..:cls/strb=..), that input pair is removed from
the environment (the i-th AW pairs with the i-th W) and the exploration is repeated, so that every other input is still
checked against the unmodified oracle.  Any other violation ends the variant.
"""
from __future__ import annotations

import itertools
import time

from ..core import Run, pmap, chunked, ToolError
from ..cohdl_util import compile_source
from ..gen.c20_layouts import LAYOUTS
from ..gen import c20_trees, c20_objects
from ..mc.explorer import bfs
from ..ref.c20_model import Monitor, RegModel, Violation, STALL_LIMIT, UNOBSERVED
from ..vhdl.elab import compile_design
from ..vhdl import rt
from ..vhdl.parser import Unsupported, VhdlSyntaxError

LEVEL = "model_checking"

DATA_A = 0xA1B2C3D4
DATA_B = 0x5E6F7081
TRAP_DATA = 0x0F1E2D3C
S0000, S0001, S0110, S1111 = 0b0000, 0b0001, 0b0110, 0b1111

OUT_SL = ("axi_awready", "axi_wready", "axi_arready", "axi_bvalid", "axi_rvalid")
OUT_VEC = ("axi_bresp", "axi_rdata", "axi_rresp")

_vhdl_cache = {}


def emitted_vhdl(layout_name):
    if layout_name not in _vhdl_cache:
        res, _ = compile_source(LAYOUTS[layout_name]["source"], entity="T")
        _vhdl_cache[layout_name] = res
    return _vhdl_cache[layout_name]


class Rejected(ToolError):
    """the compiler rejected the layout (a tool error for the fixed layouts, counted for the generated family)"""


class NeedKeep(Exception):
    """a compiler-generated process variable is live across activations: keep it in the snapshots"""

    def __init__(self, names):
        self.names = names


class AxiSystem:
    """DUT (vsim) x Monitor/RegModel x master environment."""

    def __init__(self, cfg, keep=()):
        self.cfg = cfg
        layout = LAYOUTS[cfg["layout"]]
        self.layout = layout
        res = emitted_vhdl(cfg["layout"])
        if not res.ok:
            raise Rejected(f"layout {cfg['layout']} rejected by the compiler: {res.error}")
        try:
            d = compile_design(res.vhdl, poison=True, poison_exclude=tuple(sorted(keep)))
        except Unsupported as e:
            raise ToolError(f"vsim: unsupported construct in layout {cfg['layout']}: {e}")
        except VhdlSyntaxError as e:
            raise ToolError(f"emitted VHDL of layout {cfg['layout']} does not parse: {e}")
        if "falling_edge" in res.vhdl.lower() or "'event" in res.vhdl.lower():
            raise ToolError("design uses the falling clock edge: the step function assumes it does not")
        if d.findings or d.multi_driven:
            raise ToolError(f"static findings in emitted VHDL of {cfg['layout']}: {d.findings} {d.multi_driven}")
        self.sim = sim = d.sim()
        self.model = RegModel(layout)
        self.mon = Monitor(self.model)
        p = sim.ports
        self.p = p
        sid = lambda n: p[n][0]
        self.s_clk = sid("axi_clk")
        self.s = {n: sid(n) for n in p}
        self.addrs = tuple(cfg["addrs"])
        self.wpay = tuple(tuple(x) for x in cfg["wpay"])
        self.maxo = cfg["maxo"]
        self.exclude = {tuple(x) for x in cfg.get("exclude", ())}
        hw_ports = [h[0] for h in layout["hw"]]
        hw_vals = cfg.get("hw")
        if hw_vals is None:
            hw_vals = {h[0]: h[2] for h in layout["hw"]}
        self.hw_ports = hw_ports
        self.hw_menu = [dict(zip(hw_ports, combo)) for combo in itertools.product(*[hw_vals[n] for n in hw_ports])]
        self.hw_vec = {n: p[n][1][0] == "vec" for n in hw_ports}
        self.trap_addr = layout["regs"][0]["addr"]
        self.reg_sids = [(sid(n), p[n][1][0] == "vec") if n is not None else (None, False) for n in self.model.ports]
        self.note_sids = [sid(port) for _, _, port in self.model.notes]
        self.ready_free = [(b, r) for b in (0, 1) for r in (0, 1)]
        # initial inputs
        N = sim.N
        for n, (s_, ty, mode) in p.items():
            if mode == "in":
                N[s_] = (0, 0) if ty[0] == "vec" else 0
        N[self.s["axi_reset"]] = 1  # active low: inactive
        N[self.s["axi_awaddr"]] = (self.trap_addr, 0)
        N[self.s["axi_araddr"]] = (self.trap_addr, 0)
        N[self.s["axi_wdata"]] = (TRAP_DATA, 0)
        N[self.s["axi_wstrb"]] = (S1111, 0)
        for n in hw_ports:
            v = self.hw_menu[0][n]
            N[self.s[n]] = (v, 0) if self.hw_vec[n] else v
        sim.settle()
        del sim.PR[:]
        self.last = None

    # ---- explorer interface
    def snapshot(self):
        return (self.sim.snapshot(), self.mon.snapshot())

    def restore(self, s):
        self.sim.restore(s[0])
        self.mon.restore(s[1])

    def observe(self):
        S = self.sim.S
        s = self.s
        return (S[s["axi_bvalid"]], S[s["axi_rvalid"]], S[s["axi_rdata"]]) + tuple(S[x] for x, _ in self.reg_sids if x is not None)

    def _pairs_ok(self, aw, w):
        """would starting AW=aw (addr|None) and W=w ((data,strb)|None) now form an excluded (addr, strb) pair?"""
        if not self.exclude:
            return True
        mon = self.mon
        A = mon.aw_issued()
        W = mon.w_issued()
        la, lw = len(A), len(W)
        if aw is not None:
            A = A + (aw,)
        if w is not None:
            W = W + (w,)
        for i in range(min(la, lw), min(len(A), len(W))):
            if (A[i], W[i][1]) in self.exclude:
                return False
        return True

    def choices(self):
        mon = self.mon
        aw_opts = (None,)
        if mon.aw_hold is None and mon.writes_outstanding_aw() < self.maxo:
            aw_opts = (None,) + self.addrs
        w_opts = (None,)
        if mon.w_hold is None and mon.writes_outstanding_w() < self.maxo:
            w_opts = (None,) + self.wpay
        ar_opts = (None,)
        if mon.ar_hold is None and mon.reads_outstanding() < self.maxo:
            ar_opts = (None,) + self.addrs
        out = []
        nhw = range(len(self.hw_menu))
        for aw in aw_opts:
            for w in w_opts:
                if (aw is not None or w is not None) and not self._pairs_ok(aw, w):
                    continue
                for ar in ar_opts:
                    for br in self.ready_free:
                        for h in nhw:
                            out.append((aw, w, ar, br[0], br[1], h))
        return out

    def apply(self, ch):
        try:
            self.step(ch)
        except Violation as v:
            self.last = v
            return f"[{v.rule}] {v.text}"
        return None

    def step(self, ch):
        try:
            self._step(ch)
        except rt.SimError as e:  # hard run-time error in the design (index/range violation ...)
            raise Violation("simerror", "", f"simulation error in the emitted design: {e}")

    def _step(self, ch):
        aw, w, ar, bready, rready, h = ch
        if w is not None:
            w = tuple(w)
        sim = self.sim
        N = sim.N
        S = sim.S
        s = self.s
        mon = self.mon
        if aw is not None:
            mon.aw_hold = aw
        if w is not None:
            mon.w_hold = w
        if ar is not None:
            mon.ar_hold = ar
        # drive the master side
        if mon.aw_hold is not None:
            N[s["axi_awvalid"]] = 1
            N[s["axi_awaddr"]] = (mon.aw_hold, 0)
        else:
            N[s["axi_awvalid"]] = 0
            N[s["axi_awaddr"]] = (self.trap_addr, 0)
        if mon.w_hold is not None:
            N[s["axi_wvalid"]] = 1
            N[s["axi_wdata"]] = (mon.w_hold[0], 0)
            N[s["axi_wstrb"]] = (mon.w_hold[1], 0)
        else:
            N[s["axi_wvalid"]] = 0
            N[s["axi_wdata"]] = (TRAP_DATA, 0)
            N[s["axi_wstrb"]] = (S1111, 0)
        if mon.ar_hold is not None:
            N[s["axi_arvalid"]] = 1
            N[s["axi_araddr"]] = (mon.ar_hold, 0)
        else:
            N[s["axi_arvalid"]] = 0
            N[s["axi_araddr"]] = (self.trap_addr, 0)
        N[s["axi_bready"]] = bready
        N[s["axi_rready"]] = rready
        hw = self.hw_menu[h]
        for n in self.hw_ports:
            v = hw[n]
            N[s[n]] = (v, 0) if self.hw_vec[n] else v
        # the falling clock edge coincides with the change of the inputs (nothing in the designs is sensitive to
        # it: checked in __init__), the rising edge follows after the inputs have settled
        N[self.s_clk] = 0
        sim.settle()
        pre = self._sample()
        N[self.s_clk] = 1
        sim.settle()
        if sim.PR:
            raise NeedKeep(sim.poisoned_reads())
        if sim.A:
            a = sim.A[0]
            del sim.A[:]
            raise Violation("assertion", "", f"VHDL assertion fired: {a}")
        post = self._sample()
        regs = []
        for x, isvec in self.reg_sids:
            if x is None:
                regs.append(UNOBSERVED)
                continue
            v = S[x]
            if isvec:
                regs.append(None if v[1] else v[0])
            else:
                regs.append(None if v == 2 else v)
        post["regs"] = tuple(regs)
        post["notes"] = tuple(None if S[x] == 2 else S[x] for x in self.note_sids)
        mon.step(bready, rready, hw, pre, post)

    def _sample(self):
        S = self.sim.S
        s = self.s
        d = {}
        for n in OUT_SL:
            v = S[s[n]]
            d[n[4:]] = None if v == 2 else v
        for n in OUT_VEC:
            v = S[s[n]]
            d[n[4:]] = None if v[1] else v[0]
        return d


# ----------------------------------------------------------------------------------------------------------
# exploration of one variant (worker)
# ----------------------------------------------------------------------------------------------------------
def make_system(cfg):
    """build the system; compiler-generated variables that are live across activations are found dynamically
    (vsim poison mode reports a read-before-write in an activation) and kept in the snapshots"""
    if cfg["layout"] not in LAYOUTS:
        if cfg["layout"].startswith("tree/"):
            LAYOUTS[cfg["layout"]] = c20_trees.build(cfg["layout"][5:])
        elif cfg["layout"].startswith("pair/"):
            LAYOUTS[cfg["layout"]] = c20_trees.build_pair(cfg["layout"][5:])
        elif cfg["layout"].startswith("obj/"):
            LAYOUTS[cfg["layout"]] = c20_objects.build(cfg["layout"][4:])
    return AxiSystem(cfg, keep=cfg.get("keep", ()))


# ----------------------------------------------------------------------------------------------------------
# address-decode sweep over the generated nesting family (one deterministic master, every word address of the window)
# ----------------------------------------------------------------------------------------------------------
def sweep_data(a):
    return 0xD1C2B3A4 ^ ((a >> 2) * 0x01010101)


def tree_cfg(code, keep=()):
    """cfg of a generated layout: code = "tree/<chain>" | "obj/<object options>" (plain chain codes mean trees)"""
    name = code if code.startswith(("tree/", "obj/", "pair/")) else "tree/" + code
    return {"name": name, "layout": name, "tree": name, "addrs": [], "wpay": [], "maxo": 1, "hw": None,
            "max_states": 0, "keep": sorted(keep)}


def sweep_ops(layout):
    if layout.get("sweep") == "options":
        return option_sweep_ops(layout)
    # decode sweep: every word address of the window is written once with its own data word (ascending), then every
    # address is read, then written again in descending order with the complemented data and read again
    win = layout["window"]
    ops = [("w", a, sweep_data(a), S1111) for a in win] + [("r", a) for a in win]
    ops += [("w", a, sweep_data(a) ^ 0xFFFFFFFF, S1111) for a in reversed(win)] + [("r", a) for a in reversed(win)]
    return ops


def option_sweep_ops(layout):
    """object-option sweep: read the whole window under both hardware-side valuations (defaults, hw-driven values);
    then for every word of the object, the sentinel and one unmapped address and for EVERY write strobe s:
    background write (other data word, strobes 1111), write (data word, s), read back every mapped word;
    memories with allow_unaligned additionally: dword writes/reads at every unaligned byte address inside the memory"""
    win = layout["window"]
    mapped = [r["addr"] + 4 * w for r in layout["regs"] for w in range(r.get("words", 1))]
    nhw = 1
    for _, _, vals in layout["hw"]:
        nhw *= len(vals)
    ops = [("h", 0)] + [("r", a) for a in win]
    if nhw > 1:
        ops += [("h", nhw - 1)] + [("r", a) for a in win] + [("h", 0)]
    targets = mapped + [layout["unmapped"][0]]
    k = 0
    for a in targets:
        for s in range(16):
            d, bg = (DATA_A, DATA_B) if k % 2 == 0 else (DATA_B, DATA_A)
            k += 1
            ops += [("w", a, bg, S1111), ("w", a, d, s)] + [("r", x) for x in mapped]
        if nhw > 1:
            ops += [("h", nhw - 1), ("r", a), ("h", 0)]
    for a in layout.get("unaligned", ()):
        d = DATA_A if (a & 4) else DATA_B
        ops += [("w", a, d, S1111), ("r", a)] + [("r", x) for x in mapped]
    return ops


def run_sweep(system, ops, trace):
    """sequential master: AW and W offered together, bready/rready high; one transaction at a time.
    The monitor checks every clock (all register outputs, read data, protocol).  Raises Violation."""
    mon = system.mon
    h = 0
    for op in ops:
        if op[0] == "h":
            h = op[1]
            continue
        idle = (None, None, None, 1, 1, h)
        ch = (op[1], (op[2], op[3]), None, 1, 1, h) if op[0] == "w" else (None, None, op[1], 1, 1, h)
        trace.append(ch)
        system.step(ch)
        n = 0
        while mon.aw_hold is not None or mon.w_hold is not None or mon.ar_hold is not None or mon.wr_pend or mon.rd_pend \
                or mon.aw_q or mon.w_q:
            trace.append(idle)
            system.step(idle)
            n += 1
            if n > 4 * STALL_LIMIT:
                raise Violation("sweep-stall", "", f"transaction {op[0]}@0x{op[1]:x} not completed after {n} clocks")
        for _ in range(system.layout.get("settle_clocks", 1)):
            trace.append(idle)
            system.step(idle)


def sweep_trees(codes):
    """worker: address-decode sweep of a chunk of trees"""
    out = []
    for code in codes:
        t0 = time.process_time()
        keep = set()
        res = {"code": code, "findings": [], "steps": 0, "events": {}}
        while True:
            cfg = tree_cfg(code, keep)
            trace = []
            try:
                system = make_system(cfg)
                layout = LAYOUTS[cfg["layout"]]
                run_sweep(system, sweep_ops(layout), trace)
            except NeedKeep as nk:
                new = {n.rsplit(".", 1)[-1] for n in nk.names}
                if new <= keep:
                    raise ToolError(f"poisoned read of kept variables {nk.names}")
                keep |= new
                continue
            except Rejected as e:
                res["rejected"] = str(e)[:300]
                break
            except Violation as v:
                res["findings"].append({"rule": v.rule, "detail": v.detail, "text": v.text, "trace": trace, "cfg": cfg,
                                        "depth": len(trace)})
            res["steps"] = len(trace)
            res["events"] = dict(system.mon.events)
            res["registers"] = len(layout["regs"])
            res["mapped_words"] = len(layout["window"]) - len(layout["unmapped"])
            break
        res["cpu"] = round(time.process_time() - t0, 2)
        LAYOUTS.pop(cfg["layout"], None)
        _vhdl_cache.pop(cfg["layout"], None)
        out.append(res)
    return out


def explore(cfg):
    """BFS of one variant with iterative exclusion of failing write inputs.  Returns a result dict."""
    t0 = time.time()
    c0 = time.process_time()
    cfg = dict(cfg)
    cfg["exclude"] = [tuple(x) for x in cfg.get("exclude", ())]
    keep = set(cfg.get("keep", ()))
    findings = []
    events = {}
    totals = {"states": 0, "transitions": 0, "bfs_runs": 0}
    final = None
    while True:
        cfg["keep"] = sorted(keep)
        try:
            system = make_system(cfg)
            r = bfs(system, max_states=cfg["max_states"])
        except NeedKeep as nk:
            new = {n.rsplit(".", 1)[-1] for n in nk.names}
            if new <= keep:
                raise ToolError(f"poisoned read of kept variables {nk.names}")
            keep |= new
            continue
        except rt.SimError as e:
            findings.append({"rule": "simerror", "detail": "", "text": f"simulation error: {e}", "trace": None})
            break
        totals["bfs_runs"] += 1
        totals["states"] += r.states
        totals["transitions"] += r.transitions
        for k_, n_ in system.mon.events.items():
            events[k_] = events.get(k_, 0) + n_
        if r.violation is None:
            final = r
            break
        # re-execute the trace on a fresh system (plain loop) to confirm and to get the structured violation
        v = run_trace(cfg, r.trace)
        if v is None:
            raise ToolError(f"replay of the counterexample did not reproduce: {r.violation} trace={r.trace}")
        f = {"rule": v.rule, "detail": v.detail, "text": v.text, "trace": r.trace,
             "cfg": {k: cfg[k] for k in ("layout", "addrs", "wpay", "maxo", "hw", "exclude", "keep", "max_states", "name")},
             "depth": len(r.trace)}
        findings.append(f)
        if v.rule == "regs" and v.detail.startswith("write/"):
            # attribute to the (addr, strb) input pair, exclude it, explore the rest
            part = v.detail.split("/")
            addr = int(part[1].split("=")[1].split(":")[0], 16)
            strb = int(part[2].split("=")[1], 2)
            if (addr, strb) in cfg["exclude"]:
                raise ToolError(f"excluded input pair failed again: {v.detail}")
            cfg["exclude"].append((addr, strb))
            continue
        break
    out = {"name": cfg["name"], "layout": cfg["layout"], "findings": findings, "sample_trace": sample_trace(cfg), "events": events,
           "keep": sorted(keep), "excluded": cfg["exclude"], "wall": round(time.time() - t0, 2),
           "cpu": round(time.process_time() - c0, 2)}
    out.update(totals)
    if final is not None:
        out.update(final_states=final.states, final_transitions=final.transitions, depth=final.depth,
                   exhausted=final.exhausted, observations=len(final.observations))
    else:
        out.update(final_states=0, final_transitions=0, depth=0, exhausted=False, observations=0)
    return out


def sample_trace(cfg, n=7):
    """a short concrete run (fixed picks from the menu) written to the evidence so a reader sees what a case looks like"""
    try:
        system = make_system(cfg)
        out = []
        for i in range(n):
            menu = system.choices()
            ch = menu[(len(menu) * (i + 1) * 7 // 11 + i) % len(menu)]
            msg = system.apply(ch)
            aw, w, ar, br, rr, h = ch
            S = system.sim
            out.append({"clk": i, "aw_start": None if aw is None else hex(aw),
                        "w_start": None if w is None else f"{w[0]:08X}/{w[1]:04b}",
                        "ar_start": None if ar is None else hex(ar), "bready": br, "rready": rr, "hw": system.hw_menu[h],
                        "after_edge": {k: (hex(v) if isinstance(v, int) and v > 9 else v) for k, v in S.outputs().items()
                                       if not k.endswith("resp")}})
            if msg is not None:
                out.append({"violation": msg})
                break
        return out
    except Exception as e:  # never let the illustration break the check
        return [f"<no sample: {e!r}>"]


def run_trace(cfg, trace):
    """plain loop over the choice list on a fresh system; returns the Violation or None"""
    system = make_system(cfg)
    for ch in trace:
        ch = tuple(tuple(x) if isinstance(x, list) else x for x in ch)
        try:
            system.step(ch)
        except Violation as v:
            return v
    return None


# ----------------------------------------------------------------------------------------------------------
# variants: closed alphabets, each explored exhaustively
# ----------------------------------------------------------------------------------------------------------
A, B = DATA_A, DATA_B
F, Z, L, M = S1111, S0000, S0001, S0110
ALL8 = [(d, s) for d in (A, B) for s in (F, Z, L, M)]


def V(name, layout, addrs, wpay, maxo, hw=None, max_states=400_000):
    return {"name": name, "layout": layout, "addrs": list(addrs), "wpay": [list(x) for x in wpay], "maxo": maxo,
            "hw": hw, "max_states": max_states}


HW_IN_ONLY = {"hw_in": (0x0000, 0xBEEF), "hw_clear": (0,)}
HW_CLEAR_ONLY = {"hw_in": (0xBEEF,), "hw_clear": (0, 1)}
HW_FIXED = {"hw_in": (0xBEEF,), "hw_clear": (0,)}
HW_Y_FIXED = {"hw_y": (0x13572468,)}


def quick_variants():
    """the complete small bound (seed independent)"""
    return [
        # L1 one MemWord at 0x0; 0x4 / 0xC unmapped
        V("memword/q1", "memword", [0x0, 0x4], [(A, F), (B, L), (B, M)], 1),
        V("memword/q2", "memword", [0x0, 0x4], [(A, F), (B, Z), (A, L), (B, M)], 1),
        V("memword/q3", "memword", [0x0, 0xC], [(A, F), (B, L)], 2),
        V("memword/q4", "memword", [0x0], [(A, F), (B, L), (B, M)], 2),
        # L2 Register{Field(hw), MemField} at 0x0, hole at 0x4, Register{MemField, FlagField, notifications} at 0x8
        V("fields/q1", "fields", [0x0, 0x4], [(A, F), (B, F)], 1, HW_IN_ONLY),
        V("fields/q2", "fields", [0x8, 0x4], [(A, F), (B, F)], 1, HW_CLEAR_ONLY),
        V("fields/q3", "fields", [0x0, 0x8, 0x4], [(B, F), (A, L)], 1, HW_FIXED),
        V("fields/q4", "fields", [0x0, 0x8, 0x4], [(A, F), (B, M)], 1, HW_FIXED),
        V("fields/q5", "fields", [0x0, 0x8, 0x4], [(A, F), (B, Z)], 1, HW_FIXED),
        V("fields/q6", "fields", [0x8], [(A, F)], 2, HW_CLEAR_ONLY),
        # L3 array of two MemWords at 0x0, 0x4; 0x8 unmapped
        V("array/q1", "array", [0x0, 0x4], [(A, F), (B, M)], 1),
        V("array/q2", "array", [0x4, 0x8], [(A, F), (B, L)], 1),
        # L4 MemWord 0x0, hole 0x4, RegFile@0x8 {MemWord 0x8, read-only Word 0xC driven by hardware}
        V("nested/q1", "nested", [0x8, 0xC], [(A, F), (B, L)], 1),
        V("nested/q2", "nested", [0x0, 0x8, 0x4], [(A, F), (B, M)], 1, HW_Y_FIXED),
        # L5 three-word AddrRange window at 0x0 (range-compare decode) directly followed by MemWord 0xC
        V("range/q1", "range", [0x0, 0x8, 0xC], [(A, F), (B, L)], 1),
        # L7 Interconnect in front of a register-map slave at 0x10 (the slave drops awready / wready separately)
        V("icon/q1", "icon", [0x10, 0x14], [(A, F), (B, L)], 1),
        # L8 the same RegFile class (notifying Register + MemWord) placed twice, per-instance notification outputs
        V("twins/q1", "twins", [0x0, 0x8], [(A, F), (B, L)], 1),
    ]


def seed_pool():
    """extra strata a quick run may add (one, chosen by the seed) beyond the complete bound"""
    return [
        V("memword/s1", "memword", [0x0, 0x8], [(B, F), (A, M)], 2),
        V("fields/s1", "fields", [0x0, 0xC], [(A, F), (B, F)], 1, HW_IN_ONLY),
        V("array/s1", "array", [0x0, 0xC], [(A, F), (B, Z)], 1),
        V("nested/s1", "nested", [0x0, 0xC], [(A, F), (B, M)], 1),
        V("range/s1", "range", [0x4, 0xC], [(B, F), (A, Z)], 1),
    ]


def thorough_variants():
    big = 2_000_000
    return quick_variants() + seed_pool() + [
        V("memword/t1", "memword", [0x0, 0x4], ALL8, 1, max_states=big),
        V("memword/t2", "memword", [0x0, 0x4], [(A, F), (B, L), (B, M), (B, Z)], 2, max_states=big),
        V("memword/t3", "memword", [0x0, 0x4, 0xC], ALL8, 1, max_states=big),
        V("memword/t4", "memword", [0x0, 0xC], [(A, F), (B, F), (A, M), (B, L)], 2, max_states=big),
        V("fields/t1", "fields", [0x0, 0x8, 0x4], [(A, F), (B, F)], 1, max_states=big),
        V("fields/t2", "fields", [0x0, 0x8, 0x4], [(A, F), (B, L), (A, M), (B, Z)], 1, HW_CLEAR_ONLY, max_states=big),
        V("fields/t3", "fields", [0x8, 0x4], [(A, F), (B, F)], 2, HW_CLEAR_ONLY, max_states=big),
        V("fields/t4", "fields", [0x0, 0x4], [(A, F), (B, F)], 2, HW_IN_ONLY, max_states=big),
        V("array/t1", "array", [0x0, 0x4, 0x8], [(A, F), (B, M), (B, L)], 1, max_states=big),
        V("array/t2", "array", [0x0, 0x4], [(A, F), (B, F), (A, M), (B, L)], 1, max_states=big),
        V("nested/t1", "nested", [0x0, 0x8, 0xC, 0x4], [(A, F), (B, M)], 1, max_states=big),
        V("nested/t2", "nested", [0x0, 0x8, 0xC], [(A, F), (B, L), (B, M)], 1, max_states=big),
        V("nested/t3", "nested", [0x0, 0x8], [(A, F), (B, M)], 2, HW_Y_FIXED, max_states=big),
        V("nested/t4", "nested", [0x8, 0xC], [(A, F), (B, L)], 2, max_states=big),
        V("array/t3", "array", [0x0, 0x4], [(A, F), (B, L)], 2, max_states=big),
        V("memword/t5", "memword", [0x0], ALL8, 2, max_states=big),
        V("fields/t5", "fields", [0x0, 0x8], [(A, F), (B, F)], 2, HW_FIXED, max_states=big),
        V("fields/t6", "fields", [0x0, 0x8, 0x4], [(A, F), (B, L), (A, M), (B, Z)], 1, HW_IN_ONLY, max_states=big),
        V("range/t1", "range", [0x8, 0xC], [(A, F), (B, M)], 2, max_states=big),
        V("range/t3", "range", [0x8, 0xC], [(A, F), (B, M)], 1, max_states=big),
        V("range/t2", "range", [0x0, 0x4, 0x8, 0xC], [(A, F), (B, L), (B, M)], 1, max_states=big),
        # L6 MemWord 0x0, two-word Memory at 0x4 (offset not a multiple of its size), MemWord 0xC
        V("memory/t1", "memory", [0x8, 0xC], [(A, F), (B, M)], 2, max_states=big),
        V("memory/t2", "memory", [0x4, 0xC], [(A, F), (B, L)], 1, max_states=big),
        V("memory/t3", "memory", [0x0, 0x4], [(A, F), (B, M)], 1, max_states=big),
        V("fields/t7", "fields", [0x8], [(A, F), (B, F)], 2, HW_CLEAR_ONLY, max_states=big),
        V("icon/t1", "icon", [0x10, 0x4], [(A, F), (B, L)], 1, max_states=big),
        V("twins/t1", "twins", [0x0, 0x8, 0xC], [(A, F), (B, M)], 1, max_states=big),
        V("twins/t2", "twins", [0x0, 0x8], [(A, F), (B, L)], 2, max_states=big),
        V("icon/t2", "icon", [0x14, 0x18], [(A, F), (B, M)], 2, max_states=big),
    ]


def work(task):
    """pool worker: ("bfs", variant cfg) | ("trees", list of tree codes)"""
    if task[0] == "bfs":
        return ("bfs", explore(task[1]))
    return ("trees", sweep_trees(task[1]))


REQUIRED_EVENTS = {"b-transfer", "r-transfer", "aw-first", "w-first", "aw-w-same-edge", "aw-after-w", "w-after-aw",
                   "b-held-not-ready", "r-held-not-ready", "regs-changed", "write-mapped", "read-mapped"}


def finding_key(layout, f):
    k = f"{layout}/{f['rule']}"
    if f["detail"]:
        k += "/" + f["detail"]
    return k


def main(run: Run):
    if run.thorough:
        vs = thorough_variants()
        codes = ["tree/" + c for c in c20_trees.thorough_codes()] + ["obj/" + c for c in c20_objects.codes_thorough()] + ["pair/" + c for c in c20_trees.pair_codes()]
    else:
        vs = quick_variants()
        pool = seed_pool()
        vs.append(pool[run.seed % len(pool)])
        codes = ["tree/" + c for c in c20_trees.quick_codes()] + ["obj/" + c for c in c20_objects.codes_quick()] + ["pair/" + c for c in c20_trees.pair_codes()]
    only = getattr(run, "only", None)
    if only:
        vs = [v for v in vs if v["name"] in only or v["layout"] in only]
        codes = [c for c in codes if c in only or ("trees" in only and c.startswith("tree/")) or ("objects" in only and c.startswith("obj/")) or ("pairs" in only and c.startswith("pair/"))]

    # largest first: better packing on the pool
    def size_hint(v):
        hw = v["hw"] or {h[0]: h[2] for h in LAYOUTS[v["layout"]]["hw"]}
        n = 1
        for vals in hw.values():
            n *= len(vals)
        return (len(v["wpay"]) + 1) * (len(v["addrs"]) + 1) ** 2 * (4 if v["maxo"] > 1 else 1) * n

    tasks = [("bfs", v) for v in sorted(vs, key=lambda v: -size_hint(v))]
    # the pair layouts go to ONE worker in their fixed order (creation order of the specialisations is what they test)
    tasks.append(("trees", [c for c in codes if c.startswith("pair/")]))
    tasks += [("trees", chunk) for chunk in chunked([c for c in codes if not c.startswith("pair/")], 9 if not run.thorough else 20)]
    tasks = [t for t in tasks if t[1]]
    run.count("variants", len(vs))
    run.count("trees", len(codes))
    all_events = set()
    layouts_seen = set()
    tree_sampled = 0
    obj_sampled = 0
    for kind, res in pmap(work, tasks, seed=run.seed):
        if kind != "ok":
            run.tool_error(f"worker failed: {res[-1500:]}")
            continue
        what, r = res
        if what == "trees":
            for t in r:
                if t.get("rejected"):
                    run.count("trees_rejected")
                    run.note(f"{t['code']} rejected by the compiler: {t['rejected'][-160:]}")
                    continue
                run.count("trees_swept")
                run.count("sweep_clocks", t["steps"])
                run.count("transitions", t["steps"])
                run.count("states", t["steps"])
                run.count("traces_validated_against_impl")
                for k_, n_ in t["events"].items():
                    run.count("event/" + k_, n_)
                if not t["findings"]:
                    run.count("trees_ok")
                    run.count("tree_registers_decoded", t["registers"])
                    is_obj = t["code"].startswith("obj/")
                    run.count("objects_ok" if is_obj else ("pairs_ok" if t["code"].startswith("pair/") else "decode_trees_ok"))
                    if (is_obj and obj_sampled < 3 and t["code"].startswith(("obj/mem", "obj/out", "obj/reg"))) or \
                            (t["code"].startswith("tree/") and tree_sampled < 3 and t["code"].count(".") >= 2):
                        if is_obj:
                            obj_sampled += 1
                            lay = c20_objects.build(t["code"][4:])
                        else:
                            tree_sampled += 1
                            lay = c20_trees.build(t["code"][5:])
                        run.sample({"generated_layout": t["code"],
                                    "documented_addresses": {x["name"]: hex(x["addr"]) for x in lay["regs"]},
                                    "unmapped_words": len(lay["unmapped"]), "sweep_clocks": t["steps"]}, force=True)
                for f in t["findings"]:
                    key = finding_key(t["code"], f)
                    run.violation(key, f"{t['code']}: [{f['rule']}] {f['text'][:500]} (after {f.get('depth')} clocks)",
                                  {"cfg": f.get("cfg"), "events": f["trace"], "rule": f["rule"], "detail": f["detail"]})
            continue
        layouts_seen.add(r["layout"])
        run.count("states", r["states"])
        run.count("transitions", r["transitions"])
        run.count("bfs_runs", r["bfs_runs"])
        run.count("traces_validated_against_impl", r["final_states"])
        run.count("states_final_runs", r["final_states"])
        run.cmax("max_depth", r["depth"])
        run.cmax("max_states_one_variant", r["final_states"])
        run.count("distinct_observations", r["observations"])
        all_events |= set(r["events"])
        for k_, n_ in r["events"].items():
            run.count("event/" + k_, n_)
        complete = r["exhausted"]
        unresolved = [f for f in r["findings"] if not (f["rule"] == "regs" and f["detail"].startswith("write/"))]
        if complete:
            run.count("variants_exhausted")
        elif not unresolved:
            run.capped = True
            run.count("variants_capped")
            run.note(f"variant {r['name']}: state cap hit at {r['final_states']} states (not exhausted)")
        else:
            run.count("variants_stopped_by_violation")
        cv = _cfg_of(vs, r["name"])
        info = {"variant": r["name"], "addresses": [hex(a) for a in cv["addrs"]],
                "write_payloads": [f"{d:08X}/{s_:04b}" for d, s_ in cv["wpay"]],
                "max_outstanding": cv["maxo"],
                "hardware_inputs": cv["hw"] or {h[0]: list(h[2]) for h in LAYOUTS[r["layout"]]["hw"]},
                "states": r["final_states"],
                "transitions": r["final_transitions"], "depth": r["depth"], "exhausted": r["exhausted"],
                "excluded_failing_inputs": [f"0x{a:x}/{s_:04b}" for a, s_ in r["excluded"]], "cpu_s": r["cpu"]}
        run.sample(info, force=True)
        if r["name"].endswith("/q1"):
            run.sample({"variant": r["name"], "sample_run": r["sample_trace"]}, force=True)
        missing = REQUIRED_EVENTS - set(r["events"])
        if complete and missing and not r["findings"]:
            run.tool_error(f"vacuous: variant {r['name']} never exercised {sorted(missing)}")
        if complete and r["observations"] < 8 and not r["findings"]:
            run.tool_error(f"vacuous: variant {r['name']} produced only {r['observations']} distinct observations")
        for f in r["findings"]:
            key = finding_key(r["layout"], f)
            run.violation(key, f"{r['name']}: [{f['rule']}] {f['text'][:500]} (after {f.get('depth')} clocks)",
                          {"cfg": f.get("cfg"), "events": f["trace"], "rule": f["rule"], "detail": f["detail"]})
    run.max_samples = 64
    if not only and layouts_seen != ({v["layout"] for v in vs}):
        run.tool_error(f"layouts explored {sorted(layouts_seen)} != planned")
    if codes and run.counters.get("trees_swept", 0) * 10 < len(codes) * 9:
        run.tool_error(f"vacuous: only {run.counters.get('trees_swept', 0)} of {len(codes)} generated layouts were accepted and swept")
    run.assume("data abstraction: write data ranges over the two words A1B2C3D4 and 5E6F7081 (all eight bytes distinct), "
               "strobes over {0000,0001,0110,1111}, addresses over the word addresses of a 4-bit address space; "
               "independence of the design from other data values / bit lanes within a byte is assumed, not proved")
    run.assume("alphabet variants: each variant (see samples: addresses, write payloads, hardware-side values, "
               "max outstanding requests per channel) is explored exhaustively; interactions between payloads that "
               "never share a variant are not covered")
    run.assume("generated nesting family (trees): address decode is checked with ONE deterministic sequential master per "
               "tree (every word address of the 7-bit window written with its own data word, then read; twice) - all "
               "valid/ready interleavings are explored only on the fixed layouts, which share the AXI front end")
    run.assume("reset is held inactive; awprot/arprot are 0; addresses are word aligned; idle channels carry trap payloads")
    run.assume(f"liveness is checked as bounded response: progress within {STALL_LIMIT} clocks for a cooperating master")
    run.assume("vsim (own VHDL-2008 subset simulator) implements IEEE 1076/numeric_std semantics; dead compiler-generated "
               "process variables are left out of state snapshots (vsim poison mode proves them dead on every explored transition)")
    done = run.counters.get("variants_exhausted", 0) == len(vs) and run.counters.get("trees_ok", 0) == len(codes)
    run.coverage_extra.update(
        exhaustive=(not run.capped) and done,
        rule="(1) per fixed layout and alphabet variant: every reachable state of (emitted design x register model + AXI "
             "monitor x master/hardware environment) under every per-clock environment choice; (2) every layout tree of the "
             "nesting grammar (verif/gen/c20_trees.py) x every word address of the window, sequential master",
        layouts=sorted(layouts_seen),
        events_seen=sorted(all_events),
    )


def _cfg_of(vs, name):
    for v in vs:
        if v["name"] == name:
            return v
    raise KeyError(name)


def replay(run: Run, data):
    v = run_trace(data["cfg"], data["events"])
    if v is not None:
        print("reproduced:", f"[{v.rule}] {v.text}")
        return False
    return True

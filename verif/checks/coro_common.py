"""Shared product-system for coroutine programs (C01, C04, C08 use it)."""
from __future__ import annotations

from ..cohdl_util import compile_source
from ..gen.coro import Flat, RefMachine, ZeroTimeLoop, render
from ..mc.explorer import bfs
from ..vhdl.elab import compile_design, from_raw
from ..vhdl import rt
from ..vhdl.parser import Unsupported, VhdlSyntaxError

INPUTS = [(0, 0), (1, 0), (0, 1), (1, 1)]


class CoroSystem:
    """DUT (vsim) x reference machine; environment = all valuations of (i0, i1) each clock.
    With a reset flavour the menu also contains reset events."""

    def __init__(self, sim, ref, reset=None):
        self.sim = sim
        self.ref = ref
        self.reset = reset
        p = sim.ports
        self.sid_i0 = p["i0"][0]
        self.sid_i1 = p["i1"][0]
        self.sid_clk = p["clk"][0]
        self.outs = [(n, p[n][0], p[n][1]) for n in sorted(p) if p[n][2] != "in"]
        if reset is not None:
            self.sid_rst = p["rst"][0]
            self.rst_on = 0 if reset["active_low"] else 1
            # start with reset inactive
            sim.N[self.sid_rst] = 1 - self.rst_on
        sim.N[self.sid_i0] = 0
        sim.N[self.sid_i1] = 0
        sim.N[self.sid_clk] = 0
        sim.settle()
        self.menu = list(INPUTS)

    def snapshot(self):
        return (self.sim.snapshot(), self.ref.snapshot())

    def restore(self, s):
        self.sim.restore(s[0])
        self.ref.restore(s[1])

    def choices(self):
        return self.menu

    def observe(self):
        S = self.sim.S
        return tuple(S[sid] for _, sid, _ in self.outs)

    def compare(self, exp):
        S = self.sim.S
        for n, sid, ty in self.outs:
            got = from_raw(ty, S[sid])
            if got != exp[n]:
                return f"output {n}: design={got} reference={exp[n]} (all: design={ {m: from_raw(t, S[s]) for m, s, t in self.outs} } reference={exp})"
        return None

    def apply(self, ch):
        sim = self.sim
        N = sim.N
        N[self.sid_i0] = ch[0]
        N[self.sid_i1] = ch[1]
        sim.settle()
        N[self.sid_clk] = 1
        sim.settle()
        N[self.sid_clk] = 0
        sim.settle()
        exp = self.ref.step(ch)
        if sim.A:
            a = sim.A[0]
            del sim.A[:]
            return f"VHDL assertion fired: {a}"
        if sim.PR:
            return f"intermediate variable read before written in an activation: {sim.poisoned_reads()}"
        return self.compare(exp)


def check_program(prog, reset=None, max_states=400000, system_cls=CoroSystem):
    """compile + explore one program.  Returns dict with keys:
    status: 'rejected' | 'zero_time' | 'ok' | 'violation' | 'static' | 'unsupported' ; plus statistics"""
    src, flat = render(prog, reset)
    res, _ = compile_source(src)
    if not res.ok:
        return {"status": "rejected", "error": res.error}
    out = {"status": "ok"}
    try:
        d = compile_design(res.vhdl, poison=True, poison_exclude=("v",))
    except VhdlSyntaxError as e:
        return {"status": "static", "what": f"emitted VHDL does not parse: {e}", "src": src, "vhdl": res.vhdl}
    if d.findings:
        out["findings"] = [repr(f) for f in d.findings]
    try:
        system = system_cls(d.sim(), RefMachine(flat, nopush=bool(reset and reset.get('nopush'))), reset)
        r = bfs(system, max_states=max_states)
    except ZeroTimeLoop:
        return {"status": "zero_time"}
    except rt.SimError as e:
        return {"status": "violation", "what": f"simulation error: {e}", "trace": None, "src": src, "vhdl": res.vhdl,
                "states": 0, "transitions": 0}
    out.update(states=r.states, transitions=r.transitions, depth=r.depth, exhausted=r.exhausted,
               observations=len(r.observations))
    if r.violation is not None:
        out.update(status="violation", what=r.violation, trace=r.trace, src=src, vhdl=res.vhdl)
    return out


def replay_program(prog, trace, reset=None, system_cls=CoroSystem):
    """plain loop over the event list on a fresh simulator; returns violation text or None"""
    src, flat = render(prog, reset)
    res, _ = compile_source(src)
    if not res.ok:
        return None
    d = compile_design(res.vhdl, poison=True, poison_exclude=("v",))
    system = system_cls(d.sim(), RefMachine(flat, nopush=bool(reset and reset.get('nopush'))), reset)
    msg = None
    for ch in trace:
        ch = tuple(ch) if isinstance(ch, list) else ch
        msg = system.apply(ch)
        if msg is not None:
            return msg
    return msg


def to_tuple(x):
    if isinstance(x, list):
        return tuple(to_tuple(y) for y in x)
    return x

"""C02  Operators and expressions compute their documented value at run time.

Bounded-exhaustive enumeration of well-typed expression trees (verif/gen/expr_gen.py) x EVERY operand valuation.
Every expression is placed in a std.concurrent context and in a clocked std.sequential context of a wrapper
entity whose inputs are ports of the operand types and whose outputs are declared with the ORACLE's result type
(verif/ref/values.py).  The emitted VHDL is simulated with vsim; concurrent result after settling, clocked result
after one clock.  Also checked: the CoHDL type the compiler computed for the expression (read with a cohdl.pyeval
probe), static findings of the VHDL front end on the emitted text, and run-time errors of the simulation.
"""
from __future__ import annotations

import collections

from ..cohdl_util import compile_source, unload_module
from ..core import Run, pmap, chunked
from ..gen import expr_gen as G
from ..ref import values as V
from ..vhdl import rt
from ..vhdl.elab import compile_design
from ..vhdl.parser import Unsupported, VhdlSyntaxError

LEVEL = "exploration"
BATCH = 40


# ---------------------------------------------------------------------------------------------
# wrapper entity
# ---------------------------------------------------------------------------------------------
def type_open(tree):
    """result type not documented: `x and y` on non-bool operands (Python would return an operand)"""
    if tree[0] == "conv" and tree[1] == "assign":
        return True
    if "'null'" in repr(tree) or "'full'" in repr(tree):
        return True  # the merged value takes the type of its target  # the conversion happens in the assignment to the port: the expression itself has the source type
    return tree[0] == "bool" and any(V.typeof(e) != V.BOOL for e in tree[2])


def out_type(tree):
    return V.typeof(tree)


def build_source(items, contexts=("c", "q")):
    """items: list of (index, tree).  Returns source text of entity T."""
    ports = ["    clk = Port.input(Bit)"]
    locals_ = []
    scaffold = []
    conc = []
    seq = []
    for i, tree in items:
        lv = V.leaves(tree)

        def leaf(slot, t, i=i):
            if t[0] in ("enum", "arr"):
                return f"g{i}_{slot}"
            return f"self.e{i}_{slot}"

        for slot, t in sorted(lv.items()):
            if t[0] == "enum":
                ports.append(f"    e{i}_{slot} = Port.input(BitVector[2])")
                locals_.append(f"        g{i}_{slot} = Signal[{G.py_type(t)}]()")
                br = ", ".join(f'"{k:02b}": {G.const_text(t, k)}' for k in range(t[1]))
                scaffold.append(f"            g{i}_{slot}.next = select_with(self.e{i}_{slot}, {{{br}}}, {G.const_text(t, 0)})")
            elif t[0] == "arr":
                locals_.append(f"        g{i}_{slot} = Signal[{G.py_type(t)}]()")
                for j in range(t[2]):
                    ports.append(f"    e{i}_{slot}_{j} = Port.input({G.py_type(t[1])})")
                    scaffold.append(f"            g{i}_{slot}[{j}] <<= self.e{i}_{slot}_{j}")
            else:
                ports.append(f"    e{i}_{slot} = Port.input({G.py_type(t)})")
        ot = G.py_type(out_type(tree))
        for ctx, body in (("c", conc), ("q", seq)):
            if ctx not in contexts:
                continue
            prelude = {"lines": [], "prefix": f"cv{ctx}{i}_", "ctx": ctx}
            text = G.render(tree, leaf, "hw", prelude)
            ports.append(f"    {ctx}{i} = Port.output({ot})")
            body.extend("            " + ln for ln in prelude["lines"])
            body.append(f"            self.{ctx}{i} <<= _T(('{ctx}', {i}), {text})")
    src = [G.HEADER, "", "class T(Entity):"] + ports + ["", "    def architecture(self):"] + locals_
    if scaffold:
        src += ["        @std.concurrent", "        def scaffold():"] + scaffold
    if conc:
        src += ["        @std.concurrent", "        def conc():"] + conc
    if seq:
        src += ["        @std.sequential(std.Clock(self.clk))", "        def seq():"] + seq
    return "\n".join(src) + "\n"


def port_values(i, tree, env):
    """input-port assignment realising an operand valuation"""
    out = {}
    for slot, t in V.leaves(tree).items():
        v = env[slot]
        if t[0] == "arr":
            for j in range(t[2]):
                out[f"e{i}_{slot}_{j}"] = _raw(t[1], v[j])
        else:
            out[f"e{i}_{slot}"] = _raw(t, v)
    return out


def _raw(t, v):
    if t == V.BOOL:
        return bool(v)
    return v


def norm_out(t, got):
    """simulator reading -> reference value domain"""
    if got is None:
        return None
    if t == V.BOOL:
        return bool(got)
    if t == V.INT:
        return int(got)
    return int(got)


def sim_with_initial_inputs(d, init):
    from ..vhdl.elab import to_raw

    saved = d.S_init
    patched = list(saved)
    for name, value in init.items():
        sid, ty, _mode = d.ports[name]
        patched[sid] = to_raw(ty, value)
    try:
        d.S_init = type(saved)(patched)
        return d.sim()
    finally:
        d.S_init = saved


def apply_valuation(d, sim, pv, stats):
    """Set all input ports and settle.  The emitted design decomposes an expression into signals of different
    delta depth, so changing several inputs at once can produce transient operand combinations (e.g. a zero
    divisor for one delta cycle) although the old and the new valuation are both inside the alphabet.  Only settled
    values are compared: if the transition raises a run-time error the valuation is applied to a fresh simulation
    as its initial input values (no transition); an error that persists there is a property of the valuation."""
    try:
        sim.set_many(pv)
        return sim
    except rt.SimError:
        stats["glitch_restarts"] = stats.get("glitch_restarts", 0) + 1
        init = {"clk": 0}
        init.update(pv)
        return sim_with_initial_inputs(d, init)


def compile_items(items, contexts=("c", "q")):
    """-> (status, info): status 'ok' (info = dict(design, types, vhdl)), 'rejected' (info = error text),
    'parse' (emitted text does not parse: info = text)"""
    src = build_source(items, contexts)
    res, mod = compile_source(src, keep_module=True)
    types = dict(getattr(mod, "_TY", {})) if mod is not None else {}
    if mod is not None:
        unload_module(mod)
    if not res.ok:
        return "rejected", {"error": res.error, "types": types, "src": src}
    try:
        d = compile_design(res.vhdl)
    except VhdlSyntaxError as e:
        return "parse", {"error": f"emitted VHDL does not parse: {e}", "vhdl": res.vhdl, "src": src, "types": types}
    except Unsupported as e:
        return "unsupported", {"error": f"vsim: unsupported construct: {e}", "vhdl": res.vhdl, "src": src}
    return "ok", {"design": d, "types": types, "vhdl": res.vhdl, "src": src}


IGNORED_RULES = ()


def finding_is_relevant(f):
    # a selected assignment that covers all values of its selector and has no 'others' is legal VHDL
    if f.rule == "case-no-others" and "incomplete" not in f.msg:
        return False
    return True


def simulate_items(items, info, vals, contexts=("c", "q")):
    """Apply every valuation.  Returns list of problem dicts {i, kind, what, ...}.  Raises rt.SimError upward
    only through the returned 'simerror' problem."""
    d = info["design"]
    problems = []
    # initial values of the input ports (what a test bench's signal declarations provide at time 0): the first
    # valuation inside the alphabet, so that the initialisation phase does not evaluate e.g. a shift by integer'left
    init = {"clk": 0}
    for i, tree in items:
        init.update(port_values(i, tree, vals[i][0][0]))
    sim = sim_with_initial_inputs(d, init)
    steps = max((len(vals[i]) for i, _ in items), default=0)
    stats = {"evaluations": 0, "open": 0, "glitch_restarts": 0}
    for k in range(steps):
        pv = {}
        cur = {}
        for i, tree in items:
            vs = vals[i]
            env, exp = vs[k % len(vs)]
            cur[i] = (env, exp, k < len(vs))
            pv.update(port_values(i, tree, env))
        sim = apply_valuation(d, sim, pv, stats)
        for phase in contexts:
            if phase == "q":
                sim.clock("clk")
            for i, tree in items:
                env, exp, fresh = cur[i]
                if not fresh:
                    continue
                if exp is V.OPEN:
                    stats["open"] += 1
                    continue
                stats["evaluations"] += 1
                got = norm_out(out_type(tree), sim.get(f"{phase}{i}"))
                if got != exp or type(got) is not type(exp):
                    problems.append({"i": i, "kind": "value", "ctx": phase, "env": env, "expected": exp, "got": got})
        if sim.A:
            problems.append({"i": None, "kind": "assert", "what": sim.A[0]})
            del sim.A[:]
    return problems, stats


def check_items(items, contexts=("c", "q"), allow_split=True):
    """Full treatment of a batch.  Returns list of per-expression result dicts:
    {i, status: ok|rejected|violation|skipped, problems: [...], evaluations, ...}"""
    vals = {}
    out = {}
    live = []
    for i, tree in items:
        vs, outside = V.valuations(tree)
        if not vs:
            out[i] = {"i": i, "status": "skipped", "why": "no valuation inside the alphabet", "outside": outside}
            continue
        vals[i] = vs
        out[i] = {"i": i, "status": "ok", "outside": outside, "valuations": len(vs), "problems": [],
                  "evaluations": 0, "open": 0,
                  "distinct": len({repr(r) for _, r in vs if r is not V.OPEN})}
        live.append((i, tree))
    _check_live(live, vals, out, contexts, allow_split)
    return [out[i] for i, _ in items]


def _check_live(live, vals, out, contexts, allow_split):
    if not live:
        return
    status, info = compile_items(live, contexts)
    if status == "rejected":
        if len(live) == 1 and len(contexts) > 1 and ("'conv'" in repr(live[0][1]) or "'src'" in repr(live[0][1])):
            # conversion forms may be legal in one kind of context only (Variable): decide per context
            _split_contexts(live, out, contexts, info)
            return
        if len(live) == 1:
            i = live[0][0]
            out[i].update(status="rejected", error=info["error"], probed_types=_probed(info, i))
            return
        if allow_split:
            for it in live:
                _check_live([it], vals, out, contexts, False)
            return
    if status in ("parse", "unsupported"):
        if len(live) == 1:
            i = live[0][0]
            if status == "parse":
                out[i]["problems"].append({"i": i, "kind": "static", "what": info["error"]})
                out[i]["status"] = "violation"
            else:
                out[i].update(status="tool", error=info["error"])
            return
        for it in live:
            _check_live([it], vals, out, contexts, False)
        return
    d = info["design"]
    # static findings of the VHDL front end
    rel = [f for f in d.findings if finding_is_relevant(f)]
    if rel or d.multi_driven:
        if len(live) > 1:
            for it in live:
                _check_live([it], vals, out, contexts, False)
            return
        i = live[0][0]
        if len(contexts) > 1:
            _split_contexts(live, out, contexts, info)
            return
        # the emitted text of this context is not legal VHDL: there is nothing to simulate
        for f in rel:
            out[i]["problems"].append({"i": i, "kind": "static", "ctx": contexts[0], "rule": f.rule,
                                       "what": f"[{f.rule}] {f.msg}"})
        for m in d.multi_driven:
            out[i]["problems"].append({"i": i, "kind": "static", "ctx": contexts[0], "rule": "multi",
                                       "what": f"multiply driven: {m}"})
        out[i]["status"] = "violation"
        out[i]["src"] = info["src"]
        return
    # computed types
    for i, tree in live:
        if type_open(tree):
            continue
        want = V.tname(out_type(tree))
        for ctx in contexts:
            got = info["types"].get((ctx, i))
            if got is None:
                continue
            if got[0] != want and not (got[0] == "int" and want == "int"):
                out[i]["problems"].append({"i": i, "kind": "type", "ctx": ctx, "expected": want, "got": got[0]})
    try:
        problems, stats = simulate_items(live, info, vals, contexts)
    except rt.SimError as e:
        if len(live) > 1:
            for it in live:
                _check_live([it], vals, out, contexts, False)
            return
        i = live[0][0]
        if len(contexts) > 1:
            _split_contexts(live, out, contexts, info)
            return
        out[i]["problems"].append({"i": i, "kind": "simerror", "ctx": contexts[0],
                                   "what": f"run-time error in the emitted design: {e}"})
        problems, stats = [], {"evaluations": 0, "open": 0, "glitch_restarts": 0}
    out[live[0][0]]["glitch_restarts"] = out[live[0][0]].get("glitch_restarts", 0) + stats.get("glitch_restarts", 0)
    if len(live) == 1:
        out[live[0][0]]["evaluations"] = stats["evaluations"]
        out[live[0][0]]["open"] = stats["open"]
    else:
        for i, _ in live:
            out[i]["evaluations"] = len(contexts) * sum(1 for _, r in vals[i] if r is not V.OPEN)
            out[i]["open"] = len(contexts) * sum(1 for _, r in vals[i] if r is V.OPEN)
    for p in problems:
        if p["i"] is None:
            if len(live) == 1:
                p["i"] = live[0][0]
            else:
                continue
        out[p["i"]]["problems"].append(p)
    for i, _ in live:
        if out[i]["problems"]:
            out[i]["status"] = "violation"
        if len(live) == 1:
            out[i]["src"] = info["src"]


def _split_contexts(live, out, contexts, info):
    """one expression, the contexts separately: a static or run-time error in one context must not hide the
    values of the other"""
    i = live[0][0]
    merged = None
    for ctx in contexts:
        sub = check_items(live, contexts=(ctx,), allow_split=False)[0]
        if merged is None:
            merged = sub
        else:
            merged["problems"] = merged.get("problems", []) + sub.get("problems", [])
            merged["evaluations"] = merged.get("evaluations", 0) + sub.get("evaluations", 0)
            merged["open"] = merged.get("open", 0) + sub.get("open", 0)
            rank = {"violation": 3, "tool": 2, "ok": 1, "rejected": 0, "skipped": 0}
            if rank.get(sub["status"], 0) > rank.get(merged["status"], 0):
                for kk in ("valuations", "distinct", "outside"):
                    if kk in sub:
                        merged[kk] = sub[kk]
                merged["status"] = sub["status"]
    merged["src"] = info["src"]
    out[i] = merged


def _probed(info, i):
    return {k[0]: v[0] for k, v in info.get("types", {}).items() if k[1] == i}


# ---------------------------------------------------------------------------------------------
# keys of findings: the failing input (type-annotated expression) prefixed by a syntactic class of the input
# ---------------------------------------------------------------------------------------------
CLASS_PRIORITY = ("neg-int-with-unsigned", "neg-of-unsigned", "integer-signal-index", "select-nodefault-stdlogic",
                  "lit-not-representable-mul", "int-times-unsigned", "sub-narrower-rhs")
# classes whose members have a listed finding that aborts the simulation of a whole entity: checked one by one
ALONE = ("neg-int-with-unsigned", "neg-of-unsigned", "integer-signal-index", "select-nodefault-stdlogic")


def input_class(tree):
    """syntactic class of an expression (derived from the input only, never from the symptom)"""
    cls = set()

    def walk(n):
        if not isinstance(n, tuple) or not n:
            return
        if n[0] == "bin" or n[0] == "cmp":
            ops = list(n[2]) if n[0] == "cmp" else [n[2], n[3]]
            lits = [o for o in ops if o[0] == "lit"]
            vt = [V.typeof(o) for o in ops if o[0] != "lit"]
            if lits and any(t[0] == "u" for t in vt) and not (n[0] == "bin" and n[1] in ("shl", "shr")):
                if any(l[1] < 0 for l in lits):
                    cls.add("neg-int-with-unsigned")
            if n[0] == "bin" and n[1] == "sub" and len(vt) == 2 and all(V.is_num(t) for t in vt) and vt[1][1] < vt[0][1]:
                cls.add("sub-narrower-rhs")
            if n[0] == "bin" and n[1] == "mul":
                nt = [t for t in vt if V.is_num(t)]
                if lits and nt and any(not V.representable(nt[0], l[1]) for l in lits):
                    cls.add("lit-not-representable-mul")
                if V.typeof(n[2]) == V.INT and V.typeof(n[3])[0] == "u":
                    cls.add("int-times-unsigned")
        if n[0] == "un" and n[1] == "neg" and V.typeof(n[2])[0] == "u":
            cls.add("neg-of-unsigned")
        if n[0] in ("idxrt", "aidxrt") and V.typeof(n[2]) == V.INT:
            cls.add("integer-signal-index")
        if n[0] == "sel" and n[3] is None:
            ta = V.typeof(n[1])
            if ta == V.BIT or V.is_vec(ta):
                cls.add("select-nodefault-stdlogic")
        for x in (n[1:] if isinstance(n[0], str) else n):
            walk(x)

    walk(tree)
    for c in CLASS_PRIORITY:
        if c in cls:
            return c
    return "expr"


def finding_key(tree, problem):
    kind = problem["kind"]
    ctx = problem.get("ctx")
    tail = f"/{kind}" + (f"/{ctx}" if ctx else "")
    return f"{input_class(tree)}/{G.describe(tree)}{tail}"


def problem_text(tree, p):
    d = G.describe(tree)
    if p["kind"] == "value":
        return (f"{d} [{'concurrent' if p['ctx'] == 'c' else 'clocked'}] operands={_envtxt(tree, p['env'])}: "
                f"design={p['got']} documented={p['expected']} (type {V.tname(V.typeof(tree))})")
    if p["kind"] == "type":
        return f"{d}: compiler computed type {p['got']}, documented result type {p['expected']}"
    return f"{d}: {p.get('what')}"


def _envtxt(tree, env):
    lv = V.leaves(tree)
    return "(" + ", ".join(f"{V.tname(lv[sl])}={env[sl]}" for sl in sorted(env)) + ")"


# ---------------------------------------------------------------------------------------------
# driver
# ---------------------------------------------------------------------------------------------
def work(task):
    """task: list of (index, family, tree)"""
    items = [(i, tree) for i, _, tree in task]
    res = check_items(items)
    for r in res:
        r.pop("src", None) if r["status"] == "ok" else None
    return res


def families(run: Run):
    """(name, iterator of (family, tree))"""
    if not run.thorough:
        yield "depth1 widths{1,2,3} incl. mixed widths", G.depth1((1, 2, 3), mixed=True)
        yield "depth1 with typed constant operands, widths{1,2,3}", G.depth1_const(
            (1, 2, 3), mixed=True, mixed_only=("cat", "eq", "bitwise", "boolop", "ifexp", "select"))
        yield "nested constant slice/index chains (length 1..3)", G.slice_chains(quick=True)
        yield "conversions by assignment/construction, widths{1,2,3}", G.conversions((1, 2, 3), operand_src_widths=(1, 2))
        yield "multi-part subscripts", G._dedup(G.multi_subscripts(quick=True))
        yield "operand sources x typed views", G.source_views(quick=True)
        yield "operand sources in if-expressions / select_with", G._dedup(G.source_selects(quick=True))
        yield "select_with with aliased keys", G._dedup(G.select_aliases())
        yield "iteration consumers over slice chains", G._dedup(G.iter_chains(quick=True))
        yield "operations on constant pairs", G._dedup(G.const_pairs())
        yield "Null/Full alternatives of merges", G._dedup(G.null_full())
        yield "one sliced object used several times", G._dedup(G.shared_objects())
        # beyond the complete bound: a seed-chosen 1/150 stratum of the depth-2 family
        pick = run.seed % 150
        yield f"depth2 widths{{1,2}} stratum {pick}/150 (seed-chosen)", (
            ft for n, ft in enumerate(G.depth2((1, 2))) if n % 150 == pick)
    else:
        yield "depth1 widths{1..4} incl. mixed widths", G.depth1((1, 2, 3, 4), mixed=True)
        yield "depth1 with typed constant operands, widths{1..4}", G.depth1_const((1, 2, 3, 4), mixed=True)
        yield "nested constant slice/index chains (length 1..3)", G.slice_chains(quick=False)
        yield "conversions by assignment/construction, widths{1..4}", G.conversions((1, 2, 3, 4))
        yield "multi-part subscripts", G._dedup(G.multi_subscripts(quick=False))
        yield "operand sources x typed views", G.source_views(quick=False)
        yield "operand sources in if-expressions / select_with", G._dedup(G.source_selects(quick=False))
        yield "select_with with aliased keys", G._dedup(G.select_aliases())
        yield "iteration consumers over slice chains", G._dedup(G.iter_chains(quick=False))
        yield "operations on constant pairs", G._dedup(G.const_pairs())
        yield "Null/Full alternatives of merges", G._dedup(G.null_full())
        yield "one sliced object used several times", G._dedup(G.shared_objects())
        yield "depth2 widths{1,2}", G.depth2((1, 2))


def run_trees(run: Run, trees, label=""):
    """trees: list of (family, tree).  Pre-screens nothing: batches are split on rejection."""
    # batches are formed per family so that rejected shapes cluster
    indexed = [(i, fam, tree) for i, (fam, tree) in enumerate(trees)]
    by_i = {i: (fam, tree) for i, fam, tree in indexed}
    # expressions of an input class with a listed finding are checked alone (a run-time error of one expression
    # would otherwise force the whole batch to be re-done one by one)
    clean = [x for x in indexed if input_class(x[2]) not in ALONE]
    special = [x for x in indexed if input_class(x[2]) in ALONE]
    tasks = list(chunked(special, 1)) + list(chunked(clean, BATCH))
    fam_counts = collections.Counter()
    rej_samples = {}
    for kind, res in pmap(work, tasks, seed=run.seed):
        if kind != "ok":
            run.tool_error(f"worker failed: {res[-800:]}")
            continue
        for r in res:
            fam, tree = by_i[r["i"]]
            st = r["status"]
            run.count("expressions_" + st)
            fam_counts[(fam, st)] += 1
            if st == "tool":
                run.tool_error(f"{G.describe(tree)}: {r.get('error')}")
                continue
            if st == "rejected":
                rej_samples.setdefault(r["error"].split(":")[0] + ":" + r["error"].split(":", 1)[-1][:60], G.describe(tree))
                continue
            if st == "skipped":
                continue
            run.count("evaluations", r["evaluations"])
            run.count("valuations_open_no_claim", r["open"])
            run.count("valuations_outside_alphabet", r["outside"])
            run.count("transition_glitch_restarts", r.get("glitch_restarts", 0))
            if r["distinct"] >= 2:
                run.count("expressions_with_distinct_results")
            if st == "ok" and r["i"] % 400 == 0:
                run.sample({"expression": G.describe(tree), "valuations": r["valuations"], "family": fam})
            if st == "violation":
                seen = set()
                for p in r["problems"]:
                    key = finding_key(tree, p)
                    if key in seen:
                        continue
                    seen.add(key)
                    run.violation(key, problem_text(tree, p),
                                  {"generator": "expr_gen", "tree": tree, "problem": {k: v for k, v in p.items() if k != "i"},
                                   "cohdl_source": r.get("src")})
    return fam_counts, rej_samples


def main(run: Run):
    all_counts = collections.Counter()
    total = 0
    only = getattr(run, "only", None)  # debug: --only fam1,fam2 restricts the families (never used for verdicts)
    everything = []
    for label, it in families(run):
        trees = [(f, t) for f, t in it if not only or f in only]
        total += len(trees)
        run.count("expressions_generated", len(trees))
        run.note(f"{label}: {len(trees)} expressions")
        everything += trees
    # one pool for all families (no idle tail between families)
    fc, rej = run_trees(run, everything)
    all_counts.update(fc)
    for k, v in list(rej.items())[:12]:
        run.note(f"rejected e.g. {v}: {k}")
    fams = sorted({f for f, _ in all_counts})
    run.coverage_extra["per_family"] = {f: {st: all_counts[(f, st)] for st in ("ok", "violation", "rejected", "skipped")
                                            if all_counts[(f, st)]} for f in fams}
    if only:
        run.capped = True
        run.note(f"restricted to families {sorted(only)} (debug run)")
    acc = run.counters.get("expressions_ok", 0) + run.counters.get("expressions_violation", 0)
    if acc * 2 < total or (run.counters.get("evaluations", 0) < 1000 and not only):
        run.tool_error(f"vacuous: {acc} of {total} expressions accepted, {run.counters.get('evaluations', 0)} evaluations")
    for f in fams:
        if all_counts[(f, "ok")] + all_counts[(f, "violation")] == 0:
            run.tool_error(f"vacuous: no expression of family {f} was accepted")
    run.assume("vsim (own VHDL-2008 subset simulator) implements IEEE 1076 / numeric_std semantics")
    run.assume("integer literals that are not representable in the type of the vector operand have no documented value: "
               "nothing is claimed about the result value (run-time errors are still reported)")
    run.assume("run-time Integer operands are exercised on the value set " + repr(V.INT_DOMAIN))
    run.coverage_extra.update(
        exhaustive=not run.capped,
        rule="every expression tree of the stated alphabet and bound x every operand valuation inside the documented "
             "domain, each in a concurrent and in a clocked context",
        evaluations=run.counters.get("evaluations", 0),
        distinct_nontrivial=run.counters.get("expressions_with_distinct_results", 0),
    )


def _totuple(x):
    if isinstance(x, list):
        return tuple(_totuple(y) for y in x)
    return x


def replay(run: Run, data):
    tree = _totuple(data["tree"])
    res = check_items([(0, tree)])[0]
    if res["status"] == "violation":
        for p in res["problems"]:
            print("reproduced:", problem_text(tree, p))
        return False
    print("status:", res["status"], res.get("error", ""))
    return True

"""C01  Coroutine-to-state-machine translation is clock-accurate.

Explicit-state product BFS of (emitted VHDL under vsim) x (reference coroutine machine) over all
input valuations per clock, for every program of the bounded grammar in verif/gen/coro.py.
"""
from __future__ import annotations

import random

from ..core import Run, pmap, chunked
from ..gen import coro
from .coro_common import check_program, replay_program, to_tuple

LEVEL = "model_checking"


def canon(prog):
    return repr(prog)


# reset flavours of the "idle reset" stratum: the process carries a reset that is never activated, the translation must stay
# clock-accurate (the reset wrapper `if rst then ... else <body>` must not swallow or reorder anything of the body)
IDLE_RESETS = {"rst-sync": dict(is_async=False, active_low=False, step_cond=False),
               "rst-async-low-nopush": dict(is_async=True, active_low=True, step_cond=False, nopush=True),
               "rst-sync-nopush": dict(is_async=False, active_low=False, step_cond=False, nopush=True)}


def split(prog):
    """family items are abstract programs or ('@rst', flavour name, program)"""
    if prog and prog[0] == "@rst":
        return prog[2], IDLE_RESETS[prog[1]]
    return prog, None


def work(task):
    length, progs = task
    out = []
    for item in progs:
        prog, reset = split(item)
        r = check_program(prog, reset)
        r["prog"] = item
        r.pop("vhdl", None)
        if r["status"] in ("ok", "violation"):
            # validate the oracle itself against CPython executing a generator rendering of the same program
            n, mismatch = coro.validate_ref_against_cpython(prog, length)
            r["cpy_traces"] = n
            r["cpy_mismatch"] = mismatch
        out.append(r)
    return out


def program_family(run: Run):
    """quick: all programs with <=3 statement nodes + every size-4 shape over a reduced alphabet + a seed-chosen
    half of the full-alphabet size-4 programs; thorough: all of size <=4 + size-5 programs containing a while and an await."""
    for size in (1, 2, 3):
        yield from coro.programs(size)
    # awaits on coroutines made by one factory (same code object, different captured signal) and on a signal returned by
    # a function with a side effect: every program of size <=3 (thorough <=4) over these forms that uses at least one of them
    for size in ((1, 2, 3, 4) if run.thorough else (1, 2, 3)):
        for p in coro.programs(size, conds=("i0",), awaits=("w0", "w1", "arm", "i1"), calls=(0,)):
            r = repr(p)
            if "'w0'" in r or "'w1'" in r or "'arm'" in r:
                yield p
    # loop-first programs: a while loop as the very first action whose body combines conditional break / continue, awaits and
    # sites (2..4 body items; bodies of 6 and more statement nodes that the size-bounded enumeration does not reach)
    yield from coro.loop_first_programs(4 if not run.thorough else 5)
    # idle reset: every program of size <=2 (thorough <=3) and the small loop-first programs in a process with a reset that
    # stays inactive
    for name in IDLE_RESETS:
        for size in ((1, 2, 3) if run.thorough else (1, 2)):
            for p in coro.programs(size, calls=(0,)):
                yield ("@rst", name, p)
        for p in coro.loop_first_programs(3):
            yield ("@rst", name, p)
    # the same programs with every `if` written as a `match` statement (all sizes <=3, thorough <=4)
    for size in ((1, 2, 3, 4) if run.thorough else (1, 2, 3)):
        for p in coro.programs(size, calls=(0, 1)):
            if coro.has(p, "if"):
                yield coro.to_match(p)
    if not run.thorough:
        # every structural shape of size 4 over a reduced alphabet (one condition, two awaits, one sub-coroutine) ...
        seen = set()
        for p in coro.programs(4, conds=("i0",), awaits=("i1", "true"), calls=(1,)):
            seen.add(repr(p))
            yield p
        # ... plus a seed-chosen half of the full-alphabet size-4 programs
        rng = random.Random(run.seed)
        pick = rng.randrange(2)
        for i, p in enumerate(coro.programs(4, calls=(0, 1))):
            if i % 2 == pick and repr(p) not in seen:
                yield p
    else:
        yield from coro.programs(4)
        for p in coro.programs(5, conds=("i0", "n0"), awaits=("i1", "true"), calls=(1,)):
            if coro.has(p, "while") and coro.has(p, "await"):
                yield p
        # conditions that read the variable
        for size in (2, 3):
            for p in coro.programs(size, conds=("v0", "i0"), awaits=("i1", "true"), calls=()):
                if repr(p).count("v0"):
                    yield p


def finding_key(prog):
    """canonical identity of a failing input: the abstract program"""
    return "prog/" + canon(prog)


def main(run: Run):
    progs = list(program_family(run))
    run.count("programs_generated", len(progs))
    sample_every = max(1, len(progs) // 5)
    tasks = [(5 if run.thorough else 4, c) for c in chunked(progs, 25)]
    done = 0
    for kind, res in pmap(work, tasks, seed=run.seed):
        if kind != "ok":
            run.tool_error(f"worker failed: {res[-600:]}")
            continue
        for r in res:
            done += 1
            st = r["status"]
            run.count("programs_" + st)
            if r.get("cpy_mismatch"):
                run.tool_error(f"reference machine disagrees with CPython for {canon(r['prog'])}: {r['cpy_mismatch']}")
            run.count("ref_traces_validated_against_cpython", r.get("cpy_traces", 0))
            if st in ("ok", "violation"):
                run.count("states", r.get("states", 0))
                run.count("transitions", r.get("transitions", 0))
                run.cmax("max_depth", r.get("depth", 0))
                run.count("traces_validated_against_impl", r.get("states", 0))
                if r.get("observations", 0) > 1:
                    run.count("programs_with_distinct_outcomes")
                if st == "ok" and not r.get("exhausted", True):
                    run.capped = True
            if st == "ok" and done % sample_every == 0:
                run.sample({"program": canon(r["prog"]), "states": r["states"], "transitions": r["transitions"]})
            if st in ("violation", "static"):
                # confirm by plain replay on a fresh simulator before reporting
                trace = r.get("trace")
                if trace is not None:
                    msg = replay_program(*split(r["prog"])[:1], trace, split(r["prog"])[1])
                    if msg is None:
                        run.tool_error(f"replay did not reproduce for {canon(r['prog'])}")
                        continue
                run.violation(finding_key(r["prog"]), f"{canon(r['prog'])}: {r['what'][:300]} trace={trace}",
                              {"generator": "coro", "abstract_program": r["prog"], "cohdl_source": r.get("src"),
                               "events": trace, "reset": split(r["prog"])[1]})
    acc = run.counters.get("programs_ok", 0) + run.counters.get("programs_violation", 0)
    if acc * 2 < len(progs):
        run.tool_error(f"vacuous: only {acc} of {len(progs)} programs accepted by the compiler")
    run.assume("vsim (own VHDL-2008 subset simulator) implements IEEE 1076/numeric_std semantics; validated against 258 upstream testbenches")
    run.assume("reference = coroutine abstract machine of DESIGN.md Appendix B (first-action rule also applied to loop heads), validated "
               "in this run against CPython executing a generator rendering of every accepted program on all input sequences of length 4 (5)")
    run.coverage_extra.update(
        exhaustive=not run.capped,
        rule="every program of the coroutine grammar up to the tier's size bound; per program the full reachable "
             "product state space (design x reference) under all 4 input valuations per clock",
        evaluations=run.counters.get("transitions", 0),
        distinct_nontrivial=run.counters.get("programs_with_distinct_outcomes", 0),
    )


def replay(run: Run, data):
    prog, _ = split(to_tuple(data["abstract_program"]))
    msg = replay_program(prog, [tuple(e) for e in data["events"]], data.get("reset"))
    if msg is not None:
        print("reproduced:", msg)
        return False
    return True

"""C14  std.Fifo and std.Stack keep order, content and occupancy exact.

For every configuration (element type, capacity N, delay setting, one/two contexts | stack mode) a wrapper
entity (verif/gen/c14_wrappers.py) is compiled by the real compiler, the emitted VHDL is simulated by vsim and
the product  (design) x (deque/list reference, verif/ref/c14_models.py) x (environment offering every request
combination with every data value each clock)  is explored to exhaustion (explicit-state BFS).

Oracle
  zero-delay Fifo (one or two contexts), Stack: cycle-exact  - accepted pushes/pops, popped value, front,
      empty, full, size after every clock; capacity N-1 (Fifo) / N (Stack); DROP_OLD drops exactly the oldest.
  delayed Fifo (two contexts): order / no loss / no duplication / occupancy <= N-1, emitted asserts never fire,
      indications conservative per context (a push forwarded because the sender saw "not full" finds room, a pop
      forwarded because the receiver saw "not empty" finds the oldest pending element), every occupancy
      0..N-1 reachable, from every reachable state all pending elements are delivered when the environment
      only pops (no deadlock, no loss), the Fifo can always be filled to N-1 when the environment only
      pushes, and in every state the system can stay in forever while the environment is idle the per-context
      indications are exact.  Cycle-exact agreement is deliberately NOT demanded of the delayed variants.
"""
from __future__ import annotations

from ..cohdl_util import compile_source
from ..core import Run, pmap
from ..gen import c14_wrappers as W
from ..gen.c14_explore import explore, eventually, recurrent_states
from ..ref.c14_models import FifoModel, StackModel
from ..vhdl import rt
from ..vhdl.elab import compile_design, from_raw
from ..vhdl.parser import Unsupported, VhdlSyntaxError

LEVEL = "model_checking"

MAX_STATES = 3_000_000


class _Base:
    def _bind(self, sim, inputs):
        self.sim = sim
        p = sim.ports
        self.sid = {n: p[n][0] for n in p}
        self.ty = {n: p[n][1] for n in p}
        self.in_ty = {n: p[n][1] for n in inputs}
        for n in inputs:
            sim.N[self.sid[n]] = 0 if self.ty[n][0] == "sl" else (0, 0)
        sim.N[self.sid["clk"]] = 0
        sim.settle()

    def get(self, name):
        return from_raw(self.ty[name], self.sim.S[self.sid[name]])

    def _drive(self, kv):
        sim = self.sim
        N = sim.N
        for n, v in kv:
            N[self.sid[n]] = v if self.ty[n][0] == "sl" else (v, 0)
        sim.settle()
        N[self.sid["clk"]] = 1
        sim.settle()
        N[self.sid["clk"]] = 0
        sim.settle()
        # the environment returns its requests to the idle value after the edge (they are only sampled by the clocked
        # processes; everything compared below is registered or a function of the stored state), so that product
        # states do not differ merely by the last input valuation
        for n, _ in kv:
            N[self.sid[n]] = 0 if self.ty[n][0] == "sl" else (0, 0)
        sim.settle()
        if sim.A:
            a = sim.A[0]
            del sim.A[:]
            return f"emitted VHDL assertion fired: {a!r}"
        if sim.PR:
            return f"intermediate variable read before written: {sim.poisoned_reads()}"
        return None


class FifoSystem(_Base):
    """choice = (push_req, push_data, pop_req)"""

    def __init__(self, sim, cfg, sfx="", bind=True):
        _, T, n, tx, rx, ctxs = cfg
        self.cfg = cfg
        self.n = n
        self.sfx = sfx
        self.exact = tx == 0 and rx == 0 and cfg[0] == "fifo"
        self.views = ctxs in ("2o", "2b")
        self.m = FifoModel(n)
        vals = range(1 << W.width(T))
        self.menu = [(0, 0, 0), (0, 0, 1)] + [(1, v, 0) for v in vals] + [(1, v, 1) for v in vals]
        self.seen_occ = set()
        self.n_push = 0
        self.n_pop = 0
        self.n_both = 0
        if bind:
            self._bind(sim, ("push_req", "push_data", "pop_req"))
        else:
            self.sim = sim
            self.sid = {k: v[0] for k, v in sim.ports.items()}
            self.ty = {k: v[1] for k, v in sim.ports.items()}

    def snapshot(self):
        return (self.sim.snapshot(), self.m.q)

    def restore(self, s):
        self.sim.restore(s[0])
        self.m.q = s[1]

    def choices(self):
        return self.menu

    def observe(self):
        return (self.get("push_ack"), self.get("pop_valid"), self.get("pop_data"), len(self.m.q))

    def check_static(self):
        """indications of the zero-delay Fifo against the model in the current state"""
        m = self.m
        e, f = self.get("empty"), self.get("full")
        if e != int(m.empty()):
            return f"empty={e} with {len(m.q)} element(s) stored (reference {int(m.empty())})"
        if f != int(m.full()):
            return f"full={f} with {len(m.q)} of {m.cap} element(s) stored (reference {int(m.full())})"
        if not m.empty():
            fr = self.get("front")
            if fr != m.front():
                return f"front()={fr} but the oldest stored element is {m.front()} (stored {m.q})"
        return None

    def check_views(self, exact):
        """the registered per-context views describe the state before this clock (model not yet updated).
        A context may lag behind the other one, never run ahead: the sender may see more elements than there are
        (pops not yet reported), the receiver fewer (pushes not yet reported)."""
        m = self.m
        n, cap = len(m.q), m.cap
        tf, te, rf, re_ = self.get("tx_full"), self.get("tx_empty"), self.get("rx_full"), self.get("rx_empty")
        if None in (tf, te, rf, re_):
            return (f"per-context indications undefined: sender full()={tf} empty()={te}, receiver full()={rf} empty()={re_} "
                    f"(None = 'U': the signal returned by full()/empty() is never driven)")
        if exact:
            if (tf, rf) != (int(n == cap),) * 2 or (te, re_) != (int(n == 0),) * 2:
                return (f"{n}/{cap} stored: sender full()={tf} empty()={te}, receiver full()={rf} empty()={re_}; "
                        f"exact full={int(n == cap)} empty={int(n == 0)}")
            return None
        if not tf and n >= cap:
            return f"sender sees full()=0 with {n} = N-1 elements pending"
        if te and n > 0:
            return f"sender sees empty()=1 with {n} element(s) pending"
        if not re_ and n == 0:
            return "receiver sees empty()=0 with nothing pending"
        if rf and n < cap:
            return f"receiver sees full()=1 with only {n} of {cap} pending"
        return None

    def apply(self, ch):
        push, data, pop = ch
        m = self.m
        msg = self._drive((("push_req", push), ("push_data", data), ("pop_req", pop)))
        if msg:
            return msg
        return self.after_clock(ch)

    def after_clock(self, ch):
        push, data, pop = ch
        m = self.m
        sfx = self.sfx
        ack, valid, pdata = self.get("push_ack" + sfx), self.get("pop_valid" + sfx), self.get("pop_data" + sfx)
        if ack is None or valid is None:
            return f"push_ack={ack} pop_valid={valid}: undefined (the wrapper's gate read an undriven full()/empty())"
        room, avail = not m.full(), not m.empty()
        if self.views:
            msg = self.check_views(exact=self.exact)
            if msg:
                return msg
        if self.exact:
            if ack != int(bool(push and room)):
                return (f"push request={push} with {len(m.q)}/{m.cap} stored: forwarded={ack}, "
                        f"reference {int(bool(push and room))} (full() wrong as seen by the pushing context)")
            if valid != int(bool(pop and avail)):
                return (f"pop request={pop} with {len(m.q)}/{m.cap} stored: forwarded={valid}, "
                        f"reference {int(bool(pop and avail))} (empty() wrong as seen by the popping context)")
        else:
            if ack and not push:
                return "push forwarded without a request"
            if valid and not pop:
                return "pop forwarded without a request"
            if ack and not room:
                return (f"sender saw 'not full' while {len(m.q)} = N-1 elements are pending {m.q}: "
                        f"push of {data} overwrites / exceeds the capacity")
            if valid and not avail:
                return f"receiver saw 'not empty' and popped {pdata} while nothing is pending (duplicate or phantom)"
        if valid:
            exp = m.pop()
            self.n_pop += 1
            if pdata != exp:
                return f"pop returned {pdata}, the oldest pending element is {exp} (pending before the pop: {(exp,) + m.q})"
        elif pdata != 0:
            return f"pop_data={pdata} without a pop (the wrapper clears it)"
        if ack:
            m.push(data)
            self.n_push += 1
            if valid:
                self.n_both += 1
        self.seen_occ.add(len(m.q))
        if self.exact:
            return self.check_static()
        return None


class Fifo2System(_Base):
    """two delayed Fifos sharing the sender context and the receiver context; choice = choice of Fifo 0 + choice of Fifo 1"""

    exact = False
    views = False

    def __init__(self, sim, cfg):
        self.cfg = cfg
        self._bind(sim, ("push_req0", "push_data0", "pop_req0", "push_req1", "push_data1", "pop_req1"))
        self.f = [FifoSystem(sim, cfg, sfx=str(i), bind=False) for i in (0, 1)]
        self.menu = [a + b for a in self.f[0].menu for b in self.f[1].menu]
        self.m = self.f[0].m   # capacity

    def snapshot(self):
        return (self.sim.snapshot(), self.f[0].m.q, self.f[1].m.q)

    def restore(self, s):
        self.sim.restore(s[0])
        self.f[0].m.q, self.f[1].m.q = s[1], s[2]

    def choices(self):
        return self.menu

    def observe(self):
        return tuple(self.get(n + i) for i in "01" for n in ("push_ack", "pop_valid", "pop_data")) + \
            (len(self.f[0].m.q), len(self.f[1].m.q))

    def apply(self, ch):
        msg = self._drive(tuple((n + str(i), ch[3 * i + k]) for i in (0, 1)
                                for k, n in enumerate(("push_req", "push_data", "pop_req"))))
        if msg:
            return msg
        for i in (0, 1):
            msg = self.f[i].after_clock(ch[3 * i:3 * i + 3])
            if msg:
                return f"Fifo {i} (of two delayed Fifos sharing both contexts): {msg}"
        return None

    @property
    def seen_occ(self):
        return self.f[0].seen_occ & self.f[1].seen_occ

    n_push = property(lambda self: self.f[0].n_push + self.f[1].n_push)
    n_pop = property(lambda self: self.f[0].n_pop + self.f[1].n_pop)
    n_both = property(lambda self: self.f[0].n_both + self.f[1].n_both)


def liveness_fifo2(system, space, out):
    cap = system.m.cap
    states = list(space.states)
    both = lambda a: a + a
    for kind, ch, goal, text in (
            ("drain", both((0, 0, 1)), lambda s: not s.f[0].m.q and not s.f[1].m.q,
             "with both receivers requesting a pop every clock (no push) the pending elements are never all delivered"),
            ("fill", both((1, 0, 0)), lambda s: len(s.f[0].m.q) == cap and len(s.f[1].m.q) == cap,
             f"with both senders requesting a push every clock (no pop) the two Fifos never both hold N-1={cap} elements")):
        bad, steps = eventually(system, states, lambda s: ch, goal)
        out["liveness_steps"] += steps
        if bad is not None:
            s, msg = bad
            system.restore(s)
            return (kind, space.trace_to(s), msg or f"pending {system.f[0].m.q} / {system.f[1].m.q}: {text}")
    return None


class StackSystem(_Base):
    """choice = ("none",) | ("push", v) | ("pop",) | ("reset",)"""

    def __init__(self, sim, cfg):
        _, T, n, mode = cfg
        self.cfg = cfg
        self.n = n
        self.drop_old = mode == "DROP_OLD"
        self.m = StackModel(n, self.drop_old)
        self.menu = [("none",), ("pop",), ("reset",)] + [("push", v) for v in range(1 << W.width(T))]
        self.seen_occ = set()
        self.n_push = self.n_pop = self.n_drop = self.n_reset = 0
        self._bind(sim, ("push_req", "push_data", "pop_req", "reset_req"))

    def snapshot(self):
        return (self.sim.snapshot(), self.m.s)

    def restore(self, s):
        self.sim.restore(s[0])
        self.m.s = s[1]

    def choices(self):
        return self.menu

    def observe(self):
        return (self.get("push_ack"), self.get("pop_valid"), self.get("pop_data"), self.get("size"))

    def check_static(self):
        m = self.m
        e, f, sz = self.get("empty"), self.get("full"), self.get("size")
        if sz != m.size():
            return f"size()={sz} with {m.size()} element(s) stored {m.s}"
        if e != int(m.empty()):
            return f"empty()={e} with {m.size()} element(s) stored"
        if f != int(m.full()):
            return f"full()={f} with {m.size()} of {m.cap} element(s) stored"
        return None

    def apply(self, ch):
        m = self.m
        op = ch[0]
        data = ch[1] if op == "push" else 0
        msg = self._drive((("push_req", int(op == "push")), ("push_data", data),
                           ("pop_req", int(op == "pop")), ("reset_req", int(op == "reset"))))
        if msg:
            return msg
        ack, valid, pdata = self.get("push_ack"), self.get("pop_valid"), self.get("pop_data")
        fv, fr = self.get("front_valid"), self.get("front")
        # registered view of the state *before* this clock
        if fv != int(not m.empty()):
            return f"empty() seen by the process = {1 - fv if fv is not None else None} with {m.size()} element(s) stored"
        if not m.empty():
            if fr != m.front():
                return f"front()={fr} but the newest stored element is {m.front()} (stored {m.s})"
        elif fr != 0:
            return f"front register = {fr} while empty (the wrapper clears it)"
        exp_push = op == "push" and (self.drop_old or not m.full())
        exp_pop = op == "pop" and not m.empty()
        if ack != int(exp_push):
            return f"{op} with {m.size()}/{m.cap} stored: push forwarded={ack}, reference {int(exp_push)}"
        if valid != int(exp_pop):
            return f"{op} with {m.size()}/{m.cap} stored: pop forwarded={valid}, reference {int(exp_pop)}"
        if exp_pop:
            exp = m.pop()
            self.n_pop += 1
            if pdata != exp:
                return f"pop returned {pdata}, the newest stored element is {exp} (stored before the pop: {m.s + (exp,)})"
        elif pdata != 0:
            return f"pop_data={pdata} without a pop (the wrapper clears it)"
        if exp_push:
            if m.full():
                self.n_drop += 1
            m.push(data)
            self.n_push += 1
        if op == "reset":
            m.reset()
            self.n_reset += 1
        self.seen_occ.add(m.size())
        return self.check_static()


# ---------------------------------------------------------------------------------------------------


def build(cfg):
    """compile the wrapper; returns (status, payload): ('ok', system) | ('rejected', text) | ('static', text)"""
    src = W.render(cfg)
    res, _ = compile_source(src)
    if not res.ok:
        return "rejected", res.error
    try:
        d = compile_design(res.vhdl, poison=True)
    except VhdlSyntaxError as e:
        return "static", f"emitted VHDL does not parse: {e}"
    sim = d.sim()  # (multiply driven signals are C07's business; here only behaviour counts)
    system = {"fifo": FifoSystem, "fifo2": Fifo2System, "stack": StackSystem}[cfg[0]](sim, cfg)
    return "ok", system


def _probe(system, snap, ch):
    system.restore(snap)
    msg = system.apply(ch)
    return msg


def liveness_fifo(system, space, out):
    """checks on the reachable set of a delayed Fifo; returns (kind, trace, what) or None"""
    m = system.m
    cap = m.cap
    states = list(space.states)
    # 1. only popping: everything pending gets delivered (no loss, no deadlock of the ping-pong)
    bad, steps = eventually(system, states, lambda s: (0, 0, 1), lambda s: len(s.m.q) == 0)
    out["liveness_steps"] += steps
    if bad is not None:
        s, msg = bad
        system.restore(s)
        return ("drain", space.trace_to(s), msg or
                f"with {len(system.m.q)} element(s) pending {system.m.q} and the receiver requesting a pop every clock "
                f"(no further push) the pending elements are never all delivered")
    # 2. only pushing: the Fifo can be filled to N-1 (holds up to N-1 elements, sender never stuck on a stale 'full')
    bad, steps = eventually(system, states, lambda s: (1, 0, 0), lambda s: len(s.m.q) == cap)
    out["liveness_steps"] += steps
    if bad is not None:
        s, msg = bad
        system.restore(s)
        return ("fill", space.trace_to(s), msg or
                f"with {len(system.m.q)} of {cap} pending and the sender requesting a push every clock (no pop) "
                f"the Fifo never holds N-1={cap} elements")
    # 3. idle environment: in the states the system stays in forever, the per-context indications are exact
    rec, steps, viol = recurrent_states(system, states, lambda s: (0, 0, 0))
    out["liveness_steps"] += steps
    if viol is not None:
        return ("idle", space.trace_to(viol[0]), viol[1])
    out["idle_recurrent_states"] += len(rec)
    for s in rec:
        system.restore(s)
        n = len(system.m.q)
        if system.views:
            # the views registered by one more idle clock are the views of the recurrent state s
            msg = system.apply((0, 0, 0)) or system.check_views(exact=True)
            out["liveness_steps"] += 1
            if msg is not None:
                return ("idle-views", space.trace_to(s), "after the environment has been idle for good: " + msg)
            system.restore(s)
        msg = system.apply((1, 0, 0))
        if msg is not None:
            return ("idle-probe", space.trace_to(s) + [(1, 0, 0)], msg)
        ack = system.get("push_ack")
        if ack != int(n < cap):
            return ("idle-full", space.trace_to(s), f"after the environment has been idle for good, {n} of {cap} pending: "
                    f"sender sees full()={1 - ack}, exact value {int(n == cap)}")
        system.restore(s)
        msg = system.apply((0, 0, 1))
        if msg is not None:
            return ("idle-probe", space.trace_to(s) + [(0, 0, 1)], msg)
        valid = system.get("pop_valid")
        if valid != int(n > 0):
            return ("idle-empty", space.trace_to(s), f"after the environment has been idle for good, {n} of {cap} pending: "
                    f"receiver sees empty()={1 - valid}, exact value {int(n == 0)}")
        out["liveness_steps"] += 2
    return None


def run_config(cfg):
    out = {"cfg": cfg, "status": "ok", "liveness_steps": 0, "idle_recurrent_states": 0}
    try:
        st, payload = build(cfg)
    except Unsupported as e:
        return {"cfg": cfg, "status": "unsupported", "what": str(e)}
    if st != "ok":
        out.update(status=st, what=payload)
        return out
    system = payload
    try:
        msg = system.check_static() if (cfg[0] == "stack" or system.exact) else None
        if msg is not None:
            out.update(status="violation", kind="initial", what="initial state: " + msg, trace=[])
            return out
        space = explore(system, max_states=MAX_STATES)
        r = space.result
        out.update(states=r.states, transitions=r.transitions, depth=r.depth, exhausted=r.exhausted,
                   observations=len(r.observations), pushes=system.n_push, pops=system.n_pop,
                   occ=sorted(system.seen_occ))
        if cfg[0] in ("fifo", "fifo2"):
            out["both"] = system.n_both
        else:
            out["drops"] = system.n_drop
            out["resets"] = system.n_reset
        if r.violation is not None:
            out.update(status="violation", kind="safety", what=r.violation, trace=r.trace)
            return out
        if not r.exhausted:
            return out
        deepest = next(reversed(space.parent))  # BFS order: the last state found is one of the deepest
        out["sample_trace"] = space.trace_to(deepest)
        cap = system.m.cap
        missing = [k for k in range(cap + 1) if k not in system.seen_occ and k != 0]
        if missing:
            out.update(status="violation", kind="occupancy", trace=[],
                       what=f"occupancy {missing} of 0..{cap} is never reached in the complete reachable state space")
            return out
        if cfg[0] == "fifo2":
            v = liveness_fifo2(system, space, out)
            if v is not None:
                out.update(status="violation", kind=v[0], trace=v[1], what=v[2])
        if cfg[0] == "fifo" and not system.exact:
            v = liveness_fifo(system, space, out)
            if v is not None:
                out.update(status="violation", kind=v[0], trace=v[1], what=v[2])
    except rt.SimError as e:
        out.update(status="violation", kind="simerror", what=f"simulation run-time error: {e}", trace=None)
    return out


def replay_config(cfg, kind, trace):
    """plain re-execution on a fresh simulator (no explorer for safety/idle/drain/fill traces).
    Returns the violation text or None."""
    st, payload = build(cfg)
    if st != "ok":
        return payload if st == "static" else None
    system = payload
    if kind == "initial":
        return system.check_static()
    if kind == "occupancy" or trace is None:
        r = run_config(cfg)
        return r.get("what") if r["status"] == "violation" else None
    for ch in trace:
        msg = system.apply(tuple(ch))
        if msg is not None:
            return msg
    if kind == "safety":
        return None
    start = system.snapshot()
    cap = system.m.cap
    if kind in ("drain", "fill"):
        ch = (0, 0, 1) if kind == "drain" else (1, 0, 0)
        goal = (lambda: len(system.m.q) == 0) if kind == "drain" else (lambda: len(system.m.q) == cap)
        if cfg[0] == "fifo2":
            ch = ch + ch
            qs = lambda: (system.f[0].m.q, system.f[1].m.q)
            goal = (lambda: not qs()[0] and not qs()[1]) if kind == "drain" else \
                (lambda: len(qs()[0]) == cap and len(qs()[1]) == cap)
        seen = set()
        s = start
        while s not in seen:
            if goal():
                return None
            seen.add(s)
            msg = system.apply(ch)
            if msg is not None:
                return msg
            s = system.snapshot()
        return f"{kind}: cycle of {len(seen)} states never reaches the goal"
    if kind == "idle-views":
        for _ in range(10_000):
            msg = system.apply((0, 0, 0))
            if msg is not None:
                return msg
            if system.snapshot() == start:
                break
        else:
            return None
        return system.check_views(exact=True)
    if kind in ("idle-full", "idle-empty"):
        # the stored state is recurrent under idle: show it by idling until it comes back, then probe
        n = len(system.m.q)
        s = None
        for _ in range(10_000):
            msg = system.apply((0, 0, 0))
            if msg is not None:
                return msg
            s = system.snapshot()
            if s == start:
                break
        if s != start:
            return None
        system.apply((1, 0, 0) if kind == "idle-full" else (0, 0, 1))
        got = system.get("push_ack") if kind == "idle-full" else system.get("pop_valid")
        exp = int(n < cap) if kind == "idle-full" else int(n > 0)
        return None if got == exp else f"{kind}: indication {1 - got} exact {1 - exp} with {n}/{cap} pending (state recurs under idle)"
    return None


def size_estimate(cfg):
    if cfg[0] == "stack":
        return (1 << W.width(cfg[1])) ** cfg[2]
    _, T, n, tx, rx, c = cfg
    est = (1 << W.width(T)) ** n * n * n * (1 if tx == rx == 0 else 8 * (tx + rx + 1) * n)
    return est * est if cfg[0] == "fifo2" else est


def main(run: Run):
    cfgs = W.fifo_configs(run.thorough) + W.stack_configs(run.thorough) + W.fifo2_configs(run.thorough)
    cfgs.sort(key=size_estimate, reverse=True)
    run.count("configurations", len(cfgs))
    explored = 0
    delayed_explored = 0
    for kind, r in pmap(run_config, cfgs, seed=run.seed):
        if kind != "ok":
            run.tool_error(f"worker failed: {r[-800:]}")
            continue
        cfg = tuple(r["cfg"])
        st = r["status"]
        run.count("configs_" + st)
        if st == "unsupported":
            run.tool_error(f"vsim does not support a construct emitted for {W.key(cfg)}: {r['what']}")
            continue
        if st == "rejected":
            # a compiler rejection is never a violation; single-context use of a delayed Fifo is documented
            # (assert text) as not allowed
            scd = cfg[0] == "fifo" and cfg[5] != 2 and (cfg[3] or cfg[4])
            run.count("rejected_single_context_delayed" if scd else "rejected_other")
            if not scd:
                run.note(f"rejected: {W.key(cfg)}: {r['what'][:200]}")
            continue
        if st == "static":
            run.violation(W.key(cfg) + "/static", f"{W.key(cfg)}: {r['what'][:300]}",
                          {"cfg": cfg, "kind": "static", "events": None, "cohdl_source": W.render(cfg)})
            continue
        explored += 1
        if cfg[0] == "fifo" and (cfg[3] or cfg[4]):
            delayed_explored += 1
        run.count("states", r.get("states", 0))
        run.count("transitions", r.get("transitions", 0))
        run.count("traces_validated_against_impl", r.get("states", 0))
        run.count("liveness_transitions", r.get("liveness_steps", 0))
        run.count("idle_recurrent_states_probed", r.get("idle_recurrent_states", 0))
        run.cmax("max_depth", r.get("depth", 0))
        run.cmax("max_states_one_config", r.get("states", 0))
        run.count("pushes_accepted", r.get("pushes", 0))
        run.count("pops_accepted", r.get("pops", 0))
        run.count("fifo_push_and_pop_same_clock", r.get("both", 0))
        run.count("stack_drop_old_drops", r.get("drops", 0))
        run.count("stack_resets", r.get("resets", 0))
        if r.get("observations", 0) > 1:
            run.count("configs_with_distinct_outcomes")
        if st == "ok" and not r.get("exhausted", False):
            run.capped = True
            run.note(f"state cap hit: {W.key(cfg)} ({r.get('states')} states)")
        if st == "ok":
            run.sample({"config": W.key(cfg), "states": r["states"], "transitions": r["transitions"],
                        "depth": r["depth"], "choice_sequence_to_a_deepest_state": r.get("sample_trace"), "occupancies_reached": r["occ"]},
                       force=r["states"] == run.counters.get("max_states_one_config"))
        if st == "violation":
            trace = r.get("trace")
            vkind = r.get("kind")
            if vkind not in ("simerror",):
                msg = replay_config(cfg, vkind, trace)
                if msg is None:
                    run.tool_error(f"replay did not reproduce for {W.key(cfg)} ({vkind}): {r['what'][:200]}")
                    continue
            run.violation(f"{W.key(cfg)}/{vkind}", f"{W.key(cfg)}: {r['what'][:400]} trace={trace}",
                          {"cfg": cfg, "kind": vkind, "events": trace, "cohdl_source": W.render(cfg),
                           "generator": "c14_wrappers"})
    if run.counters.get("rejected_other", 0):
        run.tool_error(f"{run.counters['rejected_other']} configuration(s) that cohdl is expected to accept were rejected "
                       f"(see notes in the evidence; e.g. /repo modified while the check was running?)")
    if explored * 2 < len(cfgs) - run.counters.get("rejected_single_context_delayed", 0) or explored < 8:
        run.tool_error(f"vacuous: only {explored} of {len(cfgs)} configurations were explored")
    if not run.violations and not run.known_hits:
        if delayed_explored == 0:
            run.tool_error("vacuous: no delayed (two-context) Fifo configuration was explored")
        if run.counters.get("fifo_push_and_pop_same_clock", 0) == 0 or run.counters.get("stack_drop_old_drops", 0) == 0:
            run.tool_error("vacuous: push+pop in one clock / DROP_OLD overflow never exercised")
    run.assume("vsim (own VHDL-2008 subset simulator) implements IEEE 1076/numeric_std semantics incl. assert statements")
    run.assume("reference = deque/list models written from utility.pyi and the property statement; delayed Fifo: "
               "conservative per-context indications, exactness only demanded in states that recur under an idle environment")
    run.assume("the wrapper forwards a push only while the container's own full() is false and a pop only while empty() "
               "is false, each read in the calling context (documented precondition); producer and consumer share one clock")
    run.coverage_extra.update(
        exhaustive=not run.capped,
        rule="for every configuration the complete reachable product state space (design x reference x environment) "
             "under all per-clock request combinations and data values; liveness decided exactly on the reachable set "
             "under the deterministic pop-only / push-only / idle environments; distinct_nontrivial = configurations whose "
             "exploration showed more than one distinct observable output vector",
        evaluations=run.counters.get("transitions", 0),
        distinct_nontrivial=run.counters.get("configs_with_distinct_outcomes", 0),
    )


def replay(run: Run, data):
    cfg = tuple(data["cfg"])
    kind = data.get("kind")
    if kind == "static":
        st, payload = build(cfg)
        if st == "static":
            print("reproduced:", payload)
            return False
        return True
    ev = data.get("events")
    trace = [tuple(e) for e in ev] if ev is not None else None
    try:
        msg = replay_config(cfg, kind, trace)
    except rt.SimError as e:
        msg = f"simulation run-time error: {e}"
    if kind == "simerror" and msg is None:
        r = run_config(cfg)
        msg = r.get("what") if r["status"] == "violation" else None
    if msg is not None:
        print("reproduced:", msg)
        return False
    return True

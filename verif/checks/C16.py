"""C16  std timing utilities are exact to the clock.

For every configuration of the bounded families in verif/gen/c16_configs.py (wait_for / Waiter with constant,
run-time and Duration arguments; delayed / DelayLine; continuous_counter; ToggleSignal; ClockDivider; debounce)
a marker wrapper entity is compiled with the real compiler, the emitted VHDL is run under vsim and explored in
an explicit-state product BFS together with the reference model of verif/ref/c16_models.py under *all* input
valuations per clock, until the reachable product state space is exhausted.  The references are possibly
nondeterministic (documented-open phases): the product keeps the set of reference states consistent with the
design's outputs and reports a violation when that set becomes empty.
"""
from __future__ import annotations

from ..cohdl_util import compile_source
from ..core import Run, pmap, chunked
from ..gen import c16_configs as G
from ..mc.explorer import bfs
from ..vhdl import rt
from ..vhdl.elab import compile_design, from_raw, to_raw
from ..vhdl.parser import Unsupported, VhdlSyntaxError

LEVEL = "model_checking"

MAX_STATES = 300_000
ASSERT_MSG = "VHDL assertion fired for an input inside the documented domain"


class TimingSystem:
    """DUT (vsim) x reference candidates; environment = model.menu each clock."""

    def __init__(self, sim, model, assert_is_violation=True):
        self.sim = sim
        self.model = model
        self.assert_is_violation = assert_is_violation
        p = sim.ports
        missing = [n for n in model.input_names + model.outputs + ["clk"] if n not in p]
        if missing:
            raise Unsupported(f"wrapper ports missing: {missing}")
        self.in_ports = [(p[n][0], p[n][1]) for n in model.input_names]
        self.menu = list(model.menu)
        self.raw_menu = {ch: [to_raw(ty, v) for (sid, ty), v in zip(self.in_ports, ch)] for ch in self.menu}
        self.sid_clk = p["clk"][0]
        self.outs = [(n, p[n][0], p[n][1]) for n in model.outputs]
        self.cands = frozenset(model.init())
        # initial input values: first menu entry (only matters for combinational paths before the first clock)
        if self.menu:
            for (sid, ty), r in zip(self.in_ports, self.raw_menu[self.menu[0]]):
                sim.N[sid] = r
        sim.N[self.sid_clk] = 0
        sim.settle()
        del sim.A[:]

    def snapshot(self):
        return (self.sim.snapshot(), self.cands)

    def restore(self, s):
        self.sim.restore(s[0])
        self.cands = s[1]

    def choices(self):
        return self.menu

    def observe(self):
        S = self.sim.S
        return tuple(S[sid] for _, sid, _ in self.outs)

    def apply(self, ch):
        sim = self.sim
        N = sim.N
        for (sid, ty), r in zip(self.in_ports, self.raw_menu[ch]):
            N[sid] = r
        sim.settle()
        N[self.sid_clk] = 1
        sim.settle()
        N[self.sid_clk] = 0
        sim.settle()
        if sim.A:
            a = sim.A[0]
            del sim.A[:]
            if self.assert_is_violation:
                return f"{ASSERT_MSG}: {a}"
        if sim.PR:
            return f"intermediate variable read before written in an activation: {sim.poisoned_reads()}"
        S = sim.S
        got = tuple(from_raw(ty, S[sid]) for _, sid, ty in self.outs)
        new = set()
        exps = []
        for st in self.cands:
            for st2, exp in self.model.step(st, ch):
                ok = True
                for g, e in zip(got, exp):
                    if e is not None and g != e:
                        ok = False
                        break
                if ok:
                    new.add(st2)
                elif len(exps) < 4:
                    exps.append(exp)
        if not new:
            names = self.model.outputs
            return (f"inputs {dict(zip(self.model.input_names, ch))}: design outputs {dict(zip(names, got))} match no "
                    f"admissible reference behaviour; reference expects {[dict(zip(names, e)) for e in exps]}")
        self.cands = frozenset(new)
        return None


def _norm_choice(ch):
    return tuple(ch)


def check_config(cfg, max_states=MAX_STATES):
    """compile + explore one configuration -> result dict (status: rejected | rejected_ok | ok | violation | static)"""
    src, model, expect = G.build(cfg)
    res, _ = compile_source(src)
    out = {"key": cfg["key"], "family": cfg["family"], "expect": expect}
    if not res.ok:
        if expect == "accept":
            out.update(status="violation", what=f"rejected although the clock period divides the Duration: {res.error}",
                       trace=None, src=src, sub="rejected")
        elif expect == "reject":
            out.update(status="rejected_ok", error=res.error)
        else:
            out.update(status="rejected", error=res.error)
        return out
    if expect == "reject":
        out.update(status="violation", what="accepted although the clock period does not divide the Duration "
                                            "(count_periods documents an allowed relative error of 1e-9)",
                   trace=None, src=src, sub="accepted")
        return out
    try:
        d = compile_design(res.vhdl, poison=True)
    except VhdlSyntaxError as e:
        out.update(status="static", what=f"emitted VHDL does not parse: {e}", src=src, trace=None)
        return out
    try:
        system = TimingSystem(d.sim(), model)
        r = bfs(system, max_states=max_states)
        if r.violation is not None and r.violation.startswith(ASSERT_MSG):
            # a spurious run-time assertion is reported on its own; the timing behaviour is still explored completely
            out["assertion"] = {"what": r.violation, "trace": [list(c) for c in r.trace]}
            system = TimingSystem(d.sim(), model, assert_is_violation=False)
            r = bfs(system, max_states=max_states)
    except rt.SimError as e:
        out.update(status="violation", what=f"simulation error: {e}", trace=None, src=src, states=0, transitions=0)
        return out
    out.update(status="ok", states=r.states, transitions=r.transitions, depth=r.depth, exhausted=r.exhausted,
               observations=len(r.observations), choices=len(system.menu))
    if r.violation is not None:
        out.update(status="violation", what=r.violation, trace=[list(c) for c in r.trace], src=src)
    elif "assertion" in out:
        out["src"] = src
    return out


def replay_config(cfg, trace, asserts=True):
    """plain loop over the event list on a fresh simulator; returns violation text or None"""
    src, model, expect = G.build(cfg)
    res, _ = compile_source(src)
    if trace is None:
        if not res.ok:
            return f"rejected: {res.error}" if expect == "accept" else None
        if expect == "reject":
            return "accepted although the clock period does not divide the Duration"
        try:
            system = TimingSystem(compile_design(res.vhdl, poison=True).sim(), model)
        except rt.SimError as e:
            return f"simulation error: {e}"
        return None
    if not res.ok or model is None:
        return None
    system = TimingSystem(compile_design(res.vhdl, poison=True).sim(), model, assert_is_violation=asserts)
    for ch in trace:
        try:
            msg = system.apply(_norm_choice(ch))
        except rt.SimError as e:
            return f"simulation error: {e}"
        if msg is not None:
            return msg
    return None


# ---------------------------------------------------------------------------------------------
# Python-level sweep of Duration.count_periods over the complete (unit, mantissa, clock) grid
# ---------------------------------------------------------------------------------------------
SWEEP_MODES = ("default", "relaxed", "float")


def _num(text):
    return float(text) if "." in text else int(text)


def grid_eval(u, m, clk, mode):
    """call the real Duration.count_periods -> ("ok", value) | ("reject", text)"""
    from cohdl import std

    kind, unit, text = G.CLOCKS[clk]
    per = getattr(std, unit)(_num(text))
    per = per.period()
    d = getattr(std, u)(_num(m))
    try:
        if mode == "default":
            return ("ok", d.count_periods(per))
        if mode == "relaxed":
            return ("ok", d.count_periods(per, allowed_delta=0.25))
        return ("ok", d.count_periods(per, float_result=True))
    except AssertionError as e:
        return ("reject", str(e)[:120])


def grid_expect(r, mode):
    """documented result for the exact ratio r (Fraction): ("ok", n) | ("reject",) | ("float", r) | None = not
    constrained.  count_periods: "dividing the two period durations and rounding to the nearest integer";
    "`allowed_delta` defines the maximum allowed difference between the float division result and the returned
    integer" (relative or absolute is not said: only cases where both readings agree are constrained; ratios
    next to the tolerance are left open); float_result: the quotient without rounding."""
    from fractions import Fraction as F

    if mode == "float":
        return ("float", r)
    if r.denominator == 1:
        return ("ok", int(r))
    lo = r.numerator // r.denominator
    near = lo if r - lo < F(1, 2) else lo + 1  # (a tie has dev_abs = 1/2 and is never expected to be accepted)
    dev_abs = abs(r - near)
    dev_rel = dev_abs / r
    tol = F(1, 10**9) if mode == "default" else F(1, 4)
    if max(dev_abs, dev_rel) < tol * F(8, 10):
        return ("ok", near)
    if min(dev_abs, dev_rel) > tol * F(12, 10) and min(dev_abs, dev_rel) > F(1, 10**6):
        return ("reject",)
    return None


def grid_compare(got, exp):
    if exp is None:
        return None
    if exp[0] == "float":
        if got[0] != "ok" or not isinstance(got[1], (int, float)) or abs(got[1] - float(exp[1])) > 1e-9 * float(exp[1]):
            return f"float_result={got} but the exact quotient is {exp[1]}"
        return None
    if exp[0] == "reject":
        return None if got[0] == "reject" else f"returned {got[1]} although the clock period does not divide the duration"
    if got[0] != "ok":
        return f"rejected ({got[1]}) although the exact number of periods is {exp[1]}"
    if got[1] != exp[1] or isinstance(got[1], bool) or not isinstance(got[1], int):
        return f"returned {got[1]!r}, exact number of periods is {exp[1]}"
    return None


def sweep_one(u, m, clk, mode):
    from ..ref.c16_models import duration_ticks_exact

    r = duration_ticks_exact((u, m), G.CLOCKS[clk])
    exp = grid_expect(r, mode)
    return grid_compare(grid_eval(u, m, clk, mode), exp), exp, r


def duration_sweep(run: Run):
    grid = G.duration_grid()
    for u, m, clk, r in grid:
        for mode in SWEEP_MODES:
            msg, exp, _ = sweep_one(u, m, clk, mode)
            if exp is None:
                run.count("duration_grid_unconstrained")
                continue
            run.count("duration_grid_checked")
            run.count("duration_grid_" + ("reject" if exp[0] == "reject" else "value"))
            if msg is not None:
                run.violation(f"count_periods/{mode}/{u}({m})/{clk}",
                              f"std.{u}({m}).count_periods(<{clk}>.period()) [{mode}]: {msg}",
                              {"generator": "c16_duration_grid", "sweep": [u, m, clk, mode]})
    if run.counters.get("duration_grid_value", 0) < 500 or run.counters.get("duration_grid_reject", 0) < 100:
        run.tool_error("vacuous: Duration grid sweep exercised too few integer / non-dividing combinations")


def work(cfgs):
    out = []
    for cfg in cfgs:
        r = check_config(cfg)
        r["cfg"] = cfg
        out.append(r)
    return out


def main(run: Run):
    cfgs = G.all_configs(run.thorough)
    only = getattr(run, "only", None)
    if only:  # debug aid (--only wait,toggle): restrict to some families; the vacuity guards then only see those
        cfgs = [c for c in cfgs if c["family"] in only]
    run.count("configurations", len(cfgs))
    if not only or "grid" in only:
        duration_sweep(run)
    fam_total = {}
    for c in cfgs:
        fam_total[c["family"]] = fam_total.get(c["family"], 0) + 1
    cfgs.sort(key=lambda c: -c["key"].count("rt"))  # stable: the large run-time spaces are started first
    tasks = list(chunked(cfgs, 4))
    fam_ok = {}
    sampled = set()
    for kind, res in pmap(work, tasks, seed=run.seed):
        if kind != "ok":
            run.tool_error(f"worker failed: {res[-800:]}")
            continue
        for r in res:
            st = r["status"]
            fam = r["family"]
            run.count("configs_" + st)
            run.count(f"{fam}_{st}")
            if st in ("ok", "violation") and "states" in r:
                run.count("states", r.get("states", 0))
                run.count("transitions", r.get("transitions", 0))
                run.count("traces_validated_against_impl", r.get("states", 0))
                run.cmax("max_depth", r.get("depth", 0))
                run.cmax("max_states_one_config", r.get("states", 0))
                if r.get("observations", 0) > 1:
                    run.count("configs_with_distinct_outcomes")
                if st == "ok":
                    fam_ok[fam] = fam_ok.get(fam, 0) + 1
                    if not r.get("exhausted", True):
                        run.capped = True
                        run.note(f"state cap hit: {r['key']}")
                    if fam not in sampled:
                        sampled.add(fam)
                        run.sample({"config": r["key"], "states": r["states"], "transitions": r["transitions"],
                                    "choices_per_clock": r["choices"]})
            if r.get("assertion"):
                a = r["assertion"]
                msg = replay_config(r["cfg"], a["trace"], asserts=True)
                if msg is None or not msg.startswith(ASSERT_MSG):
                    run.tool_error(f"replay did not reproduce the assertion for {r['key']}")
                else:
                    run.count("configs_spurious_assertion")
                    run.violation(r["key"] + "/assert", f"{r['key']}: {a['what'][:300]} trace={a['trace']}",
                                  {"generator": "c16_configs", "config": r["cfg"], "cohdl_source": r.get("src"),
                                   "input_names": G.build(r["cfg"])[1].input_names, "events": a["trace"],
                                   "asserts": True})
            if st in ("violation", "static"):
                trace = r.get("trace")
                msg = replay_config(r["cfg"], trace, asserts=False)
                if msg is None:
                    run.tool_error(f"replay did not reproduce for {r['key']}: {r['what'][:200]}")
                    continue
                key = r["key"] + (("/" + r["sub"]) if r.get("sub") else "")
                run.violation(key, f"{r['key']}: {r['what'][:400]} trace={trace}",
                              {"generator": "c16_configs", "config": r["cfg"], "cohdl_source": r.get("src"),
                               "input_names": None if trace is None else G.build(r["cfg"])[1].input_names,
                               "events": trace, "asserts": False})
    # vacuity guards: every family must have been exercised, most configurations accepted, and almost every
    # explored configuration must have shown more than one output vector
    explored = run.counters.get("configs_ok", 0) + run.counters.get("configs_violation", 0)
    timing_violation = bool(run.violations)  # unknown violations only: known findings must not switch the guards off
    if not timing_violation:
        # (with a violation the exploration of that configuration stops early: the guards would mask the verdict)
        if explored * 2 < len(cfgs):
            run.tool_error(f"vacuous: only {explored} of {len(cfgs)} configurations explored")
        for fam, n in fam_total.items():
            if fam_ok.get(fam, 0) * 3 < n:
                run.tool_error(f"vacuous: family {fam}: only {fam_ok.get(fam, 0)} of {n} configurations explored")
        if run.counters.get("configs_rejected_ok", 0) < 4 and not only:
            run.tool_error("vacuous: fewer than 4 non-dividing Duration configurations were rejected")
        if run.counters.get("configs_with_distinct_outcomes", 0) * 10 < explored * 8:
            run.tool_error("vacuous: too few configurations showed more than one output vector")
    run.assume("vsim (own VHDL-2008 subset simulator) implements IEEE 1076/numeric_std semantics; validated against the upstream testbenches")
    run.assume("reference counters transcribed from utility.pyi/_context.pyi docstrings and the upstream mocks "
               "(test_wait_for, test_delay, ToggleMock, MockClkDivider, MockDebounce); await convention as in C01")
    run.assume("open phases not constrained: ToggleSignal power-on without reset (counter -1 or 0), ClockDivider after a "
               "run-time duration change until the next disable, continuous_counter above a lowered run-time limit, "
               "values of delay elements without `initial`")
    run.coverage_extra.update(
        exhaustive=not run.capped,
        rule="every configuration of the tier's bounded families; per configuration the full reachable product state "
             "space (design x reference candidates) under all admissible input valuations per clock",
        evaluations=run.counters.get("transitions", 0),
        distinct_nontrivial=run.counters.get("configs_with_distinct_outcomes", 0),
    )


def replay(run: Run, data):
    if data.get("sweep"):
        msg = sweep_one(*data["sweep"])[0]
        if msg is not None:
            print("reproduced:", msg)
            return False
        return True
    msg = replay_config(data["config"], data.get("events"), asserts=bool(data.get("asserts", True)))
    if msg is not None:
        print("reproduced:", msg)
        return False
    return True

"""Product system for synchronous sequential bodies (C03, C04)."""
from __future__ import annotations

import itertools

from ..cohdl_util import compile_source
from ..gen import seqbody
from ..mc.explorer import bfs
from ..vhdl.elab import compile_design, from_raw
from ..vhdl import rt
from ..vhdl.parser import Unsupported, VhdlSyntaxError

INPUTS = [(a, b, c) for a in range(4) for b in range(2) for c in range(2)]


class SeqSystem:
    def __init__(self, sim, ref, reset=None):
        self.sim = sim
        self.ref = ref
        p = sim.ports
        self.sid = {n: p[n][0] for n in p}
        self.ty = {n: p[n][1] for n in p}
        self.reset = reset
        N = sim.N
        N[self.sid["clk"]] = 0
        N[self.sid["a"]] = (0, 0)
        N[self.sid["b"]] = (0, 0)
        N[self.sid["c"]] = 0
        if reset is not None:
            self.rst_on = 0 if reset["active_low"] else 1
            N[self.sid["rst"]] = 1 - self.rst_on
        sim.settle()
        del sim.PR[:]
        self.menu = list(INPUTS)

    def snapshot(self):
        return (self.sim.snapshot(), self.ref.snapshot())

    def restore(self, s):
        self.sim.restore(s[0])
        self.ref.restore(s[1])

    def choices(self):
        return self.menu

    def observe(self):
        S = self.sim.S
        return tuple(S[self.sid[n]] for n in ("o", "p", "pn", "oa", "oc", "os", "om0", "om1"))

    def cmp(self, exp, when):
        S = self.sim.S
        for n, e in exp.items():
            got = from_raw(self.ty[n], S[self.sid[n]])
            if got != e:
                return f"{when}: output {n}: design={got} reference={e}"
        return None

    def apply(self, ch):
        sim = self.sim
        N = sim.N
        N[self.sid["a"]] = (ch[0], 0)
        N[self.sid["b"]] = (ch[1], 0)
        N[self.sid["c"]] = ch[2]
        sim.settle()
        m = self.cmp(self.ref.comb(ch), "after input change (continuous outputs)")
        if m:
            return m
        N[self.sid["clk"]] = 1
        sim.settle()
        N[self.sid["clk"]] = 0
        sim.settle()
        exp = self.ref.step(ch)
        exp.update(self.ref.comb(ch))
        if sim.PR:
            return f"intermediate variable read before written: {sim.poisoned_reads()}"
        return self.cmp(exp, "after clock")


def check_program(prog, reset=None, max_states=200000, system_cls=SeqSystem):
    src = seqbody.render(prog, reset)
    res, _ = compile_source(src)
    if not res.ok:
        return {"status": "rejected", "error": res.error}
    out = {"status": "ok"}
    try:
        d = compile_design(res.vhdl, poison=True, poison_exclude=("v",))
    except VhdlSyntaxError as e:
        return {"status": "violation", "what": f"emitted VHDL does not parse: {e}", "trace": None, "src": src, "states": 0, "transitions": 0}
    if d.findings:
        out["findings"] = [repr(f) for f in d.findings]
    try:
        system = system_cls(d.sim(), seqbody.Ref(prog), reset)
        r = bfs(system, max_states=max_states)
    except rt.SimError as e:
        return {"status": "violation", "what": f"simulation error: {e}", "trace": None, "src": src, "states": 0, "transitions": 0}
    out.update(states=r.states, transitions=r.transitions, depth=r.depth, exhausted=r.exhausted, observations=len(r.observations))
    if r.violation is not None:
        out.update(status="violation", what=r.violation, trace=r.trace, src=src)
    return out


def replay_program(prog, trace, reset=None, system_cls=SeqSystem):
    src = seqbody.render(prog, reset)
    res, _ = compile_source(src)
    if not res.ok:
        return None
    d = compile_design(res.vhdl, poison=True, poison_exclude=("v",))
    system = system_cls(d.sim(), seqbody.Ref(prog), reset)
    for ch in trace:
        msg = system.apply(tuple(ch) if isinstance(ch, list) else ch)
        if msg is not None:
            return msg
    return None

"""C15  SyncFlag and Mailbox hand over every event exactly once.

For every configuration (flag / mailbox, plain-process or coroutine idiom - incl. conditional waits between observing
and consuming / between is_clear and set, and `async with flag:` helper coroutines with no / unconditional / conditional
/ nested return -, tx/rx delay, one or two contexts on one clock) a wrapper entity (verif/gen/c15_wrappers.py) is compiled by the real compiler, the emitted VHDL is simulated
by vsim, and the product (design) x (hand-over monitor, verif/ref/c15_models.py) x (environment: each clock the
producer wants to send or not - with every payload - and the consumer is willing or not) is explored to
exhaustion.  Safety rules R1-R5 of the monitor are checked on every transition; liveness (every outstanding event is
delivered when the consumer is willing; a full send/receive cycle is always possible again; with an idle
environment the observations of both contexts become exact) is decided exactly on the reachable set.
"""
from __future__ import annotations

from ..cohdl_util import compile_source
from ..core import Run, pmap
from ..gen import c15_wrappers as W
from ..gen.c14_explore import explore, eventually, recurrent_states
from ..ref.c15_models import HandoverMonitor
from ..vhdl import rt
from ..vhdl.elab import compile_design, from_raw
from ..vhdl.parser import Unsupported, VhdlSyntaxError

LEVEL = "model_checking"
MAX_STATES = 1_000_000


class HandoverSystem:
    """choice = (send_req, data, recv_rdy, *extra inputs of the idiom kinds)"""

    def __init__(self, sim, cfg):
        self.sim = sim
        self.cfg = cfg
        self.mb = W.is_mailbox(cfg)
        self.coro = W.is_coro(cfg)
        self.mon = HandoverMonitor()
        p = sim.ports
        self.sid = {n: p[n][0] for n in p}
        self.ty = {n: p[n][1] for n in p}
        vals = range(1 << W.DATA_W) if self.mb else (0,)
        self.extra = W.extra_inputs(cfg)
        self.idiom = W.is_idiom(cfg)
        rdys = (0, 1) if W.uses_rdy(cfg) else (0,)
        ext = [()]
        for _ in self.extra:
            ext = [e + (b,) for e in ext for b in (0, 1)]
        self.menu = [(s_, v, r) + e for s_, vs in ((0, (0,)), (1, vals)) for v in vs for r in rdys for e in ext]
        N = sim.N
        for n in ("clk", "send_req", "recv_rdy") + self.extra:
            N[self.sid[n]] = 0
        if self.mb:
            N[self.sid["data"]] = (0, 0)
        sim.settle()
        self.outs = [n for n in sorted(p) if p[n][2] != "in"]

    def get(self, name):
        return from_raw(self.ty[name], self.sim.S[self.sid[name]])

    def snapshot(self):
        return (self.sim.snapshot(), self.mon.pending)

    def restore(self, s):
        self.sim.restore(s[0])
        self.mon.pending = s[1]

    def choices(self):
        return self.menu

    def observe(self):
        S = self.sim.S
        return tuple(S[self.sid[n]] for n in self.outs)

    def apply(self, ch):
        send, data, rdy = ch[:3]
        sim = self.sim
        N = sim.N
        N[self.sid["send_req"]] = send
        N[self.sid["recv_rdy"]] = rdy
        for n, v in zip(self.extra, ch[3:]):
            N[self.sid[n]] = v
        if self.mb:
            N[self.sid["data"]] = (data, 0)
        sim.settle()
        N[self.sid["clk"]] = 1
        sim.settle()
        N[self.sid["clk"]] = 0
        sim.settle()
        # requests return to idle after the edge (only sampled by the clocked processes; all observations are registered)
        N[self.sid["send_req"]] = 0
        N[self.sid["recv_rdy"]] = 0
        for n in self.extra:
            N[self.sid[n]] = 0
        if self.mb:
            N[self.sid["data"]] = (0, 0)
        sim.settle()
        if sim.A:
            a = sim.A[0]
            del sim.A[:]
            return f"emitted VHDL assertion fired: {a!r}"
        if sim.PR:
            return f"intermediate variable read before written: {sim.poisoned_reads()}"
        g = self.get
        if self.idiom:
            got, dropped = g("got"), g("dropped")
            if None in (g("sent"), got, dropped):
                return f"undefined event outputs sent={g('sent')} got={got} dropped={dropped}"
            if got and dropped:
                return "one event reported as taken and as discarded"
            return self.mon.events(g("sent"), g("sent_data") if self.mb else None, 0, got or dropped,
                                   g("got_data") if self.mb and got else None)
        if self.coro:
            ev = (g("sent"), g("sent_data") if self.mb else None, g("saw_clear"), g("got"), g("got_data") if self.mb else None)
            if None in ev[0:1] + ev[2:4]:
                return f"undefined event outputs {ev}"
            return self.mon.events(*ev)
        obs = (g("p_clear"), g("p_set"), g("issued"), g("sent_data") if self.mb else None,
               g("c_set"), g("c_clear"), g("consumed"), g("got_data") if self.mb else None)
        if None in obs[0:3] + obs[4:7]:
            return f"undefined observation (p_clear,p_set,issued,-,c_set,c_clear,consumed,-)={obs}: is_set()/is_clear() read an undriven signal"
        return self.mon.step(*obs)

    # goals / strategies for liveness
    def nothing_pending(self):
        return self.mon.pending is None

    def cycle_goals(self):
        return [self.delivered_now]

    def idle_choice(self):
        return (0, 0, 0)

    def idle_exact(self):
        """after one more idle clock from a state that recurs under idle: observations exact; (kind, text) or None"""
        pend = self.mon.pending is not None
        pc, cs = self.get("p_clear"), self.get("c_set")
        if pc != int(not pend):
            return ("idle-producer", f"environment idle for good, event outstanding={pend}: producer observes is_clear()={pc} forever")
        if cs != int(pend):
            return ("idle-consumer", f"environment idle for good, event outstanding={pend}: consumer observes is_set()={cs} forever")
        return None

    def delivered_now(self):
        if self.idiom:
            return self.get("got") == 1 or self.get("dropped") == 1
        return self.get("got" if self.coro else "consumed") == 1

    def strategies(self, send):
        """deterministic environments under which the hand-over has to make progress: the consumer is willing, a
        conditional wait is released (go=1); whether a wait / discard is requested is tried both ways"""
        base = (send, 1 if send else 0, 1)
        if not self.extra:
            return [base]
        if self.extra == ("hold", "go"):
            return [base + (0, 1), base + (1, 1)]
        if self.cfg[0] in W.LOOP_IDIOMS:
            # discard2 is the loop condition: a loop that is kept busy for ever without abort is allowed to wait
            if self.cfg[0] == "with_a1":      # loop without abort: it has to be released
                return [base + e for e in ((0, 0), (1, 0))]
            return [base + e for e in ((0, 0), (1, 0), (1, 1))]
        out = [()]
        for _ in self.extra:
            out = [e + (b,) for e in out for b in (0, 1)]
        return [base + e for e in out]


class PairSystem:
    """two hand-over objects sharing the producer context and the consumer context; each with its own requests and its
    own monitor.  choice = (send0, data0, rdy0, send1, data1, rdy1)"""

    coro = False

    def __init__(self, sim, cfg):
        self.sim = sim
        self.cfg = cfg
        self.members = W.pair_members(cfg)
        self.mons = [HandoverMonitor(), HandoverMonitor()]
        p = sim.ports
        self.sid = {n: p[n][0] for n in p}
        self.ty = {n: p[n][1] for n in p}
        per = []
        for what, _, _ in self.members:
            vals = (0, 1) if what == "mailbox" else (0,)
            per.append([(0, 0, r) for r in (0, 1)] + [(1, v, r) for v in vals for r in (0, 1)])
        self.menu = [a + b for a in per[0] for b in per[1]]
        self.inputs = [n for n in p if p[n][2] == "in" and n != "clk"]
        for n in self.inputs + ["clk"]:
            sim.N[self.sid[n]] = 0
        sim.settle()
        self.outs = [n for n in sorted(p) if p[n][2] != "in"]

    def get(self, name):
        return from_raw(self.ty[name], self.sim.S[self.sid[name]])

    def snapshot(self):
        return (self.sim.snapshot(), self.mons[0].pending, self.mons[1].pending)

    def restore(self, s):
        self.sim.restore(s[0])
        self.mons[0].pending, self.mons[1].pending = s[1], s[2]

    def choices(self):
        return self.menu

    def observe(self):
        S = self.sim.S
        return tuple(S[self.sid[n]] for n in self.outs)

    def apply(self, ch):
        sim = self.sim
        N = sim.N
        for i, (what, _, _) in enumerate(self.members):
            send, data, rdy = ch[3 * i:3 * i + 3]
            N[self.sid[f"send_req{i}"]] = send
            N[self.sid[f"recv_rdy{i}"]] = rdy
            if what == "mailbox":
                N[self.sid[f"data{i}"]] = data
        sim.settle()
        N[self.sid["clk"]] = 1
        sim.settle()
        N[self.sid["clk"]] = 0
        sim.settle()
        for n in self.inputs:
            N[self.sid[n]] = 0
        sim.settle()
        if sim.A:
            a = sim.A[0]
            del sim.A[:]
            return f"emitted VHDL assertion fired: {a!r}"
        g = self.get
        for i, (what, _, _) in enumerate(self.members):
            mb = what == "mailbox"
            obs = (g(f"p_clear{i}"), g(f"p_set{i}"), g(f"issued{i}"), g(f"sent_data{i}") if mb else None,
                   g(f"c_set{i}"), g(f"c_clear{i}"), g(f"consumed{i}"), g(f"got_data{i}") if mb else None)
            if None in obs[0:3] + obs[4:7]:
                return f"object {i} ({what}): undefined observation {obs}: is_set()/is_clear() read an undriven signal"
            msg = self.mons[i].step(*obs)
            if msg is not None:
                return f"object {i} ({what}, second object of its class shares both contexts with object {1 - i}): {msg}"
        return None

    @property
    def mon(self):  # statistics only
        m = HandoverMonitor()
        m.issued_n = self.mons[0].issued_n + self.mons[1].issued_n
        m.delivered_n = self.mons[0].delivered_n + self.mons[1].delivered_n
        m.ineffective_n = 1  # not applicable (gated producers)
        return m

    def nothing_pending(self):
        return self.mons[0].pending is None and self.mons[1].pending is None

    def cycle_goals(self):
        return [lambda: self.get("consumed0") == 1, lambda: self.get("consumed1") == 1]

    def strategies(self, send):
        return [(send, 1 if send else 0, 1) * 2]

    def idle_choice(self):
        return (0, 0, 0) * 2

    def idle_exact(self):
        for i in (0, 1):
            pend = self.mons[i].pending is not None
            pc, cs = self.get(f"p_clear{i}"), self.get(f"c_set{i}")
            if pc != int(not pend):
                return ("idle-producer", f"object {i}: environment idle for good, event outstanding={pend}: producer observes is_clear()={pc} forever")
            if cs != int(pend):
                return ("idle-consumer", f"object {i}: environment idle for good, event outstanding={pend}: consumer observes is_set()={cs} forever")
        return None


def build(cfg):
    res, _ = compile_source(W.render(cfg))
    if not res.ok:
        return "rejected", res.error
    try:
        d = compile_design(res.vhdl, poison=True)
    except VhdlSyntaxError as e:
        return "static", f"emitted VHDL does not parse: {e}"
    if d.multi_driven:
        return "static", f"multiply driven signals in the emitted design: {d.multi_driven}"
    return "ok", (PairSystem if W.is_pair(cfg) else HandoverSystem)(d.sim(), cfg)


SEND_ALL = (1, 1, 1)   # producer wants to send (payload 1), consumer willing
RECV_ONLY = (0, 0, 1)
IDLE = (0, 0, 0)


def liveness(system, space, out):
    states = list(space.states)
    # L1: consumer willing, producer silent -> nothing stays outstanding
    for strat in system.strategies(0):
        bad, steps = eventually(system, states, lambda s: strat, lambda s: s.nothing_pending())
        out["liveness_steps"] += steps
        if bad is not None:
            s, msg = bad
            return ("deliver", space.trace_to(s) + ["strategy", strat], msg or
                    f"an event is outstanding and the consumer is willing every clock (environment {strat} for good), "
                    "but the event is never delivered (lost / deadlock)")
    # L2: both active for good -> a delivery happens again and again (no deadlock of the whole cycle)
    for strat in system.strategies(1):
        for goal in system.cycle_goals():
            bad, steps = eventually(system, states, lambda s: strat, lambda s: goal())
            out["liveness_steps"] += steps
            if bad is not None:
                s, msg = bad
                return ("cycle", space.trace_to(s) + ["strategy", strat], msg or
                        f"producer wants to send and consumer is willing every clock (environment {strat} for good), "
                        "but no further event is ever delivered (deadlock)")
    # L3: idle for good -> observations exact (plain-process wrappers only: they expose the observations)
    if not system.coro:
        IDLE = system.idle_choice()
        rec, steps, viol = recurrent_states(system, states, lambda s: IDLE)
        out["liveness_steps"] += steps
        if viol is not None:
            return ("idle", space.trace_to(viol[0]), viol[1])
        out["idle_recurrent_states"] += len(rec)
        for s in rec:
            system.restore(s)
            msg = system.apply(IDLE)
            out["liveness_steps"] += 1
            if msg is not None:
                return ("idle", space.trace_to(s) + [IDLE], msg)
            v = system.idle_exact()
            if v is not None:
                return (v[0], space.trace_to(s), v[1])
    return None


def run_config(cfg):
    out = {"cfg": cfg, "status": "ok", "liveness_steps": 0, "idle_recurrent_states": 0}
    try:
        st, payload = build(cfg)
    except Unsupported as e:
        return {"cfg": cfg, "status": "unsupported", "what": str(e)}
    if st != "ok":
        out.update(status=st, what=payload)
        return out
    system = payload
    try:
        space = explore(system, max_states=MAX_STATES)
        r = space.result
        mon = system.mon
        out.update(states=r.states, transitions=r.transitions, depth=r.depth, exhausted=r.exhausted,
                   observations=len(r.observations), issued=mon.issued_n, delivered=mon.delivered_n,
                   ineffective=mon.ineffective_n)
        if r.violation is not None:
            out.update(status="violation", kind="safety", what=r.violation, trace=r.trace)
            return out
        if not r.exhausted:
            return out
        deepest = next(reversed(space.parent))  # BFS order: the last state found is one of the deepest
        out["sample_trace"] = space.trace_to(deepest)
        v = liveness(system, space, out)
        if v is not None:
            out.update(status="violation", kind=v[0], trace=v[1], what=v[2])
    except rt.SimError as e:
        out.update(status="violation", kind="simerror", what=f"simulation run-time error: {e}", trace=None)
    return out


def replay_config(cfg, kind, trace):
    """plain loop over the stored choices on a fresh simulator; liveness kinds then follow the strategy until the
    state repeats.  Returns the violation text or None."""
    st, payload = build(cfg)
    if st != "ok":
        return payload if st == "static" else None
    system = payload
    if trace is None:
        r = run_config(cfg)
        return r.get("what") if r["status"] == "violation" else None
    strat = None
    if "strategy" in trace:
        i = trace.index("strategy")
        strat = tuple(trace[i + 1])
        trace = trace[:i]
    for ch in trace:
        msg = system.apply(tuple(ch))
        if msg is not None:
            return msg
    if kind in ("safety", "idle"):
        return None
    if kind in ("deliver", "cycle"):
        ch = strat if strat is not None else (RECV_ONLY if kind == "deliver" else SEND_ALL)
        goals = [system.nothing_pending] if kind == "deliver" else system.cycle_goals()
        start = system.snapshot()
        for goal in goals:
            system.restore(start)
            seen = set()
            s = start
            reached = False
            while s not in seen:
                if goal():
                    reached = True
                    break
                seen.add(s)
                msg = system.apply(ch)
                if msg is not None:
                    return msg
                s = system.snapshot()
            if not reached:
                return f"{kind}: the system cycles through {len(seen)} state(s) without reaching the goal"
        return None
    if kind in ("idle-producer", "idle-consumer"):
        start = system.snapshot()
        s = None
        for _ in range(10_000):
            msg = system.apply(system.idle_choice())
            if msg is not None:
                return msg
            s = system.snapshot()
            if s == start:
                break
        if s != start:
            return None
        v = system.idle_exact()
        return v[1] if v is not None else None
    return None


def main(run: Run):
    cfgs = W.configs(run.thorough)
    run.count("configurations", len(cfgs))
    explored = 0
    for kind, r in pmap(run_config, cfgs, seed=run.seed):
        if kind != "ok":
            run.tool_error(f"worker failed: {r[-800:]}")
            continue
        cfg = tuple(r["cfg"])
        st = r["status"]
        run.count("configs_" + st)
        same_ctx_delayed = cfg[3] != 2 and (cfg[1] or cfg[2])
        if st == "unsupported":
            run.tool_error(f"vsim does not support a construct emitted for {W.key(cfg)}: {r['what']}")
            continue
        if st == "rejected":
            run.count("rejected_single_context_delayed" if same_ctx_delayed else "rejected_other")
            if not same_ctx_delayed:
                run.note(f"rejected: {W.key(cfg)}: {r['what'][:200]}")
            continue
        if st == "static":
            run.violation(W.key(cfg) + "/static", f"{W.key(cfg)}: {r['what'][:300]}",
                          {"cfg": cfg, "kind": "static", "events": None, "cohdl_source": W.render(cfg)})
            continue
        explored += 1
        run.count("states", r.get("states", 0))
        run.count("transitions", r.get("transitions", 0))
        run.count("traces_validated_against_impl", r.get("states", 0))
        run.count("liveness_transitions", r.get("liveness_steps", 0))
        run.count("idle_recurrent_states_checked", r.get("idle_recurrent_states", 0))
        run.cmax("max_depth", r.get("depth", 0))
        run.cmax("max_states_one_config", r.get("states", 0))
        run.count("events_issued", r.get("issued", 0))
        run.count("events_delivered", r.get("delivered", 0))
        run.count("sets_while_set", r.get("ineffective", 0))
        if r.get("observations", 0) > 1:
            run.count("configs_with_distinct_outcomes")
        if st == "ok" and not r.get("exhausted", False):
            run.capped = True
            run.note(f"state cap hit: {W.key(cfg)}")
        if st == "ok":
            run.sample({"config": W.key(cfg), "states": r["states"], "transitions": r["transitions"], "depth": r["depth"], "choice_sequence_to_a_deepest_state": r.get("sample_trace"),
                        "events_issued": r["issued"], "events_delivered": r["delivered"]},
                       force=cfg in (("mailbox", 2, 2, 2), ("flag_force", 1, 2, 2)))
        if st == "violation":
            trace, vkind = r.get("trace"), r.get("kind")
            if vkind != "simerror":
                msg = replay_config(cfg, vkind, trace)
                if msg is None:
                    run.tool_error(f"replay did not reproduce for {W.key(cfg)} ({vkind}): {r['what'][:200]}")
                    continue
            run.violation(f"{W.key(cfg)}/{vkind}", f"{W.key(cfg)}: {r['what'][:400]} trace={trace}",
                          {"cfg": cfg, "kind": vkind, "events": trace, "cohdl_source": W.render(cfg),
                           "generator": "c15_wrappers"})
    if run.counters.get("rejected_other", 0):
        run.tool_error(f"{run.counters['rejected_other']} configuration(s) that cohdl is expected to accept were rejected "
                       f"(see notes in the evidence; e.g. /repo modified while the check was running?)")
    if explored < 20 or explored * 2 < len(cfgs) - run.counters.get("rejected_single_context_delayed", 0):
        run.tool_error(f"vacuous: only {explored} of {len(cfgs)} configurations were explored")
    if not run.violations and not run.known_hits:
        if run.counters.get("events_delivered", 0) < 100 or run.counters.get("sets_while_set", 0) == 0:
            run.tool_error("vacuous: (almost) no event delivered / no set-while-set exercised")
    run.assume("vsim (own VHDL-2008 subset simulator) implements IEEE 1076/numeric_std semantics")
    run.assume("producer and consumer contexts share one clock (the emitted design has a single clock input); "
               "tx/rx delays {0..2}^2 plus (3,0),(0,3),(3,3),(4,4),(3,1),(1,3) (quick) / {0..4}^2 (thorough)")
    run.assume("reference = hand-over monitor with one outstanding event (rules R1-R5 of verif/ref/c15_models.py, "
               "each a clause of the property statement); latency in clocks is left open")
    run.coverage_extra.update(
        exhaustive=not run.capped,
        rule="for every configuration the complete reachable product state space (design x monitor) under all "
             "per-clock choices (send or not x every payload x consumer willing or not x every value of the idiom inputs "
             "hold/go resp. discard/discard2); liveness decided exactly on the reachable set under the receive-only / "
             "always-send-and-receive (each with the idiom inputs tried both ways, waits released) / idle environments; distinct_nontrivial = "
             "configurations whose exploration showed more than one distinct observable output vector",
        evaluations=run.counters.get("transitions", 0),
        distinct_nontrivial=run.counters.get("configs_with_distinct_outcomes", 0),
    )


def replay(run: Run, data):
    cfg = tuple(data["cfg"])
    kind = data.get("kind")
    if kind == "static":
        st, payload = build(cfg)
        if st == "static":
            print("reproduced:", payload)
            return False
        return True
    ev = data.get("events")
    trace = [e if isinstance(e, str) else tuple(e) for e in ev] if ev is not None else None
    try:
        msg = replay_config(cfg, kind, trace)
    except rt.SimError as e:
        msg = f"simulation run-time error: {e}"
    if msg is not None:
        print("reproduced:", msg)
        return False
    return True

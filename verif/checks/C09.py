"""C09  Compile-time evaluation of primitives agrees with emitted run-time logic.

For every operator / conversion / method of C02's depth-1 alphabet (both operand orders, Python ints on either
side) and EVERY operand valuation inside the alphabet the operation is evaluated three ways:
  (1) py   directly on the Python objects             eval("Unsigned[3](5) * 3")
  (2) cc   inside a synthesizable context on constants the folded result is observed with a cohdl.pyeval probe
                                                       (type, value) AND read back by simulating the emitted design
  (3) rt   operands supplied through input ports       the emitted logic is simulated (C02's harness)
Oracle: all ways that produced a result agree in type, width and value.  A way that rejects (exception /
compiler rejection) makes no claim.  A run-time error of (3) where (1)/(2) produce a value is a disagreement.
"""
from __future__ import annotations

import collections

from ..cohdl_util import compile_source, unload_module
from ..core import Run, pmap, chunked
from ..gen import expr_gen as G
from ..ref import values as V
from ..vhdl import rt
from ..vhdl.elab import compile_design
from ..vhdl.parser import Unsupported, VhdlSyntaxError
from . import C02

LEVEL = "exploration"
TREES_PER_TASK = 20
CONST_BATCH = 150

FAMILIES = ("arith", "cmp", "arith_lit", "cmp_lit", "integer", "eq", "bitwise", "cat", "shift", "unary", "index", "view")

_ns = None


def py_namespace():
    global _ns
    if _ns is None:
        _ns = {"__name__": "c09_py_eval"}
        exec(G.HEADER, _ns)
    return _ns


def const_leaf(env):
    def leaf(slot, t):
        return G.const_text(t, env[slot])

    return leaf


def eligible(tree):
    """operands that can be written as compile-time constants"""
    return all(t[0] not in ("arr", "enum") for t in V.leaves(tree).values())


# ---------------------------------------------------------------------------------------------
# (1) python objects
# ---------------------------------------------------------------------------------------------
def eval_py(text):
    ns = py_namespace()
    try:
        r = eval(text, ns)
    except BaseException as e:  # AssertionError & co: the Python object rejects
        if isinstance(e, (KeyboardInterrupt, SystemExit, MemoryError)):
            raise
        return ("reject", f"{type(e).__name__}: {str(e)[:120]}")
    d = ns["_describe"](r)
    if d[0].startswith("?"):
        return ("reject", f"result of unknown kind {d[0]}")
    return ("ok", d[0], d[1])


# ---------------------------------------------------------------------------------------------
# (2) constants in a synthesizable context
# ---------------------------------------------------------------------------------------------
PORT_OF = {"bit": "Bit", "bool": "bool", "int": "Integer"}


def port_decl(tn):
    if tn in PORT_OF:
        return PORT_OF[tn]
    for pre, name in (("bv", "BitVector"), ("u", "Unsigned"), ("s", "Signed")):
        if tn.startswith(pre) and tn[len(pre):].isdigit():
            return f"{name}[{tn[len(pre):]}]"
    return None


def const_source(entries):
    """entries: list of (key, text, port_type_name)"""
    ports = []
    body = []
    for n, (key, text, tn) in enumerate(entries):
        ports.append(f"    k{n} = Port.output({port_decl(tn)})")
        body.append(f"            self.k{n} <<= _T({n}, {text})")
        body.append(f"            _D({n})")
    src = [G.HEADER, "", "_DONE = set()", "", "@cohdl.pyeval", "def _D(n):", "    _DONE.add(n)", "", "",
           "class T(Entity):"] + ports + ["", "    def architecture(self):", "        @std.concurrent",
                                         "        def conc():"] + body
    return "\n".join(src) + "\n"


def eval_const(entries, out, counters):
    """entries: list of (key, text, port_type_name).  Fills out[key] = ("ok", type, probe_value, sim_value)
    | ("reject", why, probed)"""
    entries = list(entries)
    while entries:
        src = const_source(entries)
        res, mod = compile_source(src, keep_module=True)
        counters["const_compiles"] += 1
        ty = dict(getattr(mod, "_TY", {})) if mod is not None else {}
        done = set(getattr(mod, "_DONE", ())) if mod is not None else set()
        if mod is not None:
            unload_module(mod)
        if res.ok:
            try:
                d = compile_design(res.vhdl)
            except VhdlSyntaxError as e:
                if len(entries) == 1:
                    out[entries[0][0]] = ("static", f"emitted VHDL does not parse: {e}", ty.get(0))
                    return
                for en in entries:
                    eval_const([en], out, counters)
                return
            bad = [f for f in d.findings if C02.finding_is_relevant(f)]
            try:
                sim = d.sim()
            except rt.SimError as e:
                if len(entries) == 1:
                    out[entries[0][0]] = ("simerror", f"run-time error in the design with constant operands: {e}", ty.get(0))
                    return
                for en in entries:
                    eval_const([en], out, counters)
                return
            if bad and len(entries) > 1:
                for en in entries:
                    eval_const([en], out, counters)
                return
            for n, (key, text, tn) in enumerate(entries):
                if bad:
                    out[key] = ("static", f"[{bad[0].rule}] {bad[0].msg}", ty.get(n))
                    continue
                got = sim.get(f"k{n}")
                probe = ty.get(n, ("?", None))
                out[key] = ("ok", probe[0], probe[1], _norm(tn, got))
            return
        # rejected: the first statement that did not complete
        n = 0
        while n in done:
            n += 1
        if n >= len(entries):
            # rejected after all statements were processed (later stage): decide one by one
            if len(entries) == 1:
                out[entries[0][0]] = ("reject", res.error, ty.get(0))
                return
            for en in entries:
                eval_const([en], out, counters)
            return
        key, text, tn = entries[n]
        out[key] = ("reject", res.error, ty.get(n))
        entries = entries[:n] + entries[n + 1:]


def _norm(tn, got):
    if got is None:
        return None
    if tn == "bool":
        return bool(got)
    return int(got)


# ---------------------------------------------------------------------------------------------
# (3) run time
# ---------------------------------------------------------------------------------------------
def eval_rt(items, vals, out, counters):
    """items: [(i, tree)], vals[i] = list of env.  out[i] = ("ok", typename, [values...]) | ("reject", why)
    | ("simerror", msg) | ("static", msg)"""
    if not items:
        return
    status, info = C02.compile_items(items, contexts=("c",))
    counters["rt_compiles"] += 1
    if status != "ok":
        if len(items) > 1:
            for it in items:
                eval_rt([it], vals, out, counters)
            return
        i = items[0][0]
        if status == "rejected":
            out[i] = ("reject", info["error"])
        elif status == "parse":
            out[i] = ("static", info["error"])
        else:
            out[i] = ("tool", info["error"])
        return
    d = info["design"]
    bad = [f for f in d.findings if C02.finding_is_relevant(f)]
    if bad:
        if len(items) > 1:
            for it in items:
                eval_rt([it], vals, out, counters)
            return
        out[items[0][0]] = ("static", f"[{bad[0].rule}] {bad[0].msg}")
        return
    try:
        init = {"clk": 0}
        for i, tree in items:
            init.update(C02.port_values(i, tree, vals[i][0]))
        sim = C02.sim_with_initial_inputs(d, init)
        res = {i: [] for i, _ in items}
        steps = max(len(vals[i]) for i, _ in items)
        for k in range(steps):
            pv = {}
            for i, tree in items:
                vs = vals[i]
                pv.update(C02.port_values(i, tree, vs[k % len(vs)]))
            sim = C02.apply_valuation(d, sim, pv, counters)
            for i, tree in items:
                if k < len(vals[i]):
                    res[i].append(sim.get(f"c{i}"))
    except rt.SimError as e:
        if len(items) > 1:
            for it in items:
                eval_rt([it], vals, out, counters)
            return
        out[items[0][0]] = ("simerror", f"run-time error in the emitted design: {e}")
        return
    for i, tree in items:
        probe = info["types"].get(("c", i), ("?", None))
        out[i] = ("ok", probe[0], res[i])


# ---------------------------------------------------------------------------------------------
def work(task):
    """task: list of (index, family, tree) -> list of per-tree results"""
    counters = collections.Counter()
    items = [(i, tree) for i, _, tree in task]
    vals = {}
    for i, tree in items:
        vs, _outside = V.valuations(tree)
        vals[i] = [env for env, _ in vs]
    live = [(i, tree) for i, tree in items if vals[i]]
    rt_out = {}
    # expressions of an input class with a listed C02 finding are compiled alone (see C02.run_trees)
    clean = [it for it in live if C02.input_class(it[1]) not in C02.ALONE]
    for it in live:
        if C02.input_class(it[1]) in C02.ALONE:
            eval_rt([it], vals, rt_out, counters)
    eval_rt(clean, vals, rt_out, counters)
    # (1) and the constant entries for (2)
    py = {}
    entries_ok = []
    entries_rej = []
    for i, tree in live:
        tn_ref = V.tname(V.typeof(tree))
        for k, env in enumerate(vals[i]):
            text = G.render(tree, const_leaf(env), "hw")
            r = eval_py(G.render(tree, const_leaf(env), "py"))
            py[(i, k)] = r
            if _assign_conv(tree):
                # the conversion happens in the assignment: the port has the documented target type
                (entries_ok if r[0] == "ok" else entries_rej).append(((i, k), text, tn_ref))
            elif r[0] == "ok" and port_decl(r[1]) is not None:
                entries_ok.append(((i, k), text, r[1]))
            else:
                entries_rej.append(((i, k), text, tn_ref))
    cc = {}
    for chunk in chunked(entries_ok, CONST_BATCH):
        eval_const(chunk, cc, counters)
    for chunk in chunked(entries_rej, 12):
        eval_const(chunk, cc, counters)
    # compare
    results = []
    for i, tree in items:
        if not vals[i]:
            results.append({"i": i, "status": "skipped"})
            continue
        r3 = rt_out[i]
        rec = {"i": i, "status": "ok", "triples": 0, "py_reject": 0, "cc_reject": 0, "rt": r3[0], "problems": [],
               "agree3": 0, "agree2": 0, "values": set()}
        if r3[0] == "tool":
            rec["status"] = "tool"
            rec["error"] = r3[1]
            results.append(rec)
            continue
        for k, env in enumerate(vals[i]):
            p = py[(i, k)]
            c = cc.get((i, k), ("reject", "not evaluated", None))
            rec["triples"] += 1
            ways = {}
            if p[0] == "ok":
                ways["py"] = (p[1], p[2])
            else:
                rec["py_reject"] += 1
            conv_tn = V.tname(V.typeof(tree)) if _assign_conv(tree) else None
            if c[0] == "ok" and conv_tn:
                ways["cc"] = (conv_tn, c[3])  # probe sees the source; the converted value is what the port holds
            elif c[0] == "ok":
                ways["cc"] = (c[1], c[3])
                # the probe value and the literal read back from the emitted text
                if c[2] is not None and c[3] != c[2] and not (c[1] == "bool" and bool(c[2]) == c[3]):
                    rec["problems"].append({"kind": "literal", "env": env, "what": f"folded constant is {c[1]}:{c[2]} but the emitted literal reads back as {c[3]}"})
            elif c[0] in ("static", "simerror"):
                rec["problems"].append({"kind": "cc-" + c[0], "env": env, "what": c[1]})
            else:
                rec["cc_reject"] += 1
            if r3[0] == "ok":
                ways["rt"] = (conv_tn or r3[1], _norm(conv_tn or r3[1], r3[2][k]))
            elif r3[0] in ("simerror", "static") and ways:
                rec["problems"].append({"kind": "rt-" + r3[0], "env": env,
                                        "what": f"{r3[1]} -- while " + ", ".join(f"{w}={tv[0]}:{tv[1]}" for w, tv in ways.items())})
            names = sorted(ways)
            if len(names) >= 2:
                rec["agree3" if len(names) == 3 else "agree2"] += 1
                for a in range(len(names)):
                    for b in range(a + 1, len(names)):
                        ta, va = ways[names[a]]
                        tb, vb = ways[names[b]]
                        if ta != tb and "?" not in (ta[0], tb[0]):
                            rec["problems"].append({"kind": f"type:{names[a]}-{names[b]}", "env": env,
                                                    "what": f"type {names[a]}={ta} {names[b]}={tb}"})
                        elif va != vb:
                            rec["problems"].append({"kind": f"value:{names[a]}-{names[b]}", "env": env,
                                                    "what": f"value {names[a]}={ta}:{va} {names[b]}={tb}:{vb}"})
            for tv in ways.values():
                rec["values"].add(tv[1])
        rec["distinct"] = len(rec["values"])
        del rec["values"]
        if rec["problems"]:
            rec["status"] = "violation"
        results.append(rec)
    return {"results": results, "counters": dict(counters)}


def _assign_conv(tree):
    return tree[0] == "conv" and tree[1] == "assign"


def finding_key(tree, problem):
    return f"{C02.input_class(tree)}/{G.describe(tree)}/{problem['kind']}"


def problem_text(tree, p):
    lv = V.leaves(tree)
    env = p.get("env") or {}
    ops = "(" + ", ".join(f"{V.tname(lv[sl])}={env[sl]}" for sl in sorted(env)) + ")"
    return f"{G.describe(tree)} operands={ops}: {p['what']}"


CONST_MIX_FAMILIES = ("arith", "cmp", "eq", "bitwise", "cat", "shift")


def trees_for(run: Run):
    """plus the operations with ONE operand replaced by a typed constant: there the run-time way (3) is the mixed
    form (constant operand next to an input port), compared with the all-constant ways (1) and (2)"""
    ws = (1, 2, 3, 4) if run.thorough else (1, 2, 3)
    conv = [(f, t) for f, t in G.conversions(ws, None if run.thorough else (1, 2))
            if "'variable'" not in repr(t) and "'varassign'" not in repr(t)]  # forms that exist for constants too
    return (list(G.depth1(ws, mixed=True, families=FAMILIES))
            + list(G.depth1_const(ws, mixed=True, families=CONST_MIX_FAMILIES)) + conv
            + list(G._dedup(G.multi_subscripts(quick=not run.thorough)))
            + list(G._dedup(G.iter_chains(quick=not run.thorough,
                                          consumers=("reverse", "catnot", "anycomp")))))


def main(run: Run):
    only = getattr(run, "only", None)  # debug: --only fam1,fam2 (never used for verdicts)
    trees = [(f, t) for f, t in trees_for(run) if eligible(t) and (not only or f in only)]
    if only:
        run.capped = True
        run.note(f"restricted to families {sorted(only)} (debug run)")
    run.count("operations_generated", len(trees))
    indexed = [(i, fam, tree) for i, (fam, tree) in enumerate(trees)]
    by_i = {i: (fam, tree) for i, fam, tree in indexed}
    fam_counts = collections.Counter()
    # order tasks by expected cost (number of valuations) so that the pool stays busy
    tasks = list(chunked(indexed, TREES_PER_TASK))
    for kind, res in pmap(work, tasks, seed=run.seed):
        if kind != "ok":
            run.tool_error(f"worker failed: {res[-800:]}")
            continue
        run.merge_counts(res["counters"])
        for r in res["results"]:
            fam, tree = by_i[r["i"]]
            st = r["status"]
            run.count("operations_" + st)
            fam_counts[(fam, st)] += 1
            if st == "tool":
                run.tool_error(f"{G.describe(tree)}: {r.get('error')}")
                continue
            if st == "skipped":
                continue
            run.count("evaluations", r["triples"])
            run.count("py_rejects_no_claim", r["py_reject"])
            run.count("const_rejects_no_claim", r["cc_reject"])
            run.count("compared_three_ways", r["agree3"])
            run.count("compared_two_ways", r["agree2"])
            run.count("operations_rt_" + r["rt"])
            if r["distinct"] >= 2:
                run.count("operations_with_distinct_results")
            if st == "ok" and r["i"] % 300 == 0:
                run.sample({"operation": G.describe(tree), "valuations": r["triples"], "three_way": r["agree3"]})
            if st == "violation":
                seen = set()
                for p in r["problems"]:
                    key = finding_key(tree, p)
                    if key in seen:
                        continue
                    seen.add(key)
                    run.violation(key, problem_text(tree, p),
                                  {"generator": "expr_gen", "tree": tree, "problem": p})
    fams = sorted({f for f, _ in fam_counts})
    run.coverage_extra["per_family"] = {f: {st: fam_counts[(f, st)] for st in ("ok", "violation", "skipped")
                                            if fam_counts[(f, st)]} for f in fams}
    c3 = run.counters.get("compared_three_ways", 0)
    if (c3 < 1000 and not only) or c3 * 3 < run.counters.get("evaluations", 0):
        run.tool_error(f"vacuous: only {c3} of {run.counters.get('evaluations', 0)} operand valuations were compared three ways")
    run.assume("vsim (own VHDL-2008 subset simulator) implements IEEE 1076 / numeric_std semantics")
    run.assume("operand valuations outside the documented domain (division by zero, index out of range, negative shift) are not compared")
    run.coverage_extra.update(
        exhaustive=not run.capped,
        rule="every depth-1 operation of the primitive-type alphabet x every operand valuation, evaluated on Python "
             "objects, on constants inside a synthesizable context (probe + simulated read-back) and on input ports",
        evaluations=run.counters.get("evaluations", 0),
        distinct_nontrivial=run.counters.get("operations_with_distinct_results", 0),
    )


def replay(run: Run, data):
    tree = C02._totuple(data["tree"])
    res = work([(0, "replay", tree)])["results"][0]
    if res["status"] == "violation":
        want = data.get("problem", {}).get("kind")
        hit = [p for p in res["problems"] if want is None or p["kind"] == want]
        for p in hit[:5]:
            print("reproduced:", problem_text(tree, p))
        return not hit
    print("status:", res["status"])
    return True

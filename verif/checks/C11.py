"""C11  Compilation is a pure function of the design, independent of history.

Explicit-state search over *histories of compilations* on the real process-wide compiler state.

* Alphabet: the 46 designs of verif/gen/c11_designs.py (accepted ones and rejected ones, one per failure stage).
* Golden outcome of a letter = its compilation in a fresh interpreter (PYTHONHASHSEED=0) with an empty history.
* History tree: every history up to a complete length is executed in one interpreter; the tree is explored
  depth-first with os.fork() as the state snapshot (verif/gen/c11_tree.py, a stand-alone script started in fresh
  interpreters; subtrees are distributed over pmap workers).  Mode "reuse": the same class object is compiled
  again; mode "fresh": each compilation imports a new copy of the module file.
    quick   : all histories [p] and [p, v] with p any letter, v in VICTIMS10 or v = p (reuse); all <=3 over the
              6-letter core (reuse); all <=2 over the core (fresh)
    thorough: all histories <=3 over all letters whose 3rd letter is in VICTIMS_THOROUGH or repeats an earlier letter
              (reuse); all <=4 over the 8-letter core (reuse); all <=2 over all letters (fresh)
* Corpus stratum: upstream reference designs X (cocotb stubbed): [X, X] for every 8th design (quick); for all
  designs [X, X], [X, Y] for the 8 designs following X and [rejected letter, X] (thorough).
* Alternation stratum: the linear history (a b)^k (k = 12 quick / 25 thorough) for selected twin letters, with and
  without gc.collect() between the builds, every step compared with golden (key alt/a~b=>victim#kind).
* Oracle: after every history an accepted design yields the golden bytes; a rejected design is rejected
  again with the same exception class (the message may differ: weakest reading).  Deviations are reduced to
  minimal failing histories (key hist/<h1>>h2..=><victim>#<kind>).
* Fresh-interpreter variants: every accepted design, compiled twice, under other PYTHONHASHSEED values and
  perturbed allocation must equal the golden bytes (key fresh/<letter>).

No compiler state is reset by the check (verif.cohdl_util is not used).  The check refuses to give a verdict
(tool error) when the cohdl source tree changes while it is running.
"""
from __future__ import annotations

import itertools
import json
import os
import re
import shutil
import subprocess
import tempfile

from ..core import Run, pmap, chunked
from ..gen import c11_designs as D

LEVEL = "model_checking"

PY = "/venv/bin/python"
DRIVER = os.path.join(os.path.dirname(os.path.dirname(os.path.abspath(__file__))), "gen", "c11_tree.py")
TREE_HASHSEED = "0"
MODES = ("reuse", "fresh")


# ---------------------------------------------------------------------------------------------
# running the driver in a fresh interpreter
# ---------------------------------------------------------------------------------------------
def run_driver(spec: dict, hashseed: str = TREE_HASHSEED, timeout: int = 7200) -> dict:
    d = tempfile.mkdtemp(prefix="c11_task_", dir=spec["moddir"])
    try:
        sp, rp = os.path.join(d, "spec.json"), os.path.join(d, "res.json")
        with open(sp, "w") as f:
            json.dump(spec, f)
        env = {k: v for k, v in os.environ.items() if k not in ("PYTHONPATH_SAVED",)}
        env["PYTHONHASHSEED"] = str(hashseed)
        env["PYTHONDONTWRITEBYTECODE"] = "1"
        p = subprocess.run([PY, "-W", "ignore", DRIVER, sp, rp], env=env, capture_output=True, text=True,
                           timeout=timeout)
        if p.returncode != 0 or not os.path.exists(rp):
            raise RuntimeError(f"driver failed rc={p.returncode}: {p.stderr[-800:]}")
        with open(rp) as f:
            return json.load(f)
    finally:
        shutil.rmtree(d, ignore_errors=True)


def base_spec(moddir, letters, order):
    return {"moddir": moddir, "letters": {n: [letters[n][0], letters[n][1]] for n in order}, "order": list(order)}


def work(task):
    """pmap worker.  task = dict(kind=..., spec=..., hashseed=...)"""
    res = run_driver(task["spec"], task.get("hashseed", TREE_HASHSEED))
    res.pop("hashseed", None)
    return {"task": {k: v for k, v in task.items() if k != "spec"}, "res": res}


# ---------------------------------------------------------------------------------------------
# keys
# ---------------------------------------------------------------------------------------------
_HEX = re.compile(r"0x[0-9a-fA-F]+")


def norm_sig(sig: str) -> str:
    return _HEX.sub("0x?", sig)[:110]


def hist_key(history, victim, kind):
    """canonical identity of a failing input: the (minimal) history, the victim and the kind of deviation
    (altered | prevented | accepted_after | other_exception)"""
    return "hist/" + ">".join(history) + "=>" + victim + "#" + kind


def proper_subsequences(h):
    n = len(h)
    for k in range(n):
        for idx in itertools.combinations(range(n), k):
            yield tuple(h[i] for i in idx)


# ---------------------------------------------------------------------------------------------
def cohdl_fingerprint():
    """(files, total size, newest mtime) of the cohdl tree under test.  cohdl reads function sources with
    inspect.getsource while compiling, so editing the tree during a run makes running interpreters parse
    shifted source lines and every outcome after that moment is garbage."""
    import cohdl

    base = os.path.dirname(os.path.abspath(cohdl.__file__))
    n = size = 0
    newest = 0.0
    for dp, dn, fn in os.walk(base):
        for f in fn:
            if f.endswith(".py"):
                st = os.stat(os.path.join(dp, f))
                n += 1
                size += st.st_size
                newest = max(newest, st.st_mtime)
    return (n, size, newest)


def alphabet(run: Run):
    letters = dict(D.LETTERS)
    sel = os.environ.get("VERIF_C11_LETTERS")
    if sel:  # development aid only
        order = [x for x in sel.split(",") if x in letters]
        run.capped = True
        run.note(f"VERIF_C11_LETTERS set: alphabet restricted to {order}")
    else:
        order = list(letters)
    return letters, order


def compute_golden(run, moddir, letters, order):
    tasks = []
    for l in order:
        spec = base_spec(moddir, letters, order)
        spec.update(mode="reuse", prefix=[l], depth=1, golden=None, record=True)
        tasks.append({"kind": "golden", "letter": l, "spec": spec, "hashseed": TREE_HASHSEED})
    golden = {}
    for kind, r in pmap(work, tasks, seed=run.seed):
        if kind != "ok":
            run.tool_error(f"golden run failed: {r[-600:]}")
            continue
        rec = r["res"]["recorded"][0]
        golden[r["task"]["letter"]] = {k: rec[k] for k in ("ok", "text", "exc", "msg")}
        if r["res"]["errors"]:
            run.tool_error(f"golden run errors: {r['res']['errors'][:2]}")
    return golden


def check_variants(run, moddir, letters, order, golden):
    if run.thorough:
        combos = [(s, n) for s in range(16) for n in (0, 1000, 50000, 333333)]
    else:
        combos = [(1, 0), (2, 0), (3, 50000)]
    run.coverage_extra["variant_configurations"] = [f"PYTHONHASHSEED={s},prealloc={n}" for s, n in combos][:8]
    tasks = []
    for l in order:
        if not golden[l]["ok"]:
            continue
        for s, n in combos:
            if True:
                spec = base_spec(moddir, letters, order)
                # the letter is compiled twice in the variant interpreter: both must give the golden bytes
                spec.update(mode="reuse", prefix=[l, l], depth=2, golden=None, record=True, prealloc=n)
                tasks.append({"kind": "variant", "letter": l, "seed": s, "prealloc": n, "spec": spec,
                              "hashseed": str(s)})
    bad = {}  # letter -> list of (seed, prealloc, index, description)
    for kind, r in pmap(work, tasks, seed=run.seed):
        if kind != "ok":
            run.tool_error(f"variant run failed: {r[-600:]}")
            continue
        t = r["task"]
        l = t["letter"]
        for i, rec in enumerate(r["res"]["recorded"]):
            run.count("fresh_variant_compilations")
            # a variant compilation is a node of the trivial histories [l] / [l, l] in another configuration
            run.count("states")
            run.count("transitions")
            run.count("traces_validated_against_impl")
            if rec["ok"] and rec["text"] == golden[l]["text"]:
                run.count("fresh_variants_equal")
                continue
            bad.setdefault(l, []).append((t["seed"], t["prealloc"], i,
                                          f"rejected {rec['exc']}: {rec['msg']}" if not rec["ok"] else "different text"))
    for l, lst in sorted(bad.items()):
        lst.sort()
        seed, pre, i, desc = lst[0]
        what = (f"design '{l}' compiled in a fresh interpreter (PYTHONHASHSEED={seed}, prealloc={pre}, "
                f"compilation #{i + 1}) differs from the golden bytes (PYTHONHASHSEED=0): {desc}; "
                f"{len(lst)} deviating variant compilations, seeds {sorted({x[0] for x in lst})}")
        run.violation(f"fresh/{l}", what, {"kind": "variant", "letter": l, "seed": seed, "prealloc": pre, "index": i})
    run.count("fresh_variant_interpreters", len(tasks))


def write_golden(moddir, golden):
    path = os.path.join(moddir, "golden.json")
    with open(path, "w") as f:
        json.dump(golden, f)
    return path


CORE6 = ["coro", "syncflag", "prefix", "rej_lowering", "rej_seqctx", "rej_prefix_ctx"]
CORE8 = CORE6 + ["env3", "env5"]


# last letters (victims) of the longest histories over the full alphabet; every letter is additionally its own victim
VICTIMS10 = ["comb", "coro", "syncflag", "prefix", "glob5", "env5", "dyn_b", "types_asc", "types_desc",
             "seqattrs_b", "base_b", "popcnt_set", "popcnt_clear"]
VICTIMS_THOROUGH = VICTIMS10 + ["rstinv_d", "plainawait", "glob3", "env3", "dyn_a", "seqattrs_a", "base_a", "portinit", "alias", "pushed"]


def tree_strata(run, order, golden):
    """(label, mode, alphabet, complete history length, task prefix length, count_min_len, leaf victims | None).
    Fork+compile costs ~1500 page faults per node and does not scale with the number of workers on the
    target VM (a few nodes/s under load, ~25/s idle), so the full alphabet is explored one level less deep
    than a small core, and the last letter of the longest histories over the full alphabet (the victim) ranges
    over a subset plus the letters already in the history (re-compilation)."""
    accepted = [l for l in order if golden[l]["ok"]]
    if run.thorough:
        core = [l for l in CORE8 if l in order]
        vict = [l for l in VICTIMS_THOROUGH if l in accepted]
        strata = [("full", "reuse", order, 3, 2, 0, vict), ("full", "fresh", order, 2, 1, 0, None),
                  ("core", "reuse", core, 4, 2, 4, None)]
    else:
        core = [l for l in CORE6 if l in order]
        vict = [l for l in VICTIMS10 if l in order]
        strata = [("full", "reuse", order, 2, 1, 0, vict), ("core", "fresh", core, 2, 1, 0, None),
                  ("core", "reuse", core, 3, 2, 3, None)]
    ov = os.environ.get("VERIF_C11_DEPTH")  # development aid only, e.g. "full=2,fresh=1,core=3"
    if ov:
        d = dict(part.split("=") for part in ov.split(","))
        out = []
        for (label, mode, alpha, depth, plen, cmin, leaf) in strata:
            key = "fresh" if mode == "fresh" else label
            if key in d:
                depth = int(d[key])
                cmin = min(cmin, depth)
            if depth > 0:
                out.append((label, mode, alpha, depth, min(plen, depth), cmin, leaf))
        strata = out
        run.capped = True
        run.note(f"VERIF_C11_DEPTH set: {ov}")
    return strata


def tree_tasks(moddir, letters, golden, strata):
    gfile = write_golden(moddir, golden)
    for (label, mode, alpha, depth, plen, cmin, leaf) in strata:
        for prefix in itertools.product(alpha, repeat=min(plen, depth)):
            spec = base_spec(moddir, letters, alpha)
            spec.update(mode=mode, prefix=list(prefix), depth=depth, golden_file=gfile, count_min_len=cmin,
                        leaf_order=leaf)
            yield {"kind": "tree", "mode": mode, "prefix": list(prefix), "spec": spec, "hashseed": TREE_HASHSEED,
                   "size": len(alpha) ** (depth - len(prefix))}


def collect(run, tasks, devs, label):
    """run driver tasks, accumulate counters and the deviation tables; returns the number of counted nodes"""
    nodes = 0
    for kind, r in pmap(work, tasks, seed=run.seed):
        if kind != "ok":
            run.tool_error(f"{label} task failed: {r[-600:]}")
            continue
        res, t = r["res"], r["task"]
        for e in res["errors"][:3]:
            run.tool_error(f"{label} {t['mode']} {t['prefix']}: {e}")
        nodes += res["nodes"]
        run.count("states", res["nodes"])
        run.count("transitions", res["nodes"])
        run.count(label + "_nodes", res["nodes"])
        run.count("traces_validated_against_impl", res["compared"])
        run.count("compilations_accepted", res["accepted"])
        run.count("compilations_rejected", res["rejected"])
        run.count("rejected_again_with_other_message", res["msg_differs"])
        run.count("prefix_compilations_executed_in_tasks", res.get("prefix_recompilations", 0))
        run.cmax("max_history_length", res["max_depth"])
        for d in res["deviations"]:
            devs[t["mode"]][(tuple(d["history"]), d["victim"], d["kind"])] = d
    return nodes


def check_tree(run, moddir, letters, order, golden, devs):
    strata = tree_strata(run, order, golden)
    tasks = list(tree_tasks(moddir, letters, golden, strata))
    tasks.sort(key=lambda t: -t["size"])  # largest subtrees first (better load balance)
    got_nodes = collect(run, tasks, devs, "tree")
    run.count("states", len({(s[1]) for s in strata}))  # one root node (empty history) per mode
    run.coverage_extra["strata"] = [
        {"alphabet": label, "mode": mode, "letters": len(alpha), "complete_history_length": depth,
         "last_letter": ("any letter" if leaf is None else f"one of {leaf} or a letter of the history")
         if True else None}
        for (label, mode, alpha, depth, plen, cmin, leaf) in strata]
    run.coverage_extra["core_alphabet"] = [l for l in (CORE8 if run.thorough else CORE6) if l in order]
    run.coverage_extra["alphabet_size"] = len(order)
    expected_nodes = 0
    for (_, _, alpha, depth, _, cmin, leaf) in strata:
        for k in range(max(1, cmin), depth + 1):
            if leaf is None or k < depth:
                expected_nodes += len(alpha) ** k
            else:
                ls = set(leaf)
                expected_nodes += sum(len([l for l in alpha if l in ls or l in h])
                                      for h in itertools.product(alpha, repeat=depth - 1))
    if got_nodes != expected_nodes and not run.tool_errors:
        run.tool_error(f"history tree incomplete: {got_nodes} nodes executed, expected {expected_nodes}")
    run.coverage_extra["exhaustive"] = got_nodes == expected_nodes


# ---------------------------------------------------------------------------------------------
# corpus stratum: the upstream reference designs as victims / second alphabet (depth 2)
# ---------------------------------------------------------------------------------------------
def corpus_letters():
    import cohdl

    tests = os.path.join(os.path.dirname(os.path.dirname(os.path.abspath(cohdl.__file__))), "tests")
    root = os.path.join(tests, "reference_builds")
    out = {}
    for dp, dn, fn in sorted(os.walk(root)):
        dn.sort()
        for f in sorted(fn):
            if f.startswith("test_") and f.endswith(".py"):
                mod = os.path.relpath(os.path.join(dp, f), tests)[:-3].replace(os.sep, ".")
                short = mod[len("reference_builds."):]
                out["corpus:" + short] = ("@" + mod, None, "accept", "upstream reference design " + mod)
    return out


def check_corpus(run, moddir, letters, order, golden, devs):
    cl = corpus_letters()
    if not run.thorough:
        # quick: every 8th upstream design (fixed, seed independent); thorough: all of them
        cl = dict(list(cl.items())[::8])
    lim = os.environ.get("VERIF_C11_CORPUS_LIMIT")
    if lim:  # development aid only
        cl = dict(list(cl.items())[:: max(1, len(cl) // int(lim))][: int(lim)])
        run.capped = True
        run.note(f"VERIF_C11_CORPUS_LIMIT set: corpus restricted to {len(cl)} designs")
    corder = list(cl)
    cgold = compute_golden(run, moddir, cl, corder)
    if len(cgold) != len(corder):
        run.tool_error("corpus golden outcomes incomplete")
        return
    acc = [c for c in corder if cgold[c]["ok"]]
    run.count("corpus_designs", len(corder))
    run.count("corpus_designs_accepted", len(acc))
    if len(acc) < (1 if lim else (100 if run.thorough else 12)):
        run.tool_error(f"vacuous corpus: only {len(acc)} of {len(corder)} upstream designs compile in a fresh interpreter")
        return
    allgold = dict(golden)
    allgold.update(cgold)
    gfile = write_golden(moddir, allgold)
    allletters = dict(letters)
    allletters.update(cl)
    tasks = []
    # (a) every rejected letter of the alphabet followed by every accepted corpus design
    rejected = [l for l in order if not golden[l]["ok"]] if run.thorough else []
    for p in rejected:
        for chunk in chunked(acc, 30):
            spec = base_spec(moddir, allletters, [p] + chunk)
            spec.update(order=list(chunk), mode="reuse", prefix=[p], depth=2, golden_file=gfile, count_prefix=False)
            tasks.append({"kind": "corpus", "mode": "reuse", "prefix": [p], "spec": spec, "hashseed": TREE_HASHSEED})
    # (b) quick: every corpus design compiled twice; thorough: every ordered pair of corpus designs
    for i, x in enumerate(acc):
        # quick: [X, X]; thorough: [X, X] and [X, Y] for the 8 designs Y following X (cyclically)
        succ = [acc[(i + j) % len(acc)] for j in range(9)] if run.thorough else [x]
        spec = base_spec(moddir, allletters, sorted(set([x] + succ), key=corder.index))
        spec.update(order=list(succ), mode="reuse", prefix=[x], depth=2, golden_file=gfile)
        tasks.append({"kind": "corpus", "mode": "reuse", "prefix": [x], "spec": spec, "hashseed": TREE_HASHSEED})
    got = collect(run, tasks, devs, "corpus")
    expected = len(rejected) * len(acc) + len(acc) * (1 + (9 if run.thorough else 1))
    if got != expected and not run.tool_errors:
        run.tool_error(f"corpus stratum incomplete: {got} nodes executed, expected {expected}")
    run.coverage_extra["corpus_stratum"] = (("all upstream designs X: [rejected letter, X]; " if run.thorough else "every 8th upstream design X: ")
                                            + ("[X, X] and [X, Y] for the 8 designs following X" if run.thorough else "[X, X]")
                                            + f"; rejected letters used: {rejected}")


# ---------------------------------------------------------------------------------------------
# alternation stratum: the linear history (a b)^k, every step compared with golden, with and without gc.collect()
# between the builds.  Catches effects that need accumulation (e.g. registries of id()s of dead objects whose
# addresses are reused later), which no short history shows.
# ---------------------------------------------------------------------------------------------
ALT_PAIRS_QUICK = [("exprfn", "plainawait")]
ALT_PAIRS_THOROUGH = ALT_PAIRS_QUICK + [("plainawait", "exprfn"), ("types_asc", "types_desc"), ("popcnt_set", "popcnt_clear"),
                                        ("dyn_a", "dyn_b"), ("glob3", "glob5"), ("rstinv", "rstinv_d"),
                                        ("seqattrs_a", "seqattrs_b"), ("base_a", "base_b"), ("coro", "rej_lowering")]


def check_alternations(run, moddir, letters, order, golden):
    rounds = 25 if run.thorough else 12
    pairs = [(a, b) for a, b in (ALT_PAIRS_THOROUGH if run.thorough else ALT_PAIRS_QUICK) if a in order and b in order]
    gfile = write_golden(moddir, golden)
    tasks = []
    for a, b in pairs:
        for use_gc in (True, False):
            spec = base_spec(moddir, letters, [a, b])
            spec.update(mode="reuse", prefix=[a, b] * rounds, depth=2 * rounds, golden_file=gfile,
                        count_prefix_all=True, gc_between=use_gc)
            tasks.append({"kind": "alt", "mode": "reuse", "prefix": [a, b], "pair": [a, b], "gc": use_gc, "spec": spec,
                          "hashseed": TREE_HASHSEED})
    for kind, r in pmap(work, tasks, seed=run.seed):
        if kind != "ok":
            run.tool_error(f"alternation task failed: {r[-600:]}")
            continue
        res, t = r["res"], r["task"]
        for e in res["errors"][:3]:
            run.tool_error(f"alternation {t['pair']}: {e}")
        if res["nodes"] != 2 * rounds:
            run.tool_error(f"alternation {t['pair']} incomplete: {res['nodes']} of {2 * rounds} steps")
        run.count("states", res["nodes"])
        run.count("transitions", res["nodes"])
        run.count("alternation_nodes", res["nodes"])
        run.count("traces_validated_against_impl", res["compared"])
        run.cmax("max_history_length", res["max_depth"])
        if res["deviations"]:
            d = min(res["deviations"], key=lambda x: len(x["history"]))
            a, b = t["pair"]
            what = (f"alternating the designs '{a}' and '{b}' in one interpreter ({'with' if t['gc'] else 'without'} gc.collect() "
                    f"between the builds): compilation #{len(d['history']) + 1} ('{d['victim']}') deviates from the "
                    f"fresh-interpreter result: {d['kind']} ({norm_sig(d['sig'])}); {len(res['deviations'])} of {2 * rounds} steps deviate")
            run.violation(f"alt/{a}~{b}=>{d['victim']}#{d['kind']}", what,
                          {"kind": "history", "mode": "reuse", "history": d["history"], "victim": d["victim"],
                           "deviation": d["kind"], "gc": t["gc"]})
    run.coverage_extra["alternation_stratum"] = {"pairs": [list(p) for p in pairs], "rounds": rounds,
                                                 "variants": ["gc.collect() between builds", "no gc.collect()"]}


def report_minimal(run, devs):
    # ---- minimal failing histories --------------------------------------------------------
    minimal = {}  # (history, victim, sig) -> {modes, record}
    n_dev = n_expl = 0
    for mode in MODES:
        table = devs[mode]
        for (h, v, sig), d in table.items():
            n_dev += 1
            if any((h2, v, sig) in table for h2 in proper_subsequences(h)):
                n_expl += 1
                continue
            m = minimal.setdefault((h, v, sig), {"modes": [], "rec": d})
            m["modes"].append(mode)
    run.count("deviating_histories", n_dev)
    run.count("deviating_histories_explained_by_shorter", n_expl)
    for (h, v, sig), m in sorted(minimal.items(), key=lambda kv: (len(kv[0][0]), kv[0])):
        d = m["rec"]
        run.sample({"minimal_deviating_history": list(h), "victim": v, "deviation": sig, "detail": norm_sig(d["sig"])})
        kind = d["kind"]
        if kind == "altered":
            eff = f"is accepted with different bytes (line {d['detail']['line']}: golden `{d['detail']['golden']}` got `{d['detail']['got']}`)"
        elif kind == "prevented":
            eff = f"is no longer accepted ({d['sig']})"
        elif kind == "accepted_after":
            eff = "is ACCEPTED although it is rejected in a fresh interpreter"
        else:
            eff = f"is rejected with another exception class ({d['sig']})"
        what = (f"after the compilations [{', '.join(h)}] in the same interpreter the design '{v}' {eff}; "
                f"modes={m['modes']}")
        run.violation(hist_key(h, v, sig), what,
                      {"kind": "history", "mode": m["modes"][0], "history": list(h), "victim": v, "deviation": sig,
                       "detail": norm_sig(d["sig"])})


# ---------------------------------------------------------------------------------------------
def main(run: Run):
    only = getattr(run, "only", None)
    letters, order = alphabet(run)
    base = "/dev/shm" if os.path.isdir("/dev/shm") else None
    moddir = tempfile.mkdtemp(prefix="verif_c11_", dir=base)
    fp0 = cohdl_fingerprint()
    try:
        D.write_modules(moddir)
        golden = compute_golden(run, moddir, letters, order)
        if len(golden) != len(order):
            run.tool_error("golden outcomes incomplete")
            return
        n_acc = sum(1 for l in order if golden[l]["ok"])
        n_rej = len(order) - n_acc
        run.count("golden_accepted", n_acc)
        run.count("golden_rejected", n_rej)
        run.coverage_extra["golden"] = {l: ("accept" if golden[l]["ok"] else f"reject:{golden[l]['exc']}") for l in order}
        for l in order:
            exp = letters[l][2]
            if (exp == "accept") != golden[l]["ok"]:
                run.note(f"letter {l}: expected {exp}, golden outcome {'accept' if golden[l]['ok'] else 'reject ' + str(golden[l]['exc'])}")
                run.count("letters_with_unexpected_golden_outcome")
        if not os.environ.get("VERIF_C11_LETTERS"):
            # vacuity guard: the alphabet must contain enough accepted and enough rejected designs,
            # and the stages the property is about must really be rejected / accepted
            if n_acc < 8 or n_rej < 8:
                run.tool_error(f"vacuous alphabet: {n_acc} accepted / {n_rej} rejected designs in the golden runs")
            if run.counters.get("letters_with_unexpected_golden_outcome", 0) > 2:
                run.tool_error("more than two alphabet designs do not behave as intended in a fresh interpreter")
        run.assume("golden outcome of a design = its compilation in a fresh interpreter (PYTHONHASHSEED=0) with empty history")
        run.assume("a rejected design must be rejected again with the same exception class; its message is allowed to differ")
        run.assume("history tree interpreters run with PYTHONHASHSEED=0; hash seeds are varied in the fresh-interpreter variants")
        run.assume("exhaustive up to the stated history length over the stated alphabet only")
        run.sample({"history": ["rej_seqctx", "syncflag", "coro"], "mode": "reuse",
                    "meaning": "each letter is compiled with std.VhdlCompiler.to_string in one interpreter, the last outcome is compared with the fresh-interpreter outcome"})
        run.sample({"alphabet": {l: letters[l][3] for l in order}})
        if only is None or "variants" in only:
            check_variants(run, moddir, letters, order, golden)
        devs = {m: {} for m in MODES}  # mode -> {(history tuple, victim, kind): record}
        if only is None or "tree" in only:
            check_tree(run, moddir, letters, order, golden, devs)
        if (only is None or "corpus" in only) and not os.environ.get("VERIF_C11_LETTERS"):
            check_corpus(run, moddir, letters, order, golden, devs)
        if (only is None or "alt" in only) and not os.environ.get("VERIF_C11_LETTERS"):
            check_alternations(run, moddir, letters, order, golden)
        if cohdl_fingerprint() != fp0:
            run.tool_error("the cohdl source tree was modified while the check was running: outcomes are not "
                           "trustworthy (cohdl re-reads function sources at compile time); run again")
        report_minimal(run, devs)
        if (only is None or "tree" in only) and run.counters.get("traces_validated_against_impl", 0) < 100 \
                and not os.environ.get("VERIF_C11_LETTERS"):
            run.tool_error("vacuous: fewer than 100 histories compared with golden")
    finally:
        shutil.rmtree(moddir, ignore_errors=True)


# ---------------------------------------------------------------------------------------------
def replay(run: Run, data: dict):
    letters = dict(D.LETTERS)
    letters.update(corpus_letters())
    used = [x for x in list(data.get("history", [])) + [data.get("victim"), data.get("letter")] if x]
    order = [l for l in letters if l in D.LETTERS or l in used]
    base = "/dev/shm" if os.path.isdir("/dev/shm") else None
    moddir = tempfile.mkdtemp(prefix="verif_c11_", dir=base)
    try:
        D.write_modules(moddir)
        if data.get("kind") == "variant":
            l = data["letter"]
            spec = base_spec(moddir, letters, order)
            spec.update(mode="reuse", prefix=[l], depth=1, golden=None, record=True)
            g = run_driver(spec)["recorded"][0]
            spec.update(prefix=[l, l], depth=2, prealloc=data["prealloc"])
            rec = run_driver(spec, str(data["seed"]))["recorded"][data.get("index", 0)]
            same = rec["ok"] == g["ok"] and rec["text"] == g["text"]
            print(f"variant {l} seed={data['seed']} prealloc={data['prealloc']}: {'equal to golden' if same else 'DIFFERS'}")
            return same
        h, v = list(data["history"]), data["victim"]
        spec = base_spec(moddir, letters, order)
        spec.update(mode="reuse", prefix=[v], depth=1, golden=None, record=True)
        g = run_driver(spec)["recorded"][0]
        golden = {v: {k: g[k] for k in ("ok", "text", "exc", "msg")}}
        for l in h:
            golden.setdefault(l, {"ok": True, "text": "", "exc": None, "msg": None})
        ok = True
        modes = [data["mode"]] if data.get("mode") in MODES else list(MODES)
        for mode in modes:
            spec = base_spec(moddir, letters, order)
            spec.update(mode=mode, prefix=h + [v], depth=len(h) + 1, golden=None, record=True,
                        gc_between=bool(data.get("gc")))
            rec = run_driver(spec)["recorded"][-1]
            import importlib.util

            sp = importlib.util.spec_from_file_location("c11_tree_for_replay", DRIVER)
            tree = importlib.util.module_from_spec(sp)
            sp.loader.exec_module(tree)
            dev = tree.compare(golden, v, rec)
            print(f"mode={mode} history={h} victim={v}: golden={'accept' if g['ok'] else 'reject ' + str(g['exc'])} "
                  f"now={'accept' if rec['ok'] else 'reject ' + str(rec['exc']) + ': ' + str(rec['msg'])} "
                  f"-> {'deviation ' + dev['kind'] if dev else 'same as golden'}")
            if dev is not None:
                ok = False
        return ok
    finally:
        shutil.rmtree(moddir, ignore_errors=True)

"""C17  Serialisation round-trips with the documented bit layout.

Bounded-exhaustive: every type composition of the family in verif/gen/c17_types.py (nesting <=2 / width <=8
quick, nesting <=3 / width <=10 thorough; the complete family is seed independent) x EVERY bit pattern / value:

  py.*    Python level on constants
            from_bits[T](b): every leaf == the documented slice of b (reference: verif/ref/c17_layout.py),
            to_bits(from_bits[T](b)) == b, width == count_bits(T) (type and instance form);
            x built with the constructors from every value: to_bits(x) == documented packing,
            from_bits[T](to_bits(x)) == x (leaf-wise, and with `==` where the type documents __eq__)
  rt.<q>  compiled wrapper  inp -> from_bits[T](inp, qualifier q) -> leaves on ports, to_bits -> ser,
          simulated with vsim for every input pattern, compared with the reference layout and with the
          Python-level result
  ct.*    the same expressions on constants inside a synthesisable context (folded by the compiler)
  bw.*    BitField: assigning a member changes exactly the declared range of the vector
"""
from __future__ import annotations

from ..core import Run, pmap, chunked
from ..gen import c17_types as G
from ..gen.c17_render import Renderer, ct_patterns_for
from ..ref import c17_layout as L

LEVEL = "exploration"


def to_tuple(x):
    if isinstance(x, list):
        return tuple(to_tuple(e) for e in x)
    return x


# ----------------------------------------------------------------------------------------------
# Python-level helpers (run inside the worker)
# ----------------------------------------------------------------------------------------------
def _decay(x):
    from cohdl._core._type_qualifier import TypeQualifierBase as TQ

    return TQ.decay(x)


def _leaf_raw(view, obj):
    """(raw unsigned value | None, type_ok) of a leaf object produced by cohdl at Python level"""
    from cohdl import std, Bit, BitVector, Unsigned, Signed, Boolean

    k = view.kind
    if k == "bit":
        return int(bool(_decay(obj))), std.instance_check(obj, Bit)
    if k == "bool":
        return int(bool(_decay(obj))), std.instance_check(obj, (bool, Boolean))
    if k == "bv":
        ok = std.instance_check(obj, BitVector[view.w]) and not std.instance_check(obj, (Signed, Unsigned))
        return _decay(obj).unsigned.to_int(), ok
    if k == "u":
        return _decay(obj).to_int(), std.instance_check(obj, Unsigned[view.w])
    if k == "s":
        v = _decay(obj).to_int()
        return v & ((1 << view.w) - 1), std.instance_check(obj, Signed[view.w])
    if k in ("sfix", "ufix"):
        l, r = view.meta
        hits = [raw for raw in range(1 << view.w) if bool(obj == L.fixed_number(k, l, r, raw))]
        cls = std.SFixed if k == "sfix" else std.UFixed
        return (hits[0] if len(hits) == 1 else None), isinstance(obj, cls[l:r])
    raise ValueError(view)


def _bv_int(x):
    return _decay(x).unsigned.to_int()


def eq_capable(T):
    """does every node of T document __eq__ (Bit/BitVector, bool, Record, Enum, S/UFixed)?"""
    T = L.resolve(T)
    k = T[0]
    if k in ("bit", "bool", "bv", "u", "s", "enum", "sfix", "ufix"):
        return True
    if k == "rec":
        return all(eq_capable(f) for f in T[1])
    return False


class Collector:
    """at most one violation per (type, sub-check); remembers the first failing pattern"""

    def __init__(self, T, src):
        self.T = T
        self.canon = G.canon(T)
        self.src = src
        self.items = {}

    def add(self, sub, what, **info):
        if sub in self.items:
            return
        key = f"{self.canon}#{sub}"
        self.items[sub] = {"key": key, "what": f"{self.canon} [{sub}]: {what}",
                           "replay": {"generator": "c17_types", "abstract_type": self.T, "subcheck": sub,
                                      "cohdl_source": self.src, **info}}


# ----------------------------------------------------------------------------------------------
def _reject(stats, col, where, e):
    if isinstance(e, (KeyboardInterrupt, SystemExit, MemoryError)):
        raise e
    stats[f"{where}_rejected"] += 1
    stats.setdefault("reject_msgs", {}).setdefault(f"{where}: {type(e).__name__}: {str(e)[:160]}", col.canon)


def python_level(T, mod, col, stats):
    """exceptions are rejections (counted, never violations); the two directions are independent"""
    from cohdl import std, BitVector, Boolean

    w = L.width(T)
    vs = L.views(T)
    ps = L.parts(T)
    TYPE = mod.TYPE
    is_ser = T[0] == "ser"

    def leaves_of(objs):
        got, oks = [], []
        for v, lf in zip(vs, objs):
            r, ok = _leaf_raw(v, lf)
            got.append(r)
            oks.append(ok)
        return got, oks

    # base classes of inherited records are serialisable types of their own: use them first, the derived class
    # must still get its own layout
    try:
        for B in mod.BASES:
            std.count_bits(B)
    except BaseException as e:
        _reject(stats, col, "py_base_count_bits", e)
    if not is_ser:
        try:
            cb = std.count_bits(TYPE)
        except BaseException as e:
            _reject(stats, col, "py_count_bits", e)
            return
        stats["py_evals"] += 1
        if cb != w:
            col.add("py.count_bits", f"count_bits(T) = {cb}, documented width {w}", expected=w, observed=cb)
            return  # from_bits would only assert on the width
    use_eq = eq_capable(T)
    outcomes = set()
    want_cls = (bool, Boolean) if T[0] == "bool" else TYPE

    # ---- direction 1: every bit pattern b: from_bits, leaves, to_bits ------------------------------
    try:
        for b in range(1 << w):
            bvb = BitVector[w](format(b, f"0{w}b"))
            exp = [L.field(b, v.lo, v.w) for v in vs]
            obj = TYPE.from_raw(bvb) if is_ser else std.from_bits[TYPE](bvb)
            leaves = mod.observe(obj)
            got, oks = leaves_of(leaves)
            stats["py_evals"] += 1
            outcomes.add(tuple(got))
            if got != exp:
                i = next(i for i in range(len(vs)) if got[i] != exp[i])
                col.add("py.from_bits", f"from_bits[T]({b:0{w}b}) leaf {vs[i].path} = {got[i]}, documented bits "
                        f"[{vs[i].lo + vs[i].w - 1}:{vs[i].lo}] = {exp[i]}", pattern=b, expected=exp, observed=got)
            if not all(oks):
                i = oks.index(False)
                col.add("py.leaf_type", f"from_bits[T]({b:0{w}b}) leaf {vs[i].path} has type "
                        f"{type(leaves[i]).__name__}, expected kind {vs[i].kind}{vs[i].w}", pattern=b)
            if not is_ser:
                if not std.instance_check(obj, want_cls):
                    col.add("py.obj_type", f"from_bits[T] returned {type(obj).__name__}", pattern=b)
                ci = std.count_bits(obj)
                if ci != w:
                    col.add("py.count_bits_inst", f"count_bits(instance) = {ci}, documented {w}", pattern=b,
                            expected=w, observed=ci)
            back = obj.bits() if is_ser else std.to_bits(obj)
            if back.width != w or not std.instance_check(back, BitVector[w]):
                col.add("py.to_bits_width", f"to_bits(from_bits[T]({b:0{w}b})) has width {back.width}, count_bits = {w}",
                        pattern=b, expected=w, observed=back.width)
            elif _bv_int(back) != b:
                col.add("py.to_bits_from_bits", f"to_bits(from_bits[T]({b:0{w}b})) = {_bv_int(back):0{w}b}", pattern=b,
                        expected=b, observed=_bv_int(back))
        stats["py_dir1_done"] += 1
    except BaseException as e:
        _reject(stats, col, "py_dir1", e)

    # ---- direction 2: every value x built with the constructors: to_bits, from_bits(to_bits(x)) == x ---
    built = {}
    try:
        for b in range(1 << w):
            exp = [L.field(b, v.lo, v.w) for v in vs]
            P = [L.field(b, p[0], p[1]) for p in ps]
            x = mod.build(P)
            built[b] = x
            sx = x.bits() if is_ser else std.to_bits(x)
            stats["py_evals"] += 1
            if sx.width != w:
                col.add("py.to_bits_width", f"to_bits(x) has width {sx.width}, count_bits = {w}; x parts = {P}",
                        pattern=b, expected=w, observed=sx.width)
                continue
            si = _bv_int(sx)
            if si != b:
                col.add("py.to_bits", f"to_bits(x) = {si:0{w}b} for x parts {P}, documented packing {b:0{w}b}",
                        pattern=b, expected=b, observed=si)
            if not is_ser and std.count_bits(x) != w:
                col.add("py.count_bits_inst", f"count_bits(x) = {std.count_bits(x)}, documented {w}", pattern=b)
            stats["py_dir2a_evals"] += 1
        stats["py_dir2a_done"] += 1
    except BaseException as e:
        _reject(stats, col, "py_dir2a", e)
    try:
        for b in range(1 << w):
            exp = [L.field(b, v.lo, v.w) for v in vs]
            P = [L.field(b, p[0], p[1]) for p in ps]
            x = built.get(b)
            if x is None:
                x = mod.build(P)
            if is_ser:
                # Serialized[T](x).value() is the documented from_bits[T](to_bits(x))
                y = None
                yl = mod.observe(x)
                xl = mod.observe_inner(mod.build_inner(P))
            else:
                y = std.from_bits[TYPE](std.to_bits(x))
                yl = mod.observe(y)
                xl = mod.observe(x)
            gy, _ = leaves_of(yl)
            gx, _ = leaves_of(xl)
            stats["py_evals"] += 1
            if gx != exp:
                stats["py_ctor_mismatch"] += 1   # the constructor did not store what it was given: outside C17
            elif gy != gx:
                col.add("py.roundtrip", f"from_bits[T](to_bits(x)) != x: leaves {gy} vs {gx} (x parts {P})", pattern=b,
                        expected=gx, observed=gy)
            if use_eq and y is not None:
                stats["py_eq_evals"] += 1
                if not bool(y == x) or bool(y != x):
                    col.add("py.roundtrip_eq", f"from_bits[T](to_bits(x)) == x is false for x parts {P}", pattern=b)
        stats["py_dir2b_done"] += 1
    except BaseException as e:
        _reject(stats, col, "py_dir2b", e)
    stats["py_distinct"] = max(stats.get("py_distinct", 0), len(outcomes))

    # ---- every construction form of every record node x every value: to_bits == documented packing ----------
    for j in mod.FORM_INDICES[1:]:
        fn = getattr(mod, f"build_f{j}")
        name = mod.FORM_NAMES[j]
        try:
            for b in range(1 << w):
                P = [L.field(b, p[0], p[1]) for p in ps]
                x = fn(P)
                sx = x.bits() if is_ser else std.to_bits(x)
                stats["py_form_evals"] += 1
                if sx.width != w:
                    col.add("py.ctor", f"to_bits(x) has width {sx.width}, count_bits = {w}; x built in form "
                            f"{name} from parts {P}", pattern=b, form=j)
                elif _bv_int(sx) != b:
                    col.add("py.ctor", f"to_bits(x) = {_bv_int(sx):0{w}b} for x built in form {name} (pN = N "
                            f"positional args, k.. = keyword order, copy = copy constructor) from parts {P}; documented "
                            f"packing {b:0{w}b}", pattern=b, form=j, expected=b, observed=_bv_int(sx))
            stats["py_forms_done"] += 1
        except BaseException as e:
            _reject(stats, col, "py_form", e)

    # ---- value snapshot: results taken from a Variable before it is assigned again keep the OLD value ------
    if mod.HAS_SNAPSHOT:
        for fn, sub in ((mod.snapshot_py, "py.snap"), (mod.snapshot_ser_py, "py.snap_ser")):
            try:
                for a in range(1 << w):
                    A = BitVector[w](format(a, f"0{w}b"))
                    for b in range(1 << w):
                        kept, rt, new = fn(A, BitVector[w](format(b, f"0{w}b")))
                        k, r, nw = _bv_int(kept), _bv_int(rt), _bv_int(new)
                        stats["py_snap_evals"] += 1
                        if nw != b:
                            stats["py_snap_assign_mismatch"] += 1    # the assignment itself: outside this invariant
                        elif k != a or r != a:
                            col.add(sub, f"Variable v = {a:0{w}b}; r = {'Serialized[T](v)' if 'ser' in sub else 'to_bits(v)'}; "
                                    f"v @= {b:0{w}b}: r is now {k:0{w}b}, from_bits[T](r) serialises to {r:0{w}b}; the value "
                                    f"at the time of the call was {a:0{w}b}", old=a, new=b, expected=a, observed=k)
                stats[sub.replace(".", "_") + "_done"] += 1
            except BaseException as e:
                _reject(stats, col, sub.replace(".", "_"), e)

    # ---- cohdl.Array construction forms (partial default lists, Null, Full, no argument) -----------------
    if mod.AD_NFORMS:
        for qn, Q in (("const", None), ("signal", std.Signal), ("variable", std.Variable)):
            for f in range(mod.AD_NFORMS):
                try:
                    x = mod.ad_make(f, Q)
                    sx = std.to_bits(x)
                    stats["py_ad_evals"] += 1
                    if sx.width != w:
                        col.add("py.ad.width", f"{qn} object in array construction form {f}: to_bits has {sx.width} bits, "
                                f"count_bits(T) = {w}", form=f, qualifier=qn, expected=w, observed=sx.width)
                        continue
                    bits = str(_decay(sx))
                    for lo, lw, const in mod.AD_EXPECT[f]:
                        got = bits[len(bits) - lo - lw:len(bits) - lo]
                        if got != format(const, f"0{lw}b"):
                            col.add("py.ad.value", f"{qn} object in array construction form {f}: bits [{lo + lw - 1}:{lo}] of "
                                    f"to_bits are {got}, the default given for that element is {const:0{lw}b}", form=f,
                                    qualifier=qn)
                    if T[0] == "carr":
                        n_it, n_len = len([e for e in x]), len(x)
                        if n_it != T[2] or n_len != T[2]:
                            col.add("py.ad.iter", f"{qn} array in construction form {f}: iteration yields {n_it} elements, "
                                    f"len() = {n_len}, declared {T[2]}", form=f, qualifier=qn, expected=T[2], observed=n_it)
                    stats["py_ad_done"] += 1
                except BaseException as e:
                    _reject(stats, col, "py_ad", e)

    # ---- the low bits of a serialised record are its serialised base class (base fields first) --------------
    RT_ = L.resolve(T)
    for bi, (B, n) in enumerate(mod.TOP_BASES):
        base_node = ("rec", RT_[1][:n], (n,))
        bvs = L.views(base_node)
        wb = L.width(base_node)
        obs = getattr(mod, f"observe_base{bi}")
        try:
            if std.count_bits(B) != wb:
                col.add(f"py.base{bi}.count_bits", f"count_bits(base class with the first {n} fields) = "
                        f"{std.count_bits(B)}, documented {wb}")
                continue
            for b in range(1 << w):
                bvb = BitVector[w](format(b, f"0{w}b"))
                hb = std.from_bits[B](bvb[wb - 1:0])
                got = [_leaf_raw(v, lf)[0] for v, lf in zip(bvs, obs(hb))]
                exp = [L.field(b, v.lo, v.w) for v in bvs]
                stats["py_base_evals"] += 1
                if got != exp:
                    col.add(f"py.base{bi}.prefix", f"low {wb} bits of {b:0{w}b} read as the base class (first {n} fields): "
                            f"leaves {got}, documented {exp}", pattern=b, expected=exp, observed=got)
                x = built.get(b)
                if x is not None:
                    lowx = _bv_int(std.to_bits(x)) & ((1 << wb) - 1)
                    hx = std.from_bits[B](BitVector[wb](format(lowx, f"0{wb}b")))
                    gotx = [_leaf_raw(v, lf)[0] for v, lf in zip(bvs, obs(hx))]
                    if gotx != exp:
                        col.add(f"py.base{bi}.prefix_of_value", f"low {wb} bits of to_bits(x) are not the base-class part "
                                f"of x: {gotx} vs {exp}", pattern=b, expected=exp, observed=gotx)
            stats["py_base_done"] += 1
        except BaseException as e:
            _reject(stats, col, "py_base", e)

    # ---- templated record vs the identical record without templates -----------------------------------------
    if mod.TWIN is not None:
        try:
            if std.count_bits(mod.TWIN) != std.count_bits(TYPE):
                col.add("py.twin.count_bits", f"count_bits differs from the non-templated twin: {std.count_bits(TYPE)} vs "
                        f"{std.count_bits(mod.TWIN)}")
            else:
                for b in range(1 << w):
                    P = [L.field(b, p[0], p[1]) for p in ps]
                    x = built.get(b)
                    if x is None:
                        x = mod.build(P)
                    a, t = _bv_int(std.to_bits(x)), _bv_int(std.to_bits(mod.build_twin(P)))
                    stats["py_twin_evals"] += 1
                    if a != t:
                        col.add("py.twin.to_bits", f"templated record serialises parts {P} to {a:0{w}b}, the identical "
                                f"non-templated record to {t:0{w}b}", pattern=b, expected=t, observed=a)
                stats["py_twin_done"] += 1
        except BaseException as e:
            _reject(stats, col, "py_twin", e)


# ----------------------------------------------------------------------------------------------
def sim_outputs_to_leaves(vs, ports, outs, prefix_ser):
    """collect raw leaf values from simulator outputs. fixed leaves: index of the single set candidate bit"""
    got = [None] * len(vs)
    fixed_hits = {}
    for name, _pt, i, raw in ports:
        val = outs.get(name)
        if raw is None:
            got[i] = val
        else:
            fixed_hits.setdefault(i, [])
            if val is None:
                fixed_hits[i].append(None)
            elif val:
                fixed_hits[i].append(raw)
    for i, hits in fixed_hits.items():
        got[i] = hits[0] if len(hits) == 1 and hits[0] is not None else None
    return got


def compile_level(T, mod, r, col, stats, qualifiers, do_ct):
    from ..cohdl_util import compile_entity
    from ..vhdl.elab import compile_design

    w = L.width(T)
    vs = L.views(T)
    is_ser = T[0] == "ser"
    for q in qualifiers:
        res = compile_entity(getattr(mod, f"RT_{q}"))
        if not res.ok:
            stats[f"rt_{q}_rejected"] += 1
            stats.setdefault("reject_msgs", {}).setdefault(f"rt.{q}: {res.error[:160]}", col.canon)
            continue
        d = compile_design(res.vhdl)
        if d.findings or d.multi_driven:
            col.add(f"rt.{q}.static", f"emitted VHDL has static findings {d.findings[:2]} {d.multi_driven[:2]}")
            continue
        sim = d.sim()
        ports = r.leaf_ports(vs, "l")
        stats[f"rt_{q}_compiled"] += 1
        outcomes = set()
        for b in range(1 << w):
            sim.set("inp", b)
            outs = sim.outputs()
            got = sim_outputs_to_leaves(vs, ports, outs, "ser")
            exp = [L.field(b, v.lo, v.w) for v in vs]
            stats["rt_evals"] += 1
            outcomes.add((outs.get("ser"),) + tuple(got))
            if got != exp:
                i = next(i for i in range(len(vs)) if got[i] != exp[i])
                col.add(f"rt.{q}.leaf", f"emitted logic: inp={b:0{w}b} leaf {vs[i].path} = {got[i]}, documented bits "
                        f"[{vs[i].lo + vs[i].w - 1}:{vs[i].lo}] = {exp[i]}", pattern=b, qualifier=q, expected=exp,
                        observed=got)
            if outs.get("ser") != b:
                col.add(f"rt.{q}.ser", f"emitted logic: to_bits(from_bits[T]({b:0{w}b})) = {outs.get('ser')}",
                        pattern=b, qualifier=q, expected=b, observed=outs.get("ser"))
            if is_ser and outs.get("ser2") != b:
                col.add(f"rt.{q}.ser2", f"emitted logic: Serialized[T](from_bits[T]({b:0{w}b})).bits() = "
                        f"{outs.get('ser2')}", pattern=b, qualifier=q, expected=b, observed=outs.get("ser2"))
        stats["rt_distinct"] = max(stats.get("rt_distinct", 0), len(outcomes))
        if sim.A:
            col.add(f"rt.{q}.assert", f"VHDL assertion fired: {sim.A[:1]}")
    if hasattr(mod, "CB"):
        full = (1 << w) - 1
        res = compile_entity(mod.CB)
        has_nf = res.ok
        if not res.ok:
            stats["cb_nullfull_rejected"] += 1
            stats.setdefault("reject_msgs", {}).setdefault(f"cb(Null/Full): {res.error[:160]}", col.canon)
            res = compile_entity(mod.CBX)
        if not res.ok:
            stats["cb_rejected"] += 1
            stats.setdefault("reject_msgs", {}).setdefault(f"cb: {res.error[:160]}", col.canon)
        else:
            d = compile_design(res.vhdl)
            if d.findings or d.multi_driven:
                col.add("cb.static", f"emitted VHDL has static findings {d.findings[:2]} {d.multi_driven[:2]}")
            else:
                sim = d.sim()
                stats["cb_compiled"] += 1
                for b in range(1 << w):
                    sim.set("inp", b)
                    outs = sim.outputs()
                    for j in mod.FORM_INDICES:
                        stats["cb_evals"] += 1
                        if outs.get(f"cb{j}") != b:
                            name = mod.FORM_NAMES[j]
                            col.add("cb.ctor", f"emitted logic: record built in form {name} from the documented slices "
                                    f"of {b:0{w}b}: to_bits = {outs.get(f'cb{j}')}", pattern=b, form=j, expected=b,
                                    observed=outs.get(f"cb{j}"))
                    if not has_nf:
                        continue
                    stats["cb_nullfull_evals"] += 1
                    if outs.get("cbnull") != 0:
                        col.add("cb.null", f"emitted logic: to_bits(T(Null)) = {outs.get('cbnull')}", expected=0,
                                observed=outs.get("cbnull"))
                    if outs.get("cbfull") != full:
                        col.add("cb.full", f"emitted logic: to_bits(T(Full)) = {outs.get('cbfull')}", expected=full,
                                observed=outs.get("cbfull"))
    if mod.HAS_SNAPSHOT:
        for ename, sub in (("SN", "sn"), ("SNS", "sn_ser")):
            res = compile_entity(getattr(mod, ename))
            if not res.ok:
                stats[f"{sub}_rejected"] += 1
                stats.setdefault("reject_msgs", {}).setdefault(f"{sub}: {res.error[:160]}", col.canon)
                continue
            d = compile_design(res.vhdl)
            if d.findings or d.multi_driven:
                col.add(f"{sub}.static", f"emitted VHDL has static findings {d.findings[:2]} {d.multi_driven[:2]}")
                continue
            sim = d.sim()
            stats[f"{sub}_compiled"] += 1
            for a in range(1 << w):
                for b in range(1 << w):
                    sim.set_many({"a": a, "b": b})
                    outs = sim.outputs()
                    stats["sn_evals"] += 1
                    if outs.get("o_new") != b:
                        col.add(f"{sub}.assign", f"emitted logic: v @= {b:0{w}b} then to_bits(v) = {outs.get('o_new')}",
                                old=a, new=b)
                    elif outs.get("o_kept") != a or outs.get("o_rt") != a:
                        col.add(f"{sub}.value", f"emitted logic: Variable v = {a:0{w}b}; r = "
                                f"{'Serialized[T](v)' if sub == 'sn_ser' else 'to_bits(v)'}; v @= {b:0{w}b}: r = "
                                f"{outs.get('o_kept')}, from_bits[T](r) -> {outs.get('o_rt')}; the value at the time of the "
                                f"call was {a:0{w}b}", old=a, new=b, expected=a, observed=outs.get("o_kept"))
    if mod.AD_NFORMS:
        for qn in ("signal", "variable"):
            for f in range(mod.AD_NFORMS):
                # width / iteration length: constants in the emitted design, independent of any width-sensitive consumer
                res = compile_entity(getattr(mod, f"ADW_{qn}_{f}"))
                if not res.ok:
                    stats["adw_rejected"] += 1
                    stats.setdefault("reject_msgs", {}).setdefault(f"adw.{qn}: {res.error[:160]}", col.canon)
                    continue        # the constructor itself is rejected: nothing to serialise
                d = compile_design(res.vhdl)
                if d.findings or d.multi_driven:
                    col.add(f"adw.{qn}.static", f"emitted VHDL has static findings {d.findings[:2]} {d.multi_driven[:2]}")
                else:
                    sim = d.sim()
                    sim.set("inp", 0)
                    outs = sim.outputs()
                    stats["adw_compiled"] += 1
                    stats["adw_evals"] += 1
                    if outs.get("wd") != w:
                        col.add(f"adw.{qn}.width", f"in context: to_bits of the {qn} object in array construction form {f} "
                                f"has {outs.get('wd')} bits, count_bits(T) = {w}", form=f, expected=w, observed=outs.get("wd"))
                    if T[0] == "carr" and (outs.get("n") != T[2] or outs.get("m") != T[2]):
                        col.add(f"adw.{qn}.iter", f"in context: iterating the {qn} array in construction form {f} yields "
                                f"{outs.get('n')} elements, len() = {outs.get('m')}, declared {T[2]}", form=f,
                                expected=T[2], observed=outs.get("n"))
                res = compile_entity(getattr(mod, f"AD_{qn}_{f}"))
                if not res.ok:
                    stats["ad_rejected"] += 1
                    stats.setdefault("reject_msgs", {}).setdefault(f"ad.{qn}: {res.error[:160]}", col.canon)
                    continue
                d = compile_design(res.vhdl)
                if d.findings or d.multi_driven:
                    col.add(f"ad.{qn}.static", f"emitted VHDL has static findings {d.findings[:2]} {d.multi_driven[:2]}")
                    continue
                sim = d.sim()
                stats["ad_compiled"] += 1
                for b in range(1 << w):
                    sim.set("inp", b)
                    got = sim.get("o")
                    exp = b
                    for lo, lw, const in mod.AD_EXPECT[f]:
                        exp = L.bf_write_expected(exp, lo, lw, const)
                    stats["ad_evals"] += 1
                    if got != exp:
                        col.add(f"ad.{qn}.value", f"emitted logic: {qn} object in array construction form {f} (defaulted "
                                f"elements keep their default, the others are driven from {b:0{w}b}): to_bits = {got}, "
                                f"expected {exp:0{w}b}", pattern=b, form=f, expected=exp, observed=got)
    if do_ct:
        pats = ct_patterns_for(w)
        res = compile_entity(mod.CT)
        if not res.ok:
            stats["ct_rejected"] += 1
            stats.setdefault("reject_msgs", {}).setdefault(f"ct: {res.error[:160]}", col.canon)
        else:
            d = compile_design(res.vhdl)
            if d.findings or d.multi_driven:
                col.add("ct.static", f"emitted VHDL has static findings {d.findings[:2]} {d.multi_driven[:2]}")
            else:
                sim = d.sim()
                sim.set("dummy", 0)
                outs = sim.outputs()
                stats["ct_compiled"] += 1
                for ci, b in enumerate(pats):
                    ports = r.leaf_ports(vs, f"c{ci}_l")
                    got = sim_outputs_to_leaves(vs, ports, outs, None)
                    exp = [L.field(b, v.lo, v.w) for v in vs]
                    stats["ct_evals"] += 1
                    if got != exp:
                        i = next(i for i in range(len(vs)) if got[i] != exp[i])
                        col.add("ct.leaf", f"constant folded in context: from_bits[T]({b:0{w}b}) leaf {vs[i].path} = "
                                f"{got[i]}, documented {exp[i]}", pattern=b, expected=exp, observed=got)
                    if outs.get(f"c{ci}_ser") != b:
                        col.add("ct.ser", f"constant folded in context: to_bits(from_bits[T]({b:0{w}b})) = "
                                f"{outs.get(f'c{ci}_ser')}", pattern=b, expected=b, observed=outs.get(f"c{ci}_ser"))


def bitfield_write(T, mod, col, stats):
    from ..cohdl_util import compile_entity
    from ..vhdl.elab import compile_design

    w = T[1]
    wr = L.bf_write_ranges(T)
    res = compile_entity(mod.BW)
    if not res.ok:
        stats["bw_rejected"] += 1
        stats.setdefault("reject_msgs", {}).setdefault(f"bw: {res.error[:160]}", col.canon)
        return
    d = compile_design(res.vhdl)
    if d.findings or d.multi_driven:
        col.add("bw.static", f"emitted VHDL has static findings {d.findings[:2]} {d.multi_driven[:2]}")
        return
    sim = d.sim()
    stats["bw_compiled"] += 1
    maxfw = max(fw for _, _, fw in wr)
    for val in range(1 << maxfw):
        sim.set_many({f"v{i}": val & ((1 << fw) - 1) for i, (_, _, fw) in enumerate(wr)})
        for b in range(1 << w):
            sim.set("inp", b)
            outs = sim.outputs()
            for i, (p, lo, fw) in enumerate(wr):
                v = val & ((1 << fw) - 1)
                if val >> fw:
                    continue  # this member's values are already exhausted
                exp = L.bf_write_expected(b, lo, fw, v)
                stats["bw_evals"] += 1
                if outs.get(f"o{i}") != exp:
                    col.add(f"bw{p}", f"bit field member {p} (declared bits [{lo + fw - 1}:{lo}]) assigned {v:0{fw}b} on "
                            f"vector {b:0{w}b}: result {outs.get(f'o{i}')}, expected {exp:0{w}b}", pattern=b, value=v,
                            expected=exp, observed=outs.get(f"o{i}"))


# ----------------------------------------------------------------------------------------------
def check_type(T, qualifiers, do_ct=True, reduced_forms=False, snapshot=None):
    """complete check of one composition. returns (status, stats, violations)"""
    from collections import defaultdict

    from ..cohdl_util import load_module, unload_module, reset_compiler_state

    stats = defaultdict(int)
    r = Renderer(T)
    w = L.width(T)
    if snapshot is None:
        snapshot = w <= 3
    src = r.module(qualifiers, ct_patterns_for(w) if do_ct else (), reduced_forms=reduced_forms, with_snapshot=snapshot)
    if T[0] == "ser":
        # helpers to observe / build the wrapped type directly
        r2 = Renderer(T[1])
        r2.names, r2.defs, r2.n = r.names, r.defs, r.n
        st, ex = r2.observe(T[1], "obj")
        src += "\n\ndef observe_inner(obj):\n" + "".join(f"    {s}\n" for s in st) + "    return [" + ", ".join(ex) + "]\n"
        src += "\n\ndef build_inner(P):\n    return " + r2.build_expr(T[1]) + "\n"
    col = Collector(T, src)
    try:
        mod = load_module(src, "c17")
    except BaseException as e:  # the type expression itself is rejected
        if isinstance(e, (KeyboardInterrupt, SystemExit, MemoryError)):
            raise
        reset_compiler_state()
        stats["reject_msgs"] = {f"import: {type(e).__name__}: {str(e)[:160]}": col.canon}
        return "rejected_import", stats, []
    status = "ok"
    try:
        python_level(T, mod, col, stats)
        if not stats.get("py_dir1_done"):
            status = "py_rejected"
        compile_level(T, mod, r, col, stats, qualifiers, do_ct)
        if T[0] == "bf":
            bitfield_write(T, mod, col, stats)
    finally:
        unload_module(mod)
    return status, stats, list(col.items.values())


BULK = ("L2.rec2", "L2.rec3", "L2.inherit", "L2.tinherit")      # the quadratic record strata of nesting 2


def qualifiers_for(stratum, T, thorough):
    """which from_bits qualifiers the run-time wrapper is built with"""
    if thorough:
        return ("value", "signal", "temporary", "ref", "variable") if L.width(T) <= 7 else ("value", "signal")
    return ("value",) if stratum in BULK else ("value", "signal")


def ct_for(stratum, T, thorough):
    """constants-in-context wrapper: everywhere in thorough; quick skips the quadratic nesting-2 record strata"""
    return thorough or stratum not in BULK


def reduced_forms_for(stratum, T, thorough):
    """record construction forms: all forms for nesting-1 records (and everywhere in thorough up to width 8); the
    quadratic nesting-2 strata of quick use the four most different forms"""
    if thorough:
        return L.width(T) > 8
    return not stratum.startswith("L1.")


# ----------------------------------------------------------------------------------------------
# CPython >= 3.11 keeps interpreter frames on a per-thread "data stack" made of 16 KiB chunks; a chunk is
# mmap'ed when a call does not fit and munmap'ed when its first frame returns.  cohdl's recursive AST
# interpreter oscillates across chunk boundaries all the time (thousands of mmap/munmap per compile; >90 % of
# the run time on this machine).  Running the work below one frame with ~140k (unused) local slots makes CPython
# allocate a single 2 MiB chunk for that frame; all nested frames then live in its free tail.  Pure
# speed-up, no semantic effect; if the tail is exhausted CPython falls back to normal chunks.
_BIG = None


def _tpl(f, *a):
    return f(*a)


def deep_stack():
    global _BIG
    if _BIG is None:
        import types

        c = _tpl.__code__
        try:
            names = c.co_varnames + tuple(f"_pad{i}" for i in range(140000))
            _BIG = types.FunctionType(c.replace(co_varnames=names, co_nlocals=len(names)), globals())
            _BIG(int)
        except Exception:       # other interpreter versions: just run plainly
            _BIG = _tpl
    return _BIG


SNAP_WIDE = ("L0", "L1.rec1", "L1.sarr", "L1.carr")    # strata whose snapshot check goes one bit wider


def snapshot_for(stratum, T, thorough):
    """value-snapshot check over ALL (old, new) pairs: width <= 3 (thorough 4), one bit more for atoms, single field
    records and arrays of atoms"""
    lim = (4 if thorough else 3) + (1 if stratum in SNAP_WIDE else 0)
    return L.width(T) <= lim


def work(task):
    return deep_stack()(_work, task)


def _work(task):
    types, thorough, do_ct = task
    import io
    import contextlib
    import time

    out = []
    for stratum, T in types:
        buf = io.StringIO()
        t0 = time.process_time()
        with contextlib.redirect_stdout(buf):   # std exception infos are printed by cohdl
            status, stats, viols = check_type(T, qualifiers_for(stratum, T, thorough), do_ct and ct_for(stratum, T, thorough),
                                              reduced_forms_for(stratum, T, thorough), snapshot_for(stratum, T, thorough))
        stats["cpu_ms_" + stratum] = int(1000 * (time.process_time() - t0))
        out.append({"stratum": stratum, "T": T, "status": status, "stats": dict(stats), "viols": viols})
    return out


# ----------------------------------------------------------------------------------------------
def main(run: Run):
    deep_stack()      # built once, inherited by the forked workers
    fam = G.family(run.thorough)
    qualifiers = ("value", "signal", "temporary", "ref", "variable") if run.thorough else ("value", "signal")
    only = getattr(run, "only", None)
    if only:                                   # debug: --only L1.rec2,L2.sarr
        fam = [st for st in fam if st[0] in only]
        run.capped = True
    import os
    stride = int(os.environ.get("C17_STRIDE", "1"))
    if stride > 1:                             # debug only: never exhaustive
        fam = fam[::stride]
        run.capped = True
    run.count("compositions_generated", len(fam))
    for s, _ in fam:
        run.count("stratum_" + s)
    # largest first for load balance; order inside results does not matter
    fam_sorted = sorted(fam, key=lambda st: -L.width(st[1]))
    tasks = [(chunk, run.thorough, True) for chunk in chunked(fam_sorted, 12)]
    sample_every = max(1, len(fam) // 5)
    done = 0
    reject_msgs = {}
    for kind, res in pmap(work, tasks, seed=run.seed):
        if kind != "ok":
            run.tool_error(f"worker failed: {res[-800:]}")
            continue
        for item in res:
            done += 1
            st = item["stats"]
            run.count("types_" + item["status"])
            if item["viols"] or (st.get("py_dir1_done") and st.get("py_dir2a_done") and st.get("rt_value_compiled")):
                run.count("types_exercised")
            for k, v in st.items():
                if k == "reject_msgs":
                    for m, c in v.items():
                        reject_msgs.setdefault(m, c)
                elif k in ("py_distinct", "rt_distinct"):
                    run.cmax("max_" + k, v)
                    if v > 1:
                        run.count("types_with_distinct_outcomes_" + k[:2])
                else:
                    run.count(k, v)
            if done % sample_every == 0:
                run.sample({"type": G.canon(item["T"]), "stratum": item["stratum"], "width": L.width(item["T"]),
                            "stats": {k: v for k, v in st.items() if k != "reject_msgs"}})
            for v in item["viols"]:
                run.violation(v["key"], v["what"], v["replay"])
    for m, c in sorted(reject_msgs.items())[:40]:
        run.note(f"rejected: {m}  (first: {c})")
    c = run.counters
    n = len(fam)
    ex = c.get("types_exercised", 0)
    if ex * 10 < n * 9 or n < 10:
        run.tool_error(f"vacuous: only {ex} of {n} compositions were accepted at Python level (both directions) and "
                       f"by the compiler (default round-trip wrapper)")
    nbf = c.get("stratum_L1.bf", 0)
    if nbf and (c.get("bw_compiled", 0) + len(run.violations)) * 10 < nbf * 8:
        run.tool_error(f"vacuous: bit field write wrapper compiled for {c.get('bw_compiled', 0)} of {nbf} bit fields")
    n_ct = sum(1 for s, t in fam if ct_for(s, t, run.thorough))
    if (c.get("ct_compiled", 0) + len(run.violations)) * 10 < n_ct * 8:
        run.tool_error(f"vacuous: constants-in-context wrapper compiled for {c.get('ct_compiled', 0)} of {n_ct}")
    n_rec = sum(1 for _, t in fam if t[0] in ("rec", "trec", "ttrec"))
    if n_rec and (c.get("cb_compiled", 0) + len(run.violations)) * 10 < n_rec * 8:
        run.tool_error(f"vacuous: run-time constructor wrapper compiled for {c.get('cb_compiled', 0)} of {n_rec} records")
    if n_rec and c.get("py_forms_done", 0) < n_rec:
        run.tool_error(f"vacuous: constructor forms exercised {c.get('py_forms_done', 0)} times for {n_rec} records")
    n_sn = sum(1 for s_, t in fam if t[0] != "ser" and snapshot_for(s_, t, run.thorough))
    if n_sn and (c.get("sn_compiled", 0) * 10 < n_sn * 8 or c.get("py_snap_done", 0) * 10 < n_sn * 7) and not run.violations:
        run.tool_error(f"vacuous: value-snapshot wrapper compiled for {c.get('sn_compiled', 0)}, Python level done for "
                       f"{c.get('py_snap_done', 0)} of {n_sn} compositions")
    from ..gen.c17_render import ad_eligible
    n_ad = sum(1 for _, t in fam if ad_eligible(t))
    if n_ad and (c.get("py_ad_done", 0) < 3 * n_ad or c.get("ad_compiled", 0) < 2 * n_ad) and not run.violations:
        run.tool_error(f"vacuous: array construction forms: {c.get('py_ad_done', 0)} Python-level / "
                       f"{c.get('ad_compiled', 0)} compiled form instances for {n_ad} compositions with cohdl.Array")
    if c.get("py_ctor_mismatch", 0):
        run.note(f"constructors that did not store the given value (outside C17): {c['py_ctor_mismatch']}")
    run.assume("vsim (own VHDL-2008 subset simulator) implements IEEE 1076/numeric_std semantics")
    run.assume("documented layout: first record field (base class first) / array element 0 at the LSB end; Enum = its "
               "underlying type; S/UFixed[l:r] = raw two's-complement/unsigned * 2**r; Serialized[T] = bits of T; "
               "BitField members = declared ranges, nested bit field at its offset")
    run.assume("Serialized[T] has no count_bits/from_bits (rejected by cohdl): checked through the documented "
               "from_raw / bits / value entry points as a top-level wrapper only")
    evals = sum(c.get(k, 0) for k in ("py_evals", "rt_evals", "ct_evals", "bw_evals"))
    run.coverage_extra.update(
        exhaustive=not run.capped,
        rule="every composition of the C17 family (gen/c17_types.family: atoms; every container kind - cohdl.Array, "
             "std.Array[.,2..3], std.Record with 2-3 fields incl. inherited (every split over 2-3 classes) and templated, "
             "std.Enum/FlagEnum, S/UFixed, BitField incl. nested, Serialized - over the full atom alphabet at nesting 1 and "
             "over reduced-alphabet inner types at nesting 2 (3 in thorough), total width <= "
             f"{10 if run.thorough else 8}) x every bit pattern and every constructor-built value at Python level, every "
             f"input pattern of the compiled round-trip wrapper for qualifiers {list(qualifiers)}"
             + (" (temporary/ref/variable for width <= 7)" if run.thorough else "") +
             ", constants folded in context (all patterns for width<=3, else the position-code patterns), bit field "
             "member writes for every (vector, member value); every record node constructed in every form (k positional "
             "+ every keyword permutation of the rest, copy constructor, Null/Full) x every value, at Python level and in a "
             "compiled wrapper fed from the documented slices"
             + ("" if run.thorough else " (nesting-2 record strata: the 4 most different forms, value qualifier, no "
                                        "constants wrapper)") +
             "; core cohdl.Array (alone, nested, in records): every construction form (default list with 0..n elements, "
             "no argument, Null, Full) as constant / Signal / Variable: to_bits width == count_bits, iteration length == n, "
             "defaulted elements keep their default and driven elements their slice for every input (per-form compiled "
             "wrappers)"
             "; value snapshot: to_bits(v) / Serialized[T](v) / from_bits[T](to_bits(v)) taken from a Variable v and used "
             "after v is assigned again still give the OLD value, for ALL (old, new) pairs, at Python level and in a compiled "
             f"clock-less process (compositions of width <= {4 if run.thorough else 3}; atoms, single-field records and arrays "
             "of atoms one bit wider)"
             "; inherited records: low bits == serialised base class; templated records (incl. inheritance between "
             "template declarations, int and type template arguments) == the identical non-templated record",
        evaluations=evals,
        distinct_nontrivial=c.get("types_with_distinct_outcomes_rt", 0),
        qualifiers=list(qualifiers),
    )


def replay(run: Run, data):
    T = to_tuple(data["abstract_type"])
    sub = data.get("subcheck")
    qualifiers = ("value", "signal", "temporary", "ref", "variable") if sub and sub.startswith("rt.") and \
        sub.split(".")[1] in ("temporary", "ref", "variable") else ("value", "signal")
    status, stats, viols = deep_stack()(check_type, T, qualifiers, True)
    for v in viols:
        if v["key"] == data["key"]:
            print("reproduced:", v["what"])
            return False
    return True

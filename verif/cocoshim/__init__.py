"""A small cocotb-compatible shim that runs the upstream testbenches (tests/reference_builds) against
vsim.  Purpose: validation of the *instrument* (vsim) against designs/testbenches that were validated
upstream with ghdl.  Not used to decide any property.

Only what the upstream tests use is provided: cocotb.test, start_soon/start, Clock, Timer, RisingEdge,
FallingEdge, Edge, ClockCycles, ReadOnly, NextTimeStep, First, Combine, Join, dut.<port>.value,
BinaryValue (integer, signed_integer, binstr, get_value_signed, comparisons).
"""
from __future__ import annotations

import heapq
import importlib
import itertools
import os
import random
import sys
import types
from collections import deque

from ..vhdl.elab import compile_design, from_raw, to_raw
from ..vhdl import rt

STEP_PER_UNIT = {"step": 1, "fs": 1, "ps": 10**3, "ns": 10**6, "us": 10**9, "ms": 10**12, "sec": 10**15, None: 1}


class TestFailure(Exception):
    pass


class SimTimeout(Exception):
    pass


# ----------------------------------------------------------------------------
class BinaryValue:
    def __init__(self, value=None, n_bits=None, bigEndian=True, binaryRepresentation=0, **kw):
        if isinstance(value, str):
            self._s = value
        elif isinstance(value, int):
            n = n_bits or max(1, value.bit_length())
            self._s = format(value & ((1 << n) - 1), f"0{n}b")
        elif value is None:
            self._s = "0" * (n_bits or 1)
        else:
            raise TypeError(value)
        if n_bits and len(self._s) < n_bits:
            self._s = "0" * (n_bits - len(self._s)) + self._s

    @property
    def binstr(self):
        return self._s

    @property
    def n_bits(self):
        return len(self._s)

    @property
    def is_resolvable(self):
        return all(c in "01" for c in self._s)

    @property
    def integer(self):
        if not self.is_resolvable:
            raise ValueError(f"Unresolvable bit in binary string: {self._s!r}")
        return int(self._s, 2)

    value = integer

    @property
    def signed_integer(self):
        v = self.integer
        n = len(self._s)
        return v - (1 << n) if self._s[0] == "1" else v

    def get_value_signed(self):
        return self.signed_integer

    def get_value(self):
        return self.integer

    def __int__(self):
        return self.integer

    def __index__(self):
        return self.integer

    def __bool__(self):
        return any(c == "1" for c in self._s)

    def __eq__(self, other):
        if isinstance(other, BinaryValue):
            other = other.integer
        elif isinstance(other, str):
            return self._s == other
        elif hasattr(other, "value") and not isinstance(other, int):
            return other == self
        return self.integer == other

    def __ne__(self, other):
        return not self.__eq__(other)

    def __hash__(self):
        return hash(self._s)

    def __len__(self):
        return len(self._s)

    def __str__(self):
        return self._s

    def __repr__(self):
        return self._s

    def __getitem__(self, key):
        # cocotb BinaryValue: index 0 = leftmost for big endian default
        if isinstance(key, slice):
            return BinaryValue(self._s[key.start: key.stop + 1] if key.stop is not None else self._s[key.start:])
        return BinaryValue(self._s[key])

    def __lt__(self, o):
        return self.integer < int(o)

    def __le__(self, o):
        return self.integer <= int(o)

    def __gt__(self, o):
        return self.integer > int(o)

    def __ge__(self, o):
        return self.integer >= int(o)

    def __and__(self, o):
        return self.integer & int(o)

    def __or__(self, o):
        return self.integer | int(o)

    def __xor__(self, o):
        return self.integer ^ int(o)

    def __rshift__(self, o):
        return self.integer >> int(o)

    def __lshift__(self, o):
        return self.integer << int(o)

    def __add__(self, o):
        return self.integer + int(o)

    def __radd__(self, o):
        return int(o) + self.integer

    def __sub__(self, o):
        return self.integer - int(o)

    def __invert__(self):
        return BinaryValue("".join("1" if c == "0" else "0" if c == "1" else c for c in self._s))


# ----------------------------------------------------------------------------
class Trigger:
    def __await__(self):
        return (yield self)


class Timer(Trigger):
    def __init__(self, time=1, units="step", *, round_mode=None, time_ps=None):
        self.steps = max(int(round(time * STEP_PER_UNIT[units])), 0) if units != "step" else int(time)
        if self.steps <= 0:
            self.steps = 1


class _EdgeBase(Trigger):
    kind = None

    def __init__(self, handle):
        self.handle = handle


class RisingEdge(_EdgeBase):
    kind = "r"


class FallingEdge(_EdgeBase):
    kind = "f"


class Edge(_EdgeBase):
    kind = "e"


class ReadOnly(Trigger):
    pass


class ReadWrite(Trigger):
    pass


class NextTimeStep(Trigger):
    pass


class ClockCycles(Trigger):
    def __init__(self, handle, num_cycles, rising=True):
        self.handle, self.n, self.rising = handle, num_cycles, rising

    def __await__(self):
        for _ in range(self.n):
            yield (RisingEdge if self.rising else FallingEdge)(self.handle)


class First(Trigger):
    def __init__(self, *triggers):
        self.triggers = triggers


class Combine(Trigger):
    def __init__(self, *triggers):
        self.triggers = triggers

    def __await__(self):
        for t in self.triggers:
            if isinstance(t, Task):
                yield Join(t)
            else:
                yield from t.__await__()
        return self


class Join(Trigger):
    def __init__(self, task):
        self.task = task


class Task:
    _ids = itertools.count()

    def __init__(self, coro):
        self.coro = coro
        self.done_flag = False
        self.result = None
        self.exc = None
        self.waiters = []
        self.id = next(Task._ids)
        self.cancelled = False

    def done(self):
        return self.done_flag

    def kill(self):
        self.cancelled = True
        self.done_flag = True
        try:
            self.coro.close()
        except Exception:
            pass

    cancel = kill

    def join(self):
        return Join(self)

    def __await__(self):
        if not self.done_flag:
            yield Join(self)
        if self.exc is not None:
            raise self.exc
        return self.result


class Handle:
    def __init__(self, sched, name, sid, ty, mode):
        object.__setattr__(self, "_sched", sched)
        object.__setattr__(self, "_name", name)
        object.__setattr__(self, "_sid", sid)
        object.__setattr__(self, "_ty", ty)
        object.__setattr__(self, "_mode", mode)

    def get_definition_name(self):
        return self._name

    @property
    def _path(self):
        return self._name

    @property
    def value(self):
        raw = self._sched.sim.S[self._sid]
        ty = self._ty
        if ty[0] == "sl":
            return BinaryValue("U" if raw == 2 else str(raw))
        if ty[0] == "vec":
            return BinaryValue(rt.v_to_str(raw, ty[2]).replace("X", "U") if raw[1] else format(raw[0], f"0{ty[2]}b") if ty[2] else "")
        if ty[0] == "bool":
            return int(raw)
        return raw

    @value.setter
    def value(self, v):
        if isinstance(v, BinaryValue):
            v = v.binstr if not v.is_resolvable else v.integer
        elif hasattr(v, "value") and not isinstance(v, (int, str)):
            v = v.value
        if self._ty[0] == "vec" and isinstance(v, int) and v < 0:
            v &= (1 << self._ty[2]) - 1
        self._sched.writes[self._sid] = to_raw(self._ty, v)

    def setimmediatevalue(self, v):
        self.value = v

    def __len__(self):
        return self._ty[2] if self._ty[0] == "vec" else 1

    def __le__(self, other):
        # deprecated cocotb syntax: handle <= value  (assignment)
        self.value = other

    def __eq__(self, other):
        return self.value == other

    def __hash__(self):
        return id(self)

    def __int__(self):
        return int(self.value)


class Dut:
    def __init__(self, sched):
        object.__setattr__(self, "_sched", sched)
        object.__setattr__(self, "_handles", {})
        for name, (sid, ty, mode) in sched.sim.ports.items():
            self._handles[name] = Handle(sched, name, sid, ty, mode)
        object.__setattr__(self, "_log", _Log())
        object.__setattr__(self, "_name", sched.sim.d.top)

    def __getattr__(self, name):
        h = self._handles.get(name.lower())
        if h is None:
            raise AttributeError(f"dut has no port {name}")
        return h

    def __setattr__(self, name, v):
        raise AttributeError("assign to dut.<port>.value instead")


class _Log:
    def info(self, *a, **k):
        pass

    debug = warning = error = info


class Scheduler:
    def __init__(self, sim, max_events=5_000_000):
        self.sim = sim
        self.now = 0
        self.seq = itertools.count()
        self.timers = []
        self.ready = deque()
        self.edge_waiters = {}  # sid -> list of (kind, task, bitpath)
        self.ro_waiters = []
        self.writes = {}
        self.max_events = max_events
        self.events = 0
        self.failed = None

    def start(self, coro):
        if isinstance(coro, Task):
            return coro
        t = Task(coro)
        self.ready.append((t, None))
        return t

    def _finish(self, task, result=None, exc=None):
        task.done_flag = True
        task.result = result
        task.exc = exc
        for w in task.waiters:
            self.ready.append((w, None))
        task.waiters = []

    def _register(self, task, trig):
        if isinstance(trig, Timer):
            heapq.heappush(self.timers, (self.now + trig.steps, next(self.seq), task))
        elif isinstance(trig, _EdgeBase):
            self.edge_waiters.setdefault(trig.handle._sid, []).append((trig.kind, task))
        elif isinstance(trig, (ReadOnly, ReadWrite)):
            self.ro_waiters.append(task)
        elif isinstance(trig, NextTimeStep):
            heapq.heappush(self.timers, (self.now + 1, next(self.seq), task))
        elif isinstance(trig, Join):
            if trig.task.done_flag:
                self.ready.append((task, None))
            else:
                trig.task.waiters.append(task)
        elif isinstance(trig, Task):
            if trig.done_flag:
                self.ready.append((task, None))
            else:
                trig.waiters.append(task)
        elif isinstance(trig, First):
            # resume on whichever fires first: register a proxy for each
            fired = []

            def mk(t):
                async def proxy():
                    if isinstance(t, Task):
                        await t
                    else:
                        await t
                    if not fired:
                        fired.append(t)
                        self.ready.append((task, t))
                return proxy()

            for t in trig.triggers:
                self.start(mk(t))
        elif trig is None:
            self.ready.append((task, None))
        else:
            raise TypeError(f"unsupported trigger {trig!r}")

    def _step_task(self, task, send):
        if task.done_flag:
            return
        try:
            trig = task.coro.send(send)
        except StopIteration as e:
            self._finish(task, e.value)
            return
        except BaseException as e:  # noqa
            self._finish(task, None, e)
            if not getattr(task, "is_main", False) and self.failed is None:
                self.failed = e
            return
        self._register(task, trig)

    def run(self, main_coro):
        main = Task(main_coro)
        main.is_main = True
        self.ready.append((main, None))
        sim = self.sim
        while not main.done_flag and self.failed is None:
            self.events += 1
            if self.events > self.max_events:
                raise SimTimeout("event limit")
            if self.ready:
                task, send = self.ready.popleft()
                self._step_task(task, send)
                continue
            if self.writes:
                S = sim.S
                watched = {sid: S[sid] for sid in self.edge_waiters}
                for sid, v in self.writes.items():
                    sim.N[sid] = v
                self.writes = {}
                sim.settle()
                for sid, old in watched.items():
                    new = S[sid]
                    if new != old:
                        keep = []
                        for kind, task in self.edge_waiters[sid]:
                            if kind == "e" or (kind == "r" and new == 1 and old != 1) or (kind == "f" and new == 0 and old != 0):
                                self.ready.append((task, None))
                            else:
                                keep.append((kind, task))
                        self.edge_waiters[sid] = keep
                for sid in [s for s, l in self.edge_waiters.items() if not l]:
                    del self.edge_waiters[sid]
                continue
            if self.ro_waiters:
                for t in self.ro_waiters:
                    self.ready.append((t, None))
                self.ro_waiters = []
                continue
            if not self.timers:
                raise SimTimeout("no pending events but test has not finished (deadlock)")
            t0 = self.timers[0][0]
            self.now = t0
            while self.timers and self.timers[0][0] == t0:
                _, _, task = heapq.heappop(self.timers)
                self.ready.append((task, None))
        if self.failed is not None:
            raise self.failed
        if main.exc is not None:
            raise main.exc
        return main.result


class Clock:
    def __init__(self, signal, period, units="step"):
        self.signal = signal
        self.period = int(round(period * STEP_PER_UNIT[units]))
        self.half = max(self.period // 2, 1)

    async def start(self, cycles=None, start_high=True):
        it = itertools.count() if cycles is None else range(cycles)
        for _ in it:
            self.signal.value = 1 if start_high else 0
            await Timer(self.half)
            self.signal.value = 0 if start_high else 1
            await Timer(self.period - self.half)


# ----------------------------------------------------------------------------
_current = {"sched": None}
_registered = []  # test functions registered by @cocotb.test() during the current import


def _test_decorator(*dargs, **dkw):
    def deco(f):
        _registered.append((f, dkw))
        return f

    if len(dargs) == 1 and callable(dargs[0]) and not dkw:
        return deco(dargs[0])
    return deco


def _start_soon(coro):
    return _current["sched"].start(coro)


async def _start(coro):
    return _current["sched"].start(coro)


class _Any:
    def __init__(self, *a, **k):
        pass

    def __call__(self, *a, **k):
        if len(a) == 1 and callable(a[0]) and not k:
            return a[0]
        return _Any()

    def __getattr__(self, n):
        if n.startswith("__"):
            raise AttributeError(n)
        return _Any()

    def __mro_entries__(self, bases):
        return (object,)


def _stub(name):
    m = types.ModuleType(name)

    def _ga(n):
        if n.startswith("__"):
            raise AttributeError(n)
        return _Any()

    m.__getattr__ = _ga
    m.__path__ = []
    sys.modules[name] = m
    return m


_installed = False


def install():
    global _installed
    if _installed:
        return
    _installed = True
    cocotb = types.ModuleType("cocotb")
    cocotb.__path__ = []
    cocotb.test = _test_decorator
    cocotb.start_soon = _start_soon
    cocotb.start = _start
    cocotb.fork = _start_soon
    cocotb.coroutine = lambda f: f
    trig = types.ModuleType("cocotb.triggers")
    for cls in (Timer, RisingEdge, FallingEdge, Edge, ReadOnly, ReadWrite, NextTimeStep, ClockCycles, First, Combine, Join):
        setattr(trig, cls.__name__, cls)
    clock = types.ModuleType("cocotb.clock")
    clock.Clock = Clock
    binary = types.ModuleType("cocotb.binary")
    binary.BinaryValue = BinaryValue
    cocotb.triggers = trig
    cocotb.clock = clock
    cocotb.binary = binary
    cocotb.log = _Log()
    sys.modules.update({"cocotb": cocotb, "cocotb.triggers": trig, "cocotb.clock": clock, "cocotb.binary": binary})
    for n in ("cocotb.types", "cocotb.handle", "cocotb.utils", "cocotb.result", "cocotb_test", "cocotb_test.simulator",
              "cocotbext", "cocotbext.axi", "cocotbext.spi", "cocotbext.uart"):
        _stub(n)
    if "/repo/tests" not in sys.path:
        sys.path.insert(0, "/repo/tests")


def run_testbench(vhdl_text, tb_funcs, seed=0, top=None, max_events=5_000_000):
    """Run each cocotb-style test coroutine function against a fresh simulation of vhdl_text.
    Returns list of (name, 'pass'|'fail'|'error', message)."""
    d = compile_design(vhdl_text, top)
    results = []
    for f, dkw in tb_funcs:
        if dkw.get("skip"):
            continue
        random.seed(seed)
        sim = d.sim()
        sched = Scheduler(sim, max_events)
        _current["sched"] = sched
        dut = Dut(sched)
        try:
            sched.run(f(dut))
            if sim.A:
                # ghdl continues after severity-error assertions; upstream tests rely on that
                results.append((f.__name__, "pass", f"with VHDL assertion(s): {sorted(set(sim.A))[:3]}"))
            else:
                results.append((f.__name__, "pass", f"t={sched.now} events={sched.events}"))
        except AssertionError as e:
            results.append((f.__name__, "fail", f"AssertionError: {str(e)[:300]} @t={sched.now}"))
        except rt.SimError as e:
            results.append((f.__name__, "simerror", str(e)))
        except SimTimeout as e:
            results.append((f.__name__, "timeout", str(e)))
        except Exception as e:  # noqa
            import traceback

            results.append((f.__name__, "error", "".join(traceback.format_exception(type(e), e, e.__traceback__))[-1500:]))
        finally:
            _current["sched"] = None
    return results


def run_upstream_module(modname, seed=0):
    """Import tests/reference_builds module `modname`, run its unittest methods with
    run_cocotb_tests redirected to vsim.  Returns list of result rows."""
    install()
    from cohdl import std
    import unittest

    rows = []
    for k in [k for k in sys.modules if k == modname]:
        del sys.modules[k]
    del _registered[:]
    mod = importlib.import_module(modname)
    cu = importlib.import_module("cohdl_testutil.cocotb_util")

    def fake_run(entity, file, module, *, no_build=False, build_files=[], extra_env=None, relatilve_vhdl_sources=None,
                 vhdl_sources=None, sim_args=None, **kwargs):
        if relatilve_vhdl_sources or vhdl_sources or build_files:
            rows.append((modname, entity.__name__, "skip", "external vhdl sources"))
            return
        text = std.VhdlCompiler.to_string(entity)
        saved = {}
        for k, v in (extra_env or {}).items():
            saved[k] = os.environ.get(k)
            os.environ[k] = v
        try:
            # the simulator process re-imports the test module: do the same to pick up extra_env
            del _registered[:]
            spec = importlib.util.spec_from_file_location(modname + "__tb", mod.__file__)
            tbmod = importlib.util.module_from_spec(spec)
            sys.modules[spec.name] = tbmod
            try:
                spec.loader.exec_module(tbmod)
            finally:
                sys.modules.pop(spec.name, None)
            tbs = list(_registered)
            for name, status, msg in run_testbench(text, tbs, seed=seed, top=entity.__name__):
                rows.append((modname, f"{entity.__name__}:{name}", status, msg))
        finally:
            for k, v in saved.items():
                if v is None:
                    os.environ.pop(k, None)
                else:
                    os.environ[k] = v

    orig = cu.run_cocotb_tests
    cu.run_cocotb_tests = fake_run
    try:
        for cname, cls in list(vars(mod).items()):
            if isinstance(cls, type) and issubclass(cls, unittest.TestCase):
                for m in sorted(n for n in dir(cls) if n.startswith("test")):
                    inst = cls(m)
                    try:
                        getattr(inst, m)()
                    except unittest.SkipTest:
                        rows.append((modname, m, "skip", "unittest skip"))
                    except BaseException as e:  # noqa
                        if isinstance(e, (KeyboardInterrupt, SystemExit)):
                            raise
                        import traceback

                        rows.append((modname, m, "harness-error", "".join(traceback.format_exception(type(e), e, e.__traceback__))[-1200:]))
    finally:
        cu.run_cocotb_tests = orig
    return rows

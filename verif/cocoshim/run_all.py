"""Run every upstream reference testbench through vsim (instrument validation).

usage: python -m verif.cocoshim.run_all [pattern] [--seed N]
"""
from __future__ import annotations

import os
import sys
import json

from ..core import pmap

ROOT = "/repo/tests/reference_builds"
SKIP_PREFIX = ("reference_builds.std.axi", "reference_builds.std.spi")


def modules(pattern=None):
    out = []
    for dp, dn, fn in os.walk(ROOT):
        dn.sort()
        for f in sorted(fn):
            if f.startswith("test_") and f.endswith(".py"):
                mod = os.path.relpath(os.path.join(dp, f), "/repo/tests")[:-3].replace("/", ".")
                if mod.startswith(SKIP_PREFIX):
                    continue
                if pattern and pattern not in mod:
                    continue
                out.append(mod)
    return out


def run_one(task):
    mod, seed = task
    import io
    import contextlib

    from . import run_upstream_module

    buf = io.StringIO()
    with contextlib.redirect_stdout(buf):
        try:
            rows = run_upstream_module(mod, seed)
        except BaseException as e:  # noqa
            import traceback

            rows = [(mod, "-", "import-error", "".join(traceback.format_exception(type(e), e, e.__traceback__))[-1500:])]
    return rows


def main(argv):
    pattern = None
    seed = 0
    args = list(argv)
    while args:
        a = args.pop(0)
        if a == "--seed":
            seed = int(args.pop(0))
        else:
            pattern = a
    mods = modules(pattern)
    allrows = []
    # maxtasksperchild=1 semantics: module-level state of cohdl / test modules must not leak -> one task per fork
    for kind, res in pmap(run_one, [(m, seed) for m in mods]):
        if kind != "ok":
            allrows.append(("?", "?", "pool-" + kind, res))
        else:
            allrows.extend(res)
    import collections

    cnt = collections.Counter(r[2] for r in allrows)
    for r in sorted(allrows):
        if r[2] != "pass":
            print(r[0], r[1], r[2])
            print("    " + r[3].replace("\n", "\n    ")[-1200:])
    print(dict(cnt), "modules:", len(mods))
    return allrows


if __name__ == "__main__":
    main(sys.argv[1:])

"""setup_cmd: nothing to build; sanity-check the trusted base (vsim) from files on disk.

  python -m verif.selftest --quick    numeric_std cross-check for small widths + a vsim smoke test
  python -m verif.selftest --full     + every upstream reference testbench through the cocotb shim
"""
from __future__ import annotations

import sys


def smoke():
    from .vhdl.elab import compile_design

    text = """
library ieee;
use ieee.std_logic_1164.all;
use ieee.numeric_std.all;
entity t is
  port ( clk : in std_logic; a : in unsigned(2 downto 0); q : out unsigned(2 downto 0) );
end t;
architecture arch_t of t is
  signal r : unsigned(2 downto 0) := unsigned'("000");
begin
  q <= r;
  p: process(clk)
  begin
    if rising_edge(clk) then
      r <= (r) + (a);
    end if;
  end process;
end architecture arch_t;
"""
    d = compile_design(text)
    assert not d.findings, d.findings
    s = d.sim()
    acc = 0
    for i in range(20):
        s.set("a", i % 8)
        s.clock()
        acc = (acc + i % 8) % 8
        assert s.get("q") == acc, (i, s.get("q"), acc)


def main(argv):
    smoke()
    from .vhdl import selfcheck_numeric

    n = selfcheck_numeric.run(3 if "--full" not in argv else 4)
    from .vhdl import selfcheck_rules

    m = selfcheck_rules.run()
    print(f"selftest: vsim smoke ok; numeric_std fast vs bit-serial agree on {n} cases; {m} static-rule cases ok")
    if "--full" in argv:
        from .cocoshim import run_all

        rows = run_all.main([])
        bad = [r for r in rows if r[2] not in ("pass", "skip")]
        # test_sfixed/test_ufixed 'test_concurrent' write a file into the repo tree: not run
        bad = [r for r in bad if not (r[2] == "harness-error" and "test_fixed_math.vhd" in r[3])]
        if bad:
            print("upstream testbench failures under vsim:", len(bad))
            return 1
    return 0


if __name__ == "__main__":
    sys.exit(main(sys.argv[1:]))

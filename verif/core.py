"""Common run/evidence/violation plumbing shared by all checks.

A check module (verif/checks/Cxx.py) exposes

    LEVEL = "model_checking" | "exploration"
    def main(run: Run) -> None          # explore, call run.violation(...) / run.count(...)
    def replay(run: Run, data: dict)    # optional: re-execute a replay file without the explorer

The runner creates the Run, calls main, then run.finish() which writes the
evidence file and decides the exit code:
    0  property held on everything explored (KNOWN-FINDING lines allowed)
    1  at least one violation not listed in known_findings.json
    2  tool error (never a verdict)
"""
from __future__ import annotations

import fnmatch
import hashlib
import json
import multiprocessing as mp
import os
import random
import sys
import time
import traceback

ROOT = os.path.dirname(os.path.dirname(os.path.abspath(__file__)))
EVIDENCE_DIR = os.path.join(ROOT, "evidence")
REPLAY_DIR = os.path.join(ROOT, "replays")
KNOWN_FILE = os.path.join(ROOT, "known_findings.json")
NCPU = int(os.environ.get("VERIF_JOBS", "16"))


class ToolError(Exception):
    """The machinery itself failed (unsupported VHDL, replay divergence, vacuity)."""


def load_known():
    try:
        with open(KNOWN_FILE) as f:
            d = json.load(f)
    except FileNotFoundError:
        d = {}
    out = list(d.get("findings", []))
    ddir = os.path.join(ROOT, "known_findings.d")
    if os.path.isdir(ddir):
        for fn in sorted(os.listdir(ddir)):
            if fn.endswith(".json"):
                with open(os.path.join(ddir, fn)) as f:
                    out.extend(json.load(f).get("findings", []))
    return out


def repo_commit():
    try:
        import subprocess

        return subprocess.run(
            ["git", "-C", "/repo", "rev-parse", "HEAD"], capture_output=True, text=True
        ).stdout.strip()
    except Exception:
        return "?"


class Run:
    def __init__(self, pid: str, tier: str, seed: int, level: str):
        self.pid = pid
        self.tier = tier
        self.seed = seed
        self.level = level
        self.t0 = time.time()
        self.counters: dict[str, int] = {}
        self.samples: list = []
        self.max_samples = 6
        self.assumptions: list[str] = []
        self.coverage_extra: dict = {}
        self.violations: dict[str, dict] = {}  # key -> info (deduplicated)
        self.known_hits: dict[str, str] = {}
        self.known = [k for k in load_known() if k.get("property") == pid]
        self.tool_errors: list[str] = []
        self.rng = random.Random(seed)
        self.capped = False
        self.notes: list[str] = []

    # ---- bookkeeping -------------------------------------------------
    @property
    def thorough(self):
        return self.tier == "thorough"

    def count(self, name, n=1):
        self.counters[name] = self.counters.get(name, 0) + n

    def merge_counts(self, d: dict):
        for k, v in d.items():
            if isinstance(v, (int, float)):
                self.counters[k] = self.counters.get(k, 0) + v

    def cmax(self, name, v):
        if v > self.counters.get(name, 0):
            self.counters[name] = v

    def sample(self, obj, force=False):
        if force or len(self.samples) < self.max_samples:
            self.samples.append(obj)

    def assume(self, text):
        if text not in self.assumptions:
            self.assumptions.append(text)

    def note(self, text):
        self.notes.append(text)

    def tool_error(self, text):
        self.tool_errors.append(text)
        print(f"TOOL-ERROR property={self.pid} {text}", flush=True)

    # ---- violations --------------------------------------------------
    def _known_match(self, key):
        for k in self.known:
            pat = k.get("key", "")
            if pat == key or (k.get("glob") and fnmatch.fnmatchcase(key, pat)):
                return k
        return None

    def violation(self, key: str, what: str, replay: dict | None = None):
        """Report a violation identified by `key` (canonical identity of the failing input)."""
        k = self._known_match(key)
        if k is not None:
            kid = k.get("key", key)
            self.known_instances = getattr(self, "known_instances", 0) + 1
            if kid not in self.known_hits:
                # one line per listed finding (a glob entry = one root cause with many instances)
                self.known_hits[kid] = k.get("what", what)
                print(f"KNOWN-FINDING: property={self.pid} {k.get('what', what)} [key={kid}; first instance: {key}]", flush=True)
            return
        if key in self.violations:
            return
        data = {"property": self.pid, "key": key, "what": what, "cohdl_commit": repo_commit()}
        if replay:
            data.update(replay)
        os.makedirs(REPLAY_DIR, exist_ok=True)
        h = hashlib.sha1(key.encode()).hexdigest()[:12]
        path = os.path.join(REPLAY_DIR, f"{self.pid}-{h}.json")
        with open(path, "w") as f:
            json.dump(data, f, indent=1, default=str)
        self.violations[key] = data
        # keep the output readable: print at most 25 VIOLATION lines
        if len(self.violations) <= 25:
            print(f"VIOLATION property={self.pid} replay={path}", flush=True)
            print(f"  what: {what} [key={key}]", flush=True)

    # ---- end ---------------------------------------------------------
    def finish(self, coverage: dict | None = None) -> int:
        cov = dict(self.counters)
        cov.update(self.coverage_extra)
        if coverage:
            cov.update(coverage)
        cov.setdefault("samples", self.samples if self.samples else ["<none>"])
        if self.capped:
            cov["capped"] = True
            cov["exhaustive"] = False
        cov["known_findings_seen"] = sorted(self.known_hits)
        if self.notes:
            cov["notes"] = self.notes[:50]
        ev = {
            "property_id": self.pid,
            "tier": self.tier,
            "seed": self.seed,
            "level": self.level,
            "coverage": cov,
            "assumptions": self.assumptions,
            "wall_s": round(time.time() - self.t0, 2),
            "violations": len(self.violations),
            "tool_errors": self.tool_errors[:20],
            "cohdl_commit": repo_commit(),
        }
        os.makedirs(EVIDENCE_DIR, exist_ok=True)
        with open(os.path.join(EVIDENCE_DIR, f"{self.pid}.json"), "w") as f:
            json.dump(ev, f, indent=1, default=str)
        brief = {k: v for k, v in cov.items() if isinstance(v, (int, float, bool))}
        print(f"[{self.pid}] tier={self.tier} seed={self.seed} wall={ev['wall_s']}s violations={len(self.violations)} "
              f"known={len(self.known_hits)} {brief}", flush=True)
        # a run that found (replay-confirmed) violations reports them even if a vacuity guard or a secondary tool
        # error fired on top (those are usually consequences of the same breakage)
        if self.violations:
            return 1
        if self.tool_errors:
            return 2
        return 0


# ---------------------------------------------------------------------
# deep_call: run f(*a) below one frame with ~140k unused local slots.  CPython 3.12 keeps frames on a per-thread data
# stack of 16 KiB chunks that are mmap'd/munmap'd as the recursion depth oscillates across chunk boundaries; cohdl's
# recursive AST interpreter does that thousands of times per compile (about 90 % of its wall time on a loaded machine).
# With one huge frame CPython allocates a single big chunk and all nested frames live in its tail.  Pure performance
# device: semantics of f are untouched.
# ---------------------------------------------------------------------
_BIG = None


def _tpl(f, *a):
    return f(*a)


def deep_call(f, *a):
    global _BIG
    if _BIG is None:
        import types

        c = _tpl.__code__
        names = c.co_varnames + tuple(f"_pad{i}" for i in range(140000))
        _BIG = types.FunctionType(c.replace(co_varnames=names, co_nlocals=len(names)), globals())
    return _BIG(f, *a)


# ---------------------------------------------------------------------
# process pool helper: tasks are picklable; func(task) -> result dict
# ---------------------------------------------------------------------
_pool_func = None


def _pool_init(func_path, seed):
    global _pool_func
    mod, name = func_path
    import importlib

    m = importlib.import_module(mod)
    _pool_func = getattr(m, name)
    random.seed(seed)


def _pool_call(task):
    try:
        return ("ok", deep_call(_pool_func, task))
    except ToolError as e:
        return ("tool", f"{e}")
    except BaseException as e:  # noqa
        return ("exc", "".join(traceback.format_exception(type(e), e, e.__traceback__))[-3000:])


def pmap(func, tasks, jobs=None, chunksize=1, seed=0):
    """Ordered-agnostic parallel map. func must be a module-level function.
    Yields ("ok", result) | ("tool", msg) | ("exc", traceback)."""
    tasks = list(tasks)
    jobs = jobs or NCPU
    deep_call(int)  # build the big frame once in the parent (inherited by forked workers)
    if jobs <= 1 or len(tasks) <= 1:
        for t in tasks:
            global _pool_func
            _pool_func = func
            yield _pool_call(t)
        return
    ctx = mp.get_context("fork")
    with ctx.Pool(min(jobs, len(tasks)), initializer=_pool_init,
                  initargs=((func.__module__, func.__name__), seed), maxtasksperchild=None) as pool:
        for r in pool.imap_unordered(_pool_call, tasks, chunksize=chunksize):
            yield r


def chunked(seq, n):
    buf = []
    for x in seq:
        buf.append(x)
        if len(buf) >= n:
            yield buf
            buf = []
    if buf:
        yield buf

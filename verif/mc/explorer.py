"""Explicit-state breadth-first explorer over a closed system (DUT x reference x environment).

A system object provides
    snapshot() -> hashable        full state of all components (no abstraction)
    restore(snap)
    choices() -> list             finite menu of environment choices enabled in the current state
    apply(choice) -> None | str   perform one transition on every component; return a violation text or None
    observe() -> hashable         (optional) observable outputs, used only for the vacuity statistic

Every component is deterministic given the choice, so equal snapshots have equal futures and merging
them is sound.  BFS order yields shortest counterexamples.  A counterexample trace is re-executed from
the initial state by `replay` before it is reported (a divergence is a ToolError).
"""
from __future__ import annotations

from collections import deque

from ..core import ToolError


class Result:
    __slots__ = ("states", "transitions", "depth", "violation", "trace", "exhausted", "observations", "deadlocks")

    def __init__(self):
        self.states = 0
        self.transitions = 0
        self.depth = 0
        self.violation = None
        self.trace = None
        self.exhausted = False
        self.observations = set()
        self.deadlocks = 0

    def as_dict(self):
        return {"states": self.states, "transitions": self.transitions, "depth": self.depth,
                "exhausted": self.exhausted, "distinct_observations": len(self.observations)}


def bfs(system, max_states=200_000, max_depth=None, stop_at_first=True, on_state=None):
    """Explore all reachable states.  Returns Result.  If a violation is found, Result.violation is the
    message and Result.trace the list of choices from the initial state."""
    res = Result()
    init = system.snapshot()
    parent = {init: None}
    queue = deque([(init, 0)])
    res.states = 1
    observe = getattr(system, "observe", None)
    while queue:
        snap, depth = queue.popleft()
        if depth > res.depth:
            res.depth = depth
        if max_depth is not None and depth >= max_depth:
            continue
        system.restore(snap)
        menu = system.choices()
        if not menu:
            res.deadlocks += 1
        for ch in menu:
            system.restore(snap)
            msg = system.apply(ch)
            res.transitions += 1
            if msg is not None:
                res.violation = msg
                res.trace = _trace(parent, snap) + [ch]
                if stop_at_first:
                    return res
                continue
            nxt = system.snapshot()
            if observe is not None and len(res.observations) < 100000:
                res.observations.add(observe())
            if nxt not in parent:
                parent[nxt] = (snap, ch)
                res.states += 1
                if on_state is not None:
                    on_state(system, nxt, depth + 1)
                if res.states > max_states:
                    res.exhausted = False
                    return res
                queue.append((nxt, depth + 1))
    res.exhausted = max_depth is None
    return res


def _trace(parent, snap):
    out = []
    while parent[snap] is not None:
        snap, ch = parent[snap]
        out.append(ch)
    out.reverse()
    return out


def replay(system_factory, trace):
    """Re-execute a trace on a fresh system.  Returns the violation message of the last step (or None)."""
    system = system_factory()
    msg = None
    for i, ch in enumerate(trace):
        menu = system.choices()
        if ch not in menu:
            raise ToolError(f"replay divergence: choice {ch!r} not enabled at step {i}")
        msg = system.apply(ch)
        if msg is not None and i != len(trace) - 1:
            raise ToolError(f"replay divergence: violation at step {i} before the end of the trace: {msg}")
    return msg

"""C20: enumeration of the documented constructor / generic options of the public register classes of cohdl.std.reg.

Every code names ONE register object with one option valuation.  The layout is always

    0x0  unmapped,  0x4.. the object,  directly behind it a sentinel MemWord,  rest of the 5-bit window unmapped

and is swept by a sequential master with ALL 16 write strobes and both data words on every word of the object (see
`sweep` in verif/checks/C20.py); hardware-side values are observed on output ports bit-exactly, hardware-driven values
come from input ports (two values each).  Memories are checked through the bus only (their documented write latency
depends on the options, the array is not a port).

codes
    word:<cls>[:d]            cls in Word UWord SWord MemWord MemUWord MemSWord; d = `_config_(default)` given
    out:<w>:<mode>            reg32.Output on a w-bit signal; mode plain | lsbs | msbs | o<offset>p<padding>
    in:<w>:<mode>             reg32.Input, same options
    mem:<mask>:<u>:<i>:<n>:<init>   reg32.Memory[0x4 : 0x4+4n]; mask IMMEDIATE|IGNORE|READBACK|SPLIT_WORDS;
                              u = allow_unaligned (0/1, 1 only with SPLIT_WORDS); i = inline (0/1); init null|full|list|none*
                              (*none only where every word is written before it is read: not enumerated, reads of an
                              uninitialised memory have no documented value)
    rom:<mask>:<i>            reg32.RoMemory[0x4:0xC] with initial list
    reg:<variant>             reg32.Register variants (fields of every class, widths, single bits, defaults, notifications)
    gen:<variant>             reg32.GenericRegister with user _on_read_/_on_write_ (plain | async)
    rng:<variant>             reg32.AddrRange with global (`_on_read_/_on_write_`) or relative handlers

Reference semantics: reg.pyi (class docs, MaskMode docs incl. their pseudo code), upstream tests/mocks
(test_axilite_reg_06/08/09/10 MemMock: masked write `(old & ~mask) | (data & mask)`, IGNORE stores the whole word,
unaligned dword access = bytes addr..addr+3, unmapped/write-only reads 0), Input._config_ asserts + names
(width + offset + padding == 32; offset = zero bits below the signal, padding = zero bits above; lsbs/msbs).
"""
from __future__ import annotations

from .c20_layouts import HEADER

ADDR_WIDTH = 5
BASE = 0x4
INIT_LIST = (0x10203040, 0x55667788, 0x9ABCDEF0, 0x0F1E2D3C)
HWV = {32: (0x89ABCDEF, 0x13572468), 16: (0xBEEF, 0x1234), 12: (0xABC, 0x123), 8: (0xA5, 0x3C), 4: (0xA, 0x5), 1: (1, 0)}


def codes_quick():
    out = []
    out += [f"word:{c}" for c in ("Word", "UWord", "SWord", "MemWord", "MemUWord", "MemSWord")]
    out += [f"word:{c}:d" for c in ("MemWord", "MemUWord", "MemSWord")]
    for kind in ("out", "in"):
        out.append(f"{kind}:32:plain")
        for w in (16, 8):
            r = 32 - w
            out += [f"{kind}:{w}:lsbs", f"{kind}:{w}:msbs", f"{kind}:{w}:o4p{r - 4}", f"{kind}:{w}:o{r - 4}p4", f"{kind}:{w}:o{r // 2}p{r // 2}"]
    for mask in ("IMMEDIATE", "IGNORE", "READBACK", "SPLIT_WORDS"):
        for inline in (0, 1):
            out.append(f"mem:{mask}:0:{inline}:{3 if inline else 2}:{'list' if inline else 'null'}")
    out += ["mem:SPLIT_WORDS:1:0:3:list", "mem:SPLIT_WORDS:1:1:2:null"]
    out += ["rom:IMMEDIATE:0", "rom:SPLIT_WORDS:1"]
    out += [f"reg:{v}" for v in ("mem", "defaults", "hw", "notify", "bits", "enum", "wcount", "reverse")]
    out += ["gen:plain", "gen:async", "rng:global", "rng:relative"]
    return out


def codes_thorough():
    out = list(codes_quick())
    for kind in ("out", "in"):
        for w in (12, 4, 1):
            r = 32 - w
            out += [f"{kind}:{w}:lsbs", f"{kind}:{w}:msbs", f"{kind}:{w}:o1p{r - 1}", f"{kind}:{w}:o{r - 9}p9"]
    for mask in ("IMMEDIATE", "IGNORE", "READBACK", "SPLIT_WORDS"):
        for inline in (0, 1):
            for n in (2, 3, 4):
                for init in ("null", "full", "list"):
                    out.append(f"mem:{mask}:0:{inline}:{n}:{init}")
    for inline in (0, 1):
        for n in (2, 3, 4):
            for init in ("null", "list"):
                out.append(f"mem:SPLIT_WORDS:1:{inline}:{n}:{init}")
    out += ["rom:IMMEDIATE:1", "rom:SPLIT_WORDS:0", "rom:IGNORE:0", "rom:READBACK:0"]
    seen, res = set(), []
    for c in out:
        if c not in seen:
            seen.add(c)
            res.append(c)
    return res


# ----------------------------------------------------------------------------------------------------------
def _mem_field(name, hi, lo, port, default=0, kind="mem"):
    return {"name": name, "hi": hi, "lo": lo, "kind": kind, "port": port, "default": default}


def build(code):
    p = code.split(":")
    kind = p[0]
    classes = []  # class source texts
    ann = None  # annotation of the object member `obj` in Map
    cfg = []  # lines in Map._config_
    hook = []  # lines in Map._impl_concurrent_
    seq = []  # lines in Map._impl_sequential_ (hardware side)
    ports = []  # (name, direction, type text)
    regs = []
    hw = []
    words = 1

    def word_reg(name, addr, fields, cls, **kw):
        d = {"name": name, "addr": addr, "cls": cls, "notify": [], "fields": fields}
        d.update(kw)
        return d

    if kind == "word":
        cls = p[1]
        has_default = len(p) > 2
        dtxt, default = {"MemWord": ("Full", 0xFFFFFFFF), "MemUWord": ("1234", 1234), "MemSWord": ("-5", 0xFFFFFFFB)}.get(cls, ("Null", 0))
        if not has_default:
            default = 0
        ann = f"reg32.{cls}[0x{BASE:x}]"
        if has_default:
            cfg.append(f"self.obj._config_({dtxt})")
        if cls.startswith("Mem"):
            ports.append(("o_obj", "out", "BitVector[32]"))
            hook.append("self._e.o_obj <<= self.obj.raw" + ("" if cls == "MemWord" else ".bitvector"))
            regs.append(word_reg("obj", BASE, [_mem_field("raw", 31, 0, "o_obj", default)], cls))
        else:
            ports.append(("hw_obj", "in", "BitVector[32]"))
            conv = {"Word": "", "UWord": ".unsigned", "SWord": ".signed"}[cls]
            hook.append(f"self.obj <<= self._e.hw_obj{conv}")
            hw.append(("hw_obj", 32, HWV[32]))
            regs.append(word_reg("obj", BASE, [{"name": "raw", "hi": 31, "lo": 0, "kind": "hw", "hw": "hw_obj"}], cls))
    elif kind in ("out", "in"):
        w = int(p[1])
        mode = p[2]
        if mode == "plain":
            args, off = "", 0
        elif mode == "lsbs":
            args, off = ", lsbs=True", 0
        elif mode == "msbs":
            args, off = ", msbs=True", 32 - w
        else:
            o, pad = mode[1:].split("p")
            off = int(o)
            args = f", offset={off}, padding={int(pad)}"
            assert w + off + int(pad) == 32
        if kind == "out":
            ann = f"reg32.Output[0x{BASE:x}]"
            ports.append(("o_obj", "out", f"BitVector[{w}], default=Null"))
            cfg.append(f"self.obj._config_(e.o_obj{args})")
            regs.append(word_reg("obj", BASE, [_mem_field("sig", off + w - 1, off, "o_obj")], "Output", writeonly=True))
        else:
            ann = f"reg32.Input[0x{BASE:x}]"
            ports.append(("hw_obj", "in", f"BitVector[{w}]"))
            cfg.append(f"self.obj._config_(e.hw_obj{args})")
            hw.append(("hw_obj", w, HWV[w]))
            regs.append(word_reg("obj", BASE, [{"name": "sig", "hi": off + w - 1, "lo": off, "kind": "hw", "hw": "hw_obj"}], "Input"))
    elif kind in ("mem", "rom"):
        if kind == "mem":
            mask, unal, inline, n, init = p[1], int(p[2]), int(p[3]), int(p[4]), p[5]
        else:
            mask, unal, inline, n, init = p[1], 0, int(p[2]), 2, "list"
        words = n
        cname = "Memory" if kind == "mem" else "RoMemory"
        ann = f"reg32.{cname}[0x{BASE:x}:0x{BASE + 4 * n:x}]"
        if init == "null":
            itxt, ivals = "Null", [0] * n
        elif init == "full":
            itxt, ivals = "Full", [0xFFFFFFFF] * n
        else:
            itxt = "[" + ", ".join(f"Unsigned[32]({v})" for v in INIT_LIST[:n]) + "]"
            ivals = list(INIT_LIST[:n])
        opts = f"initial={itxt}, mask_mode=reg32.Memory.MaskMode.{mask}, inline={bool(inline)}"
        if kind == "mem":
            opts += f", allow_unaligned={bool(unal)}"
        cfg.append(f"self.obj._config_({opts})")
        fk = "const" if kind == "rom" else ("mem_nomask" if mask == "IGNORE" else "mem")
        for k in range(n):
            r = word_reg(f"obj[{k}]", BASE + 4 * k, [_mem_field("w", 31, 0, None, ivals[k], fk)], cname)
            if unal:
                r["unaligned"] = True
            regs.append(r)
    elif kind == "reg":
        v = p[1]
        ann = f"Rg[0x{BASE:x}]"
        if v == "mem":
            classes.append('''
class Rg(reg32.Register):
    a: reg32.MemField[7:0, Null]
    b: reg32.MemUField[14:8, Null]
    c: reg32.MemSField[23:17, Null]
    f: reg32.FlagField[31]
''')
            ports += [("o_a", "out", "BitVector[8]"), ("o_b", "out", "BitVector[7]"), ("o_c", "out", "BitVector[7]"), ("o_f", "out", "Bit")]
            hook += ["self._e.o_a <<= self.obj.a.val()", "self._e.o_b <<= self.obj.b.val().bitvector",
                     "self._e.o_c <<= self.obj.c.val().bitvector", "self._e.o_f <<= self.obj.f.is_set()"]
            regs.append(word_reg("obj", BASE, [_mem_field("a", 7, 0, "o_a"), _mem_field("b", 14, 8, "o_b"), _mem_field("c", 23, 17, "o_c"),
                                               {"name": "f", "hi": 31, "lo": 31, "kind": "flag", "port": "o_f", "clear": "hw_never"}], "Register"))
            ports.append(("hw_never", "in", "Bit"))
            hw.append(("hw_never", 1, (0,)))
            seq += ["if self._e.hw_never:", "    self.obj.f.clear()"]
        elif v == "defaults":
            classes.append('''
class Rg(reg32.Register):
    a: reg32.MemField[15:0, Full]
    b: reg32.MemUField[19:16, 5]
    c: reg32.MemSField[27:20, -3]
    d: reg32.MemField[28, True]
''')
            ports += [("o_a", "out", "BitVector[16]"), ("o_b", "out", "BitVector[4]"), ("o_c", "out", "BitVector[8]"), ("o_d", "out", "Bit")]
            hook += ["self._e.o_a <<= self.obj.a.val()", "self._e.o_b <<= self.obj.b.val().bitvector",
                     "self._e.o_c <<= self.obj.c.val().bitvector", "self._e.o_d <<= self.obj.d.val()"]
            regs.append(word_reg("obj", BASE, [_mem_field("a", 15, 0, "o_a", 0xFFFF), _mem_field("b", 19, 16, "o_b", 5),
                                               _mem_field("c", 27, 20, "o_c", 0xFD), _mem_field("d", 28, 28, "o_d", 1)], "Register"))
        elif v == "hw":
            classes.append('''
class Rg(reg32.Register):
    a: reg32.Field[11:4]
    b: reg32.UField[19:12]
    c: reg32.SField[27:20]
    d: reg32.Field[0]
    m: reg32.MemField[3:1, Null]
''')
            ports += [("hw_a", "in", "BitVector[8]"), ("hw_b", "in", "BitVector[8]"), ("hw_c", "in", "BitVector[8]"), ("hw_d", "in", "Bit"),
                      ("o_m", "out", "BitVector[3]")]
            hook += ["self.obj.a <<= self._e.hw_a", "self.obj.b <<= self._e.hw_b.unsigned", "self.obj.c <<= self._e.hw_c.signed",
                     "self.obj.d <<= self._e.hw_d", "self._e.o_m <<= self.obj.m.val()"]
            hw += [("hw_a", 8, HWV[8]), ("hw_b", 8, (0x81, 0x7E)), ("hw_c", 8, (0xF0, 0x0F)), ("hw_d", 1, (1, 0))]
            regs.append(word_reg("obj", BASE, [{"name": "a", "hi": 11, "lo": 4, "kind": "hw", "hw": "hw_a"},
                                               {"name": "b", "hi": 19, "lo": 12, "kind": "hw", "hw": "hw_b"},
                                               {"name": "c", "hi": 27, "lo": 20, "kind": "hw", "hw": "hw_c"},
                                               {"name": "d", "hi": 0, "lo": 0, "kind": "hw", "hw": "hw_d"},
                                               _mem_field("m", 3, 1, "o_m")], "Register"))
        elif v == "notify":
            classes.append('''
class Rg(reg32.Register):
    a: reg32.MemField[31:0, Null]
    pw: reg32.PushOnNotify.Write
    pr: reg32.PushOnNotify.Read
    fw: reg32.FlagOnNotify.Write
    fr: reg32.FlagOnNotify.Read
''')
            ports += [("o_a", "out", "BitVector[32]"), ("o_pw", "out", "Bit"), ("o_pr", "out", "Bit"), ("o_fw", "out", "Bit"), ("o_fr", "out", "Bit")]
            hook += ["self._e.o_a <<= self.obj.a.val()", "self._e.o_pw <<= bool(self.obj.pw)", "self._e.o_pr <<= bool(self.obj.pr)",
                     "self._e.o_fw <<= bool(self.obj.fw)", "self._e.o_fr <<= bool(self.obj.fr)"]
            r = word_reg("obj", BASE, [_mem_field("a", 31, 0, "o_a"),
                                       {"name": "fw", "hi": -1, "lo": 0, "kind": "wflag", "port": "o_fw", "default": 0},
                                       {"name": "fr", "hi": -1, "lo": 0, "kind": "rflag", "port": "o_fr", "default": 0}], "Register")
            r["notify"] = [("write", "o_pw"), ("read", "o_pr")]
            regs.append(r)
        elif v == "bits":
            classes.append('''
class Rg(reg32.Register):
    b0: reg32.MemField[0, False]
    b7: reg32.MemField[7, False]
    b8: reg32.MemField[8, True]
    b15: reg32.FlagField[15]
    b16: reg32.FlagField[16]
    n: reg32.MemUField[30:24, Null]
''')
            ports += [("o_b0", "out", "Bit"), ("o_b7", "out", "Bit"), ("o_b8", "out", "Bit"), ("o_b15", "out", "Bit"), ("o_b16", "out", "Bit"),
                      ("o_n", "out", "BitVector[7]"), ("hw_never", "in", "Bit")]
            hook += ["self._e.o_b0 <<= self.obj.b0.val()", "self._e.o_b7 <<= self.obj.b7.val()", "self._e.o_b8 <<= self.obj.b8.val()",
                     "self._e.o_b15 <<= self.obj.b15.is_set()", "self._e.o_b16 <<= self.obj.b16.is_set()",
                     "self._e.o_n <<= self.obj.n.val().bitvector"]
            hw.append(("hw_never", 1, (0,)))
            seq += ["if self._e.hw_never:", "    self.obj.b15.clear()", "    self.obj.b16.clear()"]
            regs.append(word_reg("obj", BASE, [_mem_field("b0", 0, 0, "o_b0", 0), _mem_field("b7", 7, 7, "o_b7", 0), _mem_field("b8", 8, 8, "o_b8", 1),
                                               {"name": "b15", "hi": 15, "lo": 15, "kind": "flag", "port": "o_b15", "clear": "hw_never"},
                                               {"name": "b16", "hi": 16, "lo": 16, "kind": "flag", "port": "o_b16", "clear": "hw_never"},
                                               _mem_field("n", 30, 24, "o_n")], "Register"))
        elif v == "enum":
            # as upstream test_axilite_reg_05: fields with std.Enum underlying types (position = first generic argument)
            classes.append('''
class EnumA(std.Enum[BitVector[3]]):
    null = Null
    center = std.Enum("010")
    full = "111"


class EnumB(std.Enum[Unsigned[4]]):
    a = 1
    b = std.Enum(5)
    c = std.Enum(Full)


class EnumC(std.Enum[Signed[5]]):
    a = 0
    b = -1
    c = 3, "info string"


class Rg(reg32.Register):
    field_a: reg32.Field[0, EnumA]
    field_b: reg32.MemField[8, EnumB]
    field_c: reg32.Field[16, EnumC, EnumC.b]

    def _impl_concurrent_(self) -> None:
        self.field_a <<= EnumA.center
        self.field_c <<= EnumC.c
''')
            regs.append(word_reg("obj", BASE, [_mem_field("a", 2, 0, None, 0b010, "const"), _mem_field("b", 11, 8, None, 1),
                                               _mem_field("c", 20, 16, None, 3, "const")], "Register"))
        elif v == "wcount":
            # as upstream test_axilite_addr_map_entity_01 RegWrCnt: _on_write_ override + Register.__call__
            classes.append('''
class Rg(reg32.Register):
    data: reg32.MemUField[31:0, Null]

    def _on_write_(self, inp):
        return self(data=self.data.val() + 1)
''')
            ports.append(("o_obj", "out", "BitVector[32]"))
            hook.append("self._e.o_obj <<= self.obj.data.val().bitvector")
            regs.append(word_reg("obj", BASE, [_mem_field("data", 31, 0, "o_obj", 0, "wcount")], "Register"))
        elif v == "reverse":
            # as upstream RegReverse: _on_read_ override returning a modified copy
            classes.append('''
class Rg(reg32.Register):
    data: reg32.MemField[31:0, Null]

    def _on_read_(self):
        return self(data=std.reverse_bits(self.data.val()))
''')
            ports.append(("o_obj", "out", "BitVector[32]"))
            hook.append("self._e.o_obj <<= self.obj.data.val()")
            regs.append(word_reg("obj", BASE, [_mem_field("data", 31, 0, "o_obj")], "Register", read_reverse=True))
        else:
            raise ValueError(code)
    elif kind == "gen":
        v = p[1]
        ann = f"Gr[0x{BASE:x}]"
        if v == "plain":
            body = '''
    def _on_read_(self):
        return self._sig

    def _on_write_(self, data, mask):
        self._sig <<= mask.apply(self._sig, data)
'''
        else:
            body = '''
    async def _on_read_(self):
        await cohdl.true
        return self._sig

    async def _on_write_(self, data, mask):
        await cohdl.true
        await cohdl.true
        self._sig <<= mask.apply(self._sig, data)
'''
        classes.append('''
class Gr(reg32.GenericRegister):
    def _config_(self, e):
        self._e = e
        self._sig = Signal[BitVector[32]](Null)
''' + body + '''
    def _impl_concurrent_(self):
        self._e.o_obj <<= self._sig
''')
        cfg.append("self.obj._config_(e)")
        ports.append(("o_obj", "out", "BitVector[32]"))
        regs.append(word_reg("obj", BASE, [_mem_field("sig", 31, 0, "o_obj")], "GenericRegister"))
    elif kind == "rng":
        v = p[1]
        words = 3
        ann = f"Win[0x{BASE:x}]"
        tag = 0xC0DE0000
        suffix = "" if v == "global" else "_relative_"
        rd, wr = ("_on_read_", "_on_write_") if v == "global" else ("_on_read_relative_", "_on_write_relative_")
        classes.append(f'''
class Win(reg32.AddrRange, word_count=3):
    def _config_(self, e):
        self._e = e
        self._last = Signal[BitVector[32]](Null)
        self._la = Signal[Unsigned[{ADDR_WIDTH}]](Null)

    def {rd}(self, addr):
        return BitVector[{32 - ADDR_WIDTH}]("{tag >> ADDR_WIDTH:0{32 - ADDR_WIDTH}b}") @ addr.bitvector

    def {wr}(self, addr, data, mask):
        self._la <<= addr
        self._last <<= mask.apply(self._last, data)

    def _impl_concurrent_(self):
        self._e.o_la <<= self._la
        self._e.o_ld <<= self._last
''')
        cfg.append("self.obj._config_(e)")
        ports += [("o_la", "out", f"Unsigned[{ADDR_WIDTH}]"), ("o_ld", "out", "BitVector[32]")]
        r = word_reg("obj", BASE, [{"name": "la", "hi": ADDR_WIDTH - 1, "lo": 0, "kind": "win_addr", "port": "o_la", "default": 0},
                                   {"name": "last", "hi": 31, "lo": 0, "kind": "win_data", "port": "o_ld", "default": 0}], "AddrRange",
                     words=3, read_tag=tag)
        if v == "global":
            r["global_addr"] = True
        regs.append(r)
    else:
        raise ValueError(code)

    s_addr = BASE + 4 * words
    ports.append(("o_sent", "out", "BitVector[32]"))
    hook.append("self._e.o_sent <<= self.sent.raw")
    regs.append(word_reg("sent", s_addr, [_mem_field("raw", 31, 0, "o_sent")], "MemWord"))

    src = HEADER + "from cohdl import Full, Signed\n" + "\n".join(classes)
    src += f"\n\nclass Map(reg32.AddrMap):\n    obj: {ann}\n    sent: reg32.MemWord[0x{s_addr:x}]\n"
    src += "\n    def _config_(self, e):\n        self._e = e\n" + "".join(f"        {l}\n" for l in cfg if l)
    src += "\n    def _impl_concurrent_(self):\n" + "".join(f"        {l}\n" for l in hook)
    if seq:
        src += "\n    def _impl_sequential_(self):\n" + "".join(f"        {l}\n" for l in seq)
    src += f"\n\nclass T(axi.addr_map_entity(addr_width={ADDR_WIDTH})):\n"
    for n, d, t in ports:
        src += f"    {n} = Port.{'output' if d == 'out' else 'input'}({t})\n"
    src += "\n    def architecture(self):\n        self.interface_connection().connect_addr_map(Map(self))\n"
    mapped = {r["addr"] + 4 * w for r in regs for w in range(r.get("words", 1))}
    window = list(range(0, 1 << ADDR_WIDTH, 4))
    return {"name": "obj/" + code, "source": src, "regs": regs, "hw": hw, "unmapped": [a for a in window if a not in mapped],
            "window": window, "obj": code, "sweep": "options",
            "unaligned": [BASE + 4 * k + o for k in range(words - 1) for o in (1, 2, 3)] if any(r.get("unaligned") for r in regs) else []}

"""C10 family `expr`: a typed expression grammar over constants, enumerated by depth.

Types  I int | K small int (bounded: safe as exponent / repetition / range bound; usable wherever I is) | B bool |
       S str | T tuple of ints | L list of ints | D dict str->int | N None | X anything else (result only).
Atoms  a few literals per type (ATOMS).  Operators (OPS): arithmetic and bit operators, unary operators, abs/min/max/len,
       comparisons and chained comparisons, and/or/not over bools and ints (compared by truth value), if-expressions,
       isinstance/type, list/tuple/dict displays with starred / double-starred elements, subscripts and slices of
       list/tuple/str/dict, list/dict comprehensions with constant filters, range/zip/enumerate/list/tuple/dict.

depth 1   every operator x every combination of atoms of its argument types; in two renderings: atoms as literals,
          atoms passed as arguments of the traced function.
depth 2   every (outer operator, argument position, inner operator) with matching types; the other arguments are the
          representative atoms REP.  quick: inner operator on its representative atoms; thorough: inner operator on all
          atom combinations.
depth 3   (thorough) every chain outer/position/middle/position/inner on representative atoms.

CPython exceptions (IndexError, ZeroDivisionError, ...) are "no claim".
"""
from __future__ import annotations

import itertools

from .c10_common import case

ATOMS = {
    "I": ["0", "1", "2", "3", "-1"],
    "K": ["0", "2", "-1"],
    "B": ["True", "False"],
    "S": ["''", "'a'", "'bc'"],
    "T": ["()", "(4,)", "(5, 6, 7)"],
    "L": ["[]", "[4]", "[5, 6, 7]"],
    "D": ["{}", "{'a': 1, 'b': 2}"],
    "N": ["None"],
}
REP = {"I": "2", "K": "2", "B": "True", "S": "'bc'", "T": "(5, 6, 7)", "L": "[5, 6, 7]", "D": "{'a': 1, 'b': 2}", "N": "None"}
# which result types may fill an argument position of a given type
ACCEPTS = {"I": ("I", "K"), "K": ("K",), "B": ("B",), "S": ("S",), "T": ("T",), "L": ("L",), "D": ("D",), "N": ("N",)}

OPS = []


def op(name, rtype, args, tmpl):
    OPS.append((name, rtype, tuple(args), tmpl))


# ---- int valued
for _n, _s in (("add", "+"), ("sub", "-"), ("mul", "*"), ("floordiv", "//"), ("mod", "%"), ("and", "&"), ("or", "|"), ("xor", "^")):
    op(_n, "I", "II", "({0} %s {1})" % _s)
op("truediv", "X", "II", "({0} / {1})")
op("pow", "I", "IK", "({0} ** {1})")
op("lshift", "I", "IK", "({0} << {1})")
op("rshift", "I", "IK", "({0} >> {1})")
op("neg", "I", "I", "(-{0})")
op("pos", "I", "I", "(+{0})")
op("invert", "I", "I", "(~{0})")
op("abs", "I", "I", "abs({0})")
op("min2", "I", "II", "min({0}, {1})")
op("max2", "I", "II", "max({0}, {1})")
op("max3", "I", "III", "max({0}, {1}, {2})")
op("clip", "K", "I", "min({0}, 3)")
for _t in "TLSD":
    op("len" + _t, "K", _t, "len({0})")
for _t in "TL":
    op("minseq" + _t, "I", _t, "min({0})")
    op("maxseq" + _t, "I", _t, "max({0})")
    op("idx" + _t, "I", _t + "I", "{0}[{1}]")
    op("sum" + _t, "I", _t, "sum({0})")
op("idxS", "S", "SI", "{0}[{1}]")
op("idxD", "I", "DS", "{0}[{1}]")
op("dget", "X", "DS", "{0}.get({1})")
op("dget2", "I", "DSI", "{0}.get({1}, {2})")
op("ifexpI", "I", "IBI", "({0} if {1} else {2})")
op("ifexpL", "L", "LBL", "({0} if {1} else {2})")
op("ifexp_truthy", "I", "III", "({0} if {1} else {2})")
op("bitlen", "K", "I", "{0}.bit_length()")
# ---- bool valued
for _n, _s in (("lt", "<"), ("le", "<="), ("gt", ">"), ("ge", ">="), ("eq", "=="), ("ne", "!=")):
    op(_n, "B", "II", "({0} %s {1})" % _s)
op("eqS", "B", "SS", "({0} == {1})")
op("neS", "B", "SS", "({0} != {1})")
op("eqB", "B", "BB", "({0} == {1})")
op("eqBI", "B", "BI", "({0} == {1})")
op("eqL", "B", "LL", "({0} == {1})")
op("eqT", "B", "TT", "({0} == {1})")
op("ltT", "B", "TT", "({0} < {1})")
op("eqN", "B", "NI", "({0} == {1})")
op("isN", "B", "N", "({0} is None)")
op("isnotN", "B", "I", "({0} is not None)")
op("chain_lt_lt", "B", "III", "({0} < {1} < {2})")
op("chain_le_lt", "B", "III", "({0} <= {1} < {2})")
op("chain_eq_ne", "B", "III", "({0} == {1} != {2})")
op("chain_gt_lt", "B", "III", "({0} > {1} < {2})")
op("chain4", "B", "III", "(0 <= {0} < {1} <= {2} < 4)")
op("chain_is", "B", "III", "({0} < {1} is not None)")
op("andB", "B", "BB", "({0} and {1})")
op("orB", "B", "BB", "({0} or {1})")
op("notB", "B", "B", "(not {0})")
op("andI", "B", "II", "({0} and {1})")
op("orI", "B", "II", "({0} or {1})")
op("notI", "B", "I", "(not {0})")
op("and_or", "B", "BBB", "({0} and {1} or {2})")
op("or_and", "B", "BBB", "({0} or {1} and {2})")
op("not_and", "B", "BI", "(not ({0} and {1}))")
op("andIB", "B", "IB", "({0} and {1})")
op("boolI", "B", "I", "bool({0})")
op("inL", "B", "IL", "({0} in {1})")
op("notinT", "B", "IT", "({0} not in {1})")
op("anyL", "B", "L", "any({0})")
op("allL", "B", "L", "all({0})")
op("allT", "B", "T", "all({0})")
for _t in "IBSTLDN":
    op("isint" + _t, "B", _t, "isinstance({0}, int)")
    op("isseq" + _t, "B", _t, "isinstance({0}, (list, tuple))")
    op("typeisint" + _t, "B", _t, "(type({0}) is int)")
    op("typeislist" + _t, "B", _t, "(type({0}) == list)")
# ---- list valued
op("list2", "L", "II", "[{0}, {1}]")
op("list1", "L", "I", "[{0}]")
op("list_starL", "L", "LI", "[*{0}, {1}]")
op("list_starT", "L", "IT", "[{0}, *{1}]")
op("list_starTL", "L", "TL", "[*{0}, *{1}]")
op("list_star_mid", "L", "ILI", "[{0}, *{1}, {2}]")
op("list_star_range", "L", "K", "[*range({0})]")
op("concatL", "L", "LL", "({0} + {1})")
op("repL", "L", "LK", "({0} * {1})")
op("rrepL", "L", "KL", "({0} * {1})")
for _t, _r in (("L", "L"), ("T", "T"), ("S", "S")):
    op("slice_from" + _t, _r, _t + "I", "{0}[{1}:]")
    op("slice_to" + _t, _r, _t + "I", "{0}[:{1}]")
    op("slice2" + _t, _r, _t + "II", "{0}[{1}:{2}]")
    op("slice_step" + _t, _r, _t + "I", "{0}[::{1}]")
    op("slice_rev" + _t, _r, _t, "{0}[::-1]")
    op("slice3" + _t, _r, _t + "III", "{0}[{1}:{2}:{3}]")
    op("slice_all" + _t, _r, _t, "{0}[:]")
op("listT", "L", "T", "list({0})")
op("listL", "L", "L", "list({0})")
op("list_range1", "L", "K", "list(range({0}))")
op("list_range2", "L", "IK", "list(range({0}, {1}))")
op("list_range3", "L", "IKI", "list(range({0}, {1}, {2}))")
op("listS", "X", "S", "list({0})")
op("listD", "X", "D", "list({0})")
op("list_values", "L", "D", "list({0}.values())")
op("list_keys", "X", "D", "list({0}.keys())")
op("list_items", "X", "D", "list({0}.items())")
op("comp_add", "L", "IL", "[x + {0} for x in {1}]")
op("comp_addT", "L", "IT", "[x + {0} for x in {1}]")
op("comp_idL", "L", "L", "[x for x in {0}]")
op("comp_idT", "L", "T", "[x for x in {0}]")
op("comp_filter", "L", "LI", "[x for x in {0} if x > {1}]")
op("comp_filter2", "L", "LI", "[x * 2 for x in {0} if x != {1} if x > 0]")
op("comp_filter_const", "L", "LB", "[x for x in {0} if {1}]")
op("comp_range", "L", "K", "[x for x in range({0})]")
op("comp_range_sq", "L", "K", "[x * x for x in range({0}) if x % 2 == 0]")
op("comp_ifexp", "L", "LI", "[x if x > {1} else -x for x in {0}]")
op("comp_enum", "X", "L", "[(i, x) for i, x in enumerate({0})]")
op("comp_enum_start", "X", "LI", "[(i, x) for i, x in enumerate({0}, {1})]")
op("comp_zip", "L", "LT", "[a + b for a, b in zip({0}, {1})]")
op("comp_zip3", "L", "LTL", "[a + b + c for a, b, c in zip({0}, {1}, {2})]")
op("comp_nested", "X", "KL", "[[x + y for y in {1}] for x in range({0})]")
op("comp_items", "X", "D", "[(k, v) for k, v in {0}.items()]")
op("comp_str", "X", "S", "[c for c in {0}]")
op("comp_outer", "L", "LI", "[{1} for _ in {0}]")
op("list_zip", "X", "LT", "list(zip({0}, {1}))")
op("list_enum", "X", "T", "list(enumerate({0}))")
op("sortedL", "L", "L", "sorted({0})")
# ---- tuple valued
op("tuple2", "T", "II", "({0}, {1})")
op("tuple1", "T", "I", "({0},)")
op("tuple_starL", "T", "LI", "(*{0}, {1})")
op("tuple_starT", "T", "IT", "({0}, *{1})")
op("tupleL", "T", "L", "tuple({0})")
op("tuple_range", "T", "K", "tuple(range({0}))")
op("concatT", "T", "TT", "({0} + {1})")
op("repT", "T", "TK", "({0} * {1})")
op("nestedT", "X", "IT", "({0}, {1}, [{0}])")
# ---- dict valued
op("dict1", "D", "I", "{{'k': {0}}}")
op("dict2", "D", "SI", "{{{0}: {1}, 'z': 0}}")
op("dict_star", "D", "DI", "{{**{0}, 'a': {1}}}")
op("dict_star_after", "D", "ID", "{{'a': {0}, **{1}}}")
op("dict_star2", "D", "DD", "{{**{0}, **{1}}}")
op("dictcomp_chars", "D", "IS", "{{k: {0} for k in {1}}}")
op("dictcomp_zip", "D", "SL", "{{k: v for k, v in zip({0}, {1})}}")
op("dictcomp_filter", "D", "DI", "{{k: v for k, v in {0}.items() if v > {1}}}")
op("dictcomp_intkey", "X", "L", "{{x: x * x for x in {0}}}")
op("dict_kw", "D", "I", "dict(a={0})")
op("dict_copy", "D", "D", "dict({0})")
op("dict_pairs", "D", "SI", "dict([({0}, {1})])")
# ---- str valued
op("format", "S", "I", "'v{{}}'.format({0})")
op("concatS", "S", "SS", "({0} + {1})")
op("fstring", "S", "I", "f'v{{{0}}}'")


def _by_rtype():
    d = {}
    for o in OPS:
        d.setdefault(o[1], []).append(o)
    return d


def _atom_combos(args):
    return itertools.product(*[ATOMS[t] for t in args])


def _rep_args(args):
    return [REP[t] for t in args]


def _akey(atoms):
    return ",".join(a.replace(" ", "") for a in atoms).replace("/", "_").replace("*", "_").replace("?", "_").replace("[", "<").replace("]", ">")


def depth1(only=None):
    for name, rtype, args, tmpl in OPS if only is None else [OPS[only]]:
        for atoms in _atom_combos(args):
            expr = tmpl.format(*atoms)
            yield case(f"expr/d1/lit/{name}/{_akey(atoms)}", f"def case__S__():\n    return {expr}\n", "case__S__()")
            params = [f"p{i}" for i in range(len(args))]
            pexpr = tmpl.format(*params)
            yield case(f"expr/d1/par/{name}/{_akey(atoms)}", f"def case__S__({', '.join(params)}):\n    return {pexpr}\n",
                       f"case__S__({', '.join(atoms)})")


def _inner_instances(o, all_atoms):
    name, rtype, args, tmpl = o
    if all_atoms:
        for atoms in _atom_combos(args):
            yield _akey(atoms), tmpl.format(*atoms)
    else:
        yield "rep", tmpl.format(*_rep_args(args))


def depth2(all_atoms, only=None):
    by = _by_rtype()
    for name, rtype, args, tmpl in OPS if only is None else [OPS[only]]:
        for pos, at in enumerate(args):
            for it in ACCEPTS[at]:
                for inner in by.get(it, ()):
                    for ik, itext in _inner_instances(inner, all_atoms):
                        actual = _rep_args(args)
                        actual[pos] = itext
                        expr = tmpl.format(*actual)
                        yield case(f"expr/d2/{name}/{pos}/{inner[0]}/{ik}", f"def case__S__():\n    return {expr}\n", "case__S__()")


def depth3(only=None):
    by = _by_rtype()
    for name, rtype, args, tmpl in OPS if only is None else [OPS[only]]:
        for pos, at in enumerate(args):
            for mt in ACCEPTS[at]:
                for mid in by.get(mt, ()):
                    for mpos, mat in enumerate(mid[2]):
                        for it in ACCEPTS[mat]:
                            for inner in by.get(it, ()):
                                itext = inner[3].format(*_rep_args(inner[2]))
                                margs = _rep_args(mid[2])
                                margs[mpos] = itext
                                mtext = mid[3].format(*margs)
                                actual = _rep_args(args)
                                actual[pos] = mtext
                                expr = tmpl.format(*actual)
                                yield case(f"expr/d3/{name}/{pos}/{mid[0]}/{mpos}/{inner[0]}", f"def case__S__():\n    return {expr}\n", "case__S__()")


def cases(thorough):
    yield from depth1()
    yield from depth2(all_atoms=thorough)
    if thorough:
        yield from depth3()


def tasks(thorough, seed):
    out = []
    for i in range(len(OPS)):
        out.append(("expr", "d1", i, False))
        out.append(("expr", "d2", i, thorough))
        if thorough:
            out.append(("expr", "d3", i, False))
    out.sort(key=lambda d: {"d3": 0, "d2": 1, "d1": 2}[d[1]])
    return out


def expand(desc):
    _, d, i, flag = desc
    if d == "d1":
        return depth1(only=i)
    if d == "d2":
        return depth2(flag, only=i)
    return depth3(only=i)

"""C13 part 1: type-expression alphabet, descriptor-level oracle and the order-of-first-use explorer.

Everything here talks about classes through *descriptors* (plain tuples derived from the parameters the
user wrote).  The oracle (`expected`) is written from the property statement + upstream
tests/not_evaluated/test_typequalifier.py / test_vector_types.py; it never looks at the classes.

Value descriptors
    ('BV'|'U'|'S', None)                bare BitVector / Unsigned / Signed
    ('BV'|'U'|'S', 'D'|'A', n)          sized, D = downto (K[n], K[n-1:0]), A = ascending/upto (K[0:n-1])
    ('Bit',) ('Bool',) ('Int',)
    ('Array', None)   ('Array', elem_descriptor, count)
Qualified descriptors
    ('Q', 'Signal'|'Variable'|'Temporary'|'Port', None|'IN'|'OUT'|'INOUT', value_descriptor|None)
    (value descriptor None = the bare qualifier class itself)

Expressions (the alphabet of the exploration) are (route, descriptor): the descriptor says which class
must come back, the route says how the user spells/causes the first use:
    sub      K[n] / Array[T, m] / Q[T] / Port[T, dir]
    slice    K[n-1:0] spelling of a downto vector (same parameters -> identical class required)
    inst     type(Q[T]())
    deduce   type(Q(T()))                  (qualifier deduces the wrapped type from the value)
    helper   type(Port.input(T)) / output / inout
    view_u / view_s / view_b   type(Q[BV[n]]().unsigned) ...  (class first created by taking a view)
    index    type(Q[BV[2]]()[0])           (Q[Bit] first created by indexing)
"""
from __future__ import annotations

import hashlib
import os

import cohdl  # noqa: F401
from cohdl import Array, Bit, BitVector, Port, Signal, Signed, Temporary, Unsigned, Variable
from cohdl._core._bit_vector import BitOrder
from cohdl._core._boolean import _Boolean
from cohdl._core._integer import Integer
from cohdl._core._type_qualifier import TypeQualifier

# ---------------------------------------------------------------------------------------------
# the lazily filled class caches (process-wide state this part explores)
# ---------------------------------------------------------------------------------------------
CACHE_OWNERS = (BitVector, Unsigned, Signed, Array, Signal, Port, Variable, Temporary)
OWNER_NAME = {BitVector: "BV", Unsigned: "U", Signed: "S", Array: "Array",
              Signal: "Signal", Port: "Port", Variable: "Variable", Temporary: "Temporary"}
FAM = {"BV": BitVector, "U": Unsigned, "S": Signed}
QUAL = {"Signal": Signal, "Variable": Variable, "Temporary": Temporary, "Port": Port}
DIRS = {"IN": Port.Direction.INPUT, "OUT": Port.Direction.OUTPUT, "INOUT": Port.Direction.INOUT}
DIR_NAME = {v: k for k, v in DIRS.items()}
ORDER_NAME = {BitOrder.DOWNTO: "D", BitOrder.UPTO: "A"}

# contents of the caches when this module was imported (pristine process: all empty)
IMPORT_SNAPSHOT = {o: dict(o._SubTypes) for o in CACHE_OWNERS}

ROOT_CLASSES = {
    BitVector: ("BV", None), Unsigned: ("U", None), Signed: ("S", None),
    Bit: ("Bit",), _Boolean: ("Bool",), Integer: ("Int",), Array: ("Array", None),
    Signal: ("Q", "Signal", None, None), Variable: ("Q", "Variable", None, None),
    Temporary: ("Q", "Temporary", None, None), Port: ("Q", "Port", None, None),
}


def restore_caches(snapshot=None, appended_only=False):
    """appended_only: the caller has verified that the current dictionaries are the snapshot plus appended
    entries (same objects, same positions) - then dropping the tail is the same as clear+update"""
    snapshot = IMPORT_SNAPSHOT if snapshot is None else snapshot
    for o in CACHE_OWNERS:
        d = o._SubTypes
        saved = snapshot[o]
        if appended_only and len(d) >= len(saved):
            n = len(saved)
            while len(d) > n:
                d.popitem()
        else:
            d.clear()
            d.update(saved)


def save_caches():
    return {o: dict(o._SubTypes) for o in CACHE_OWNERS}


def self_check_python_semantics():
    """issubclass must be the plain C3/mro relation for the classes involved (no __subclasscheck__ hooks),
    otherwise the mro based fast path below would be unsound."""
    for m in {type(o) for o in CACHE_OWNERS} | {type(Bit), type(TypeQualifier)}:
        for k in m.__mro__:
            if k is type or k is object:
                continue
            if "__subclasscheck__" in k.__dict__ or "__instancecheck__" in k.__dict__:
                return f"metaclass {k} overrides __subclasscheck__/__instancecheck__"
    return None


# ---------------------------------------------------------------------------------------------
# descriptors -> text / evaluation
# ---------------------------------------------------------------------------------------------
def vtext(v, spelling="sub"):
    t = v[0]
    if t in FAM:
        name = FAM[t].__name__
        if v[1] is None:
            return name
        _, order, n = v
        if order == "A":
            return f"{name}[0:{n - 1}]"
        return f"{name}[{n - 1}:0]" if spelling == "slice" else f"{name}[{n}]"
    if t == "Bit":
        return "Bit"
    if t == "Bool":
        return "bool"
    if t == "Int":
        return "int"
    if t == "Array":
        if v[1] is None:
            return "Array"
        return f"Array[{vtext(v[1])},{v[2]}]"
    raise ValueError(v)


def dtext(d, spelling="sub"):
    if d[0] != "Q":
        return vtext(d, spelling)
    _, q, direction, v = d
    if v is None:
        return q
    if q == "Port":
        return f"Port[{vtext(v, spelling)},{direction}]"
    return f"{q}[{vtext(v, spelling)}]"


def etext(e):
    route, d = e
    return dtext(d, "slice") if route == "slice" else (dtext(d) if route == "sub" else f"{route}:{dtext(d)}")


def eval_value(v, spelling="sub"):
    t = v[0]
    if t in FAM:
        cls = FAM[t]
        if v[1] is None:
            return cls
        _, order, n = v
        if order == "A":
            return cls[0:n - 1]
        return cls[n - 1:0] if spelling == "slice" else cls[n]
    if t == "Bit":
        return Bit
    if t == "Bool":
        return bool
    if t == "Int":
        return int
    if t == "Array":
        if v[1] is None:
            return Array
        return Array[eval_value(v[1]), v[2]]
    raise ValueError(v)


def eval_desc(d, spelling="sub"):
    if d[0] != "Q":
        return eval_value(d, spelling)
    _, q, direction, v = d
    if v is None:
        return QUAL[q]
    w = eval_value(v, spelling)
    if q == "Port":
        return Port[w, DIRS[direction]]
    return QUAL[q][w]


def _instance_of_value(v):
    t = v[0]
    if t == "Bool":
        return True
    if t == "Int":
        return 1
    return eval_value(v)()


def _K(f, n):
    return FAM[f][n]


def _Q(q, direction, wrapped):
    return Port[wrapped, DIRS[direction]] if q == "Port" else QUAL[q][wrapped]


# operations that PRODUCE an object of a parametrised type; the class of the result must be the canonical one.
# primitive level: descriptor (family, 'D', n)
P_PRODUCERS = {
    "p_cast": lambda f, n: type({"U": lambda: BitVector[n]().unsigned, "S": lambda: BitVector[n]().signed,
                                 "BV": lambda: Unsigned[n]().bitvector}[f]()),
    "p_cast2": lambda f, n: type({"U": lambda: Signed[n]().unsigned, "S": lambda: Unsigned[n]().signed,
                                  "BV": lambda: Signed[n]().bitvector}[f]()),
    "p_slice": lambda f, n: type(_K("U", n + 1)()[n:1]),
    "p_msb": lambda f, n: type(BitVector[n + 1]().msb(n)),
    "p_lsb": lambda f, n: type(Signed[n + 1]().lsb(n)),
    "p_concat": lambda f, n: type(BitVector[n - 1]() @ Bit()),
    "p_op": lambda f, n: type(~BitVector[n]()) if f == "BV" else type(_K(f, n)(0) + _K(f, n)(0)),
    "p_resize": lambda f, n: type(_K(f, 1)(0).resize(n)),
    "p_copy": lambda f, n: type(_K(f, n)().copy()),
    "p_arr": lambda f, n: type(Array[_K(f, n), 2]()[0]),
}
P_PRODUCER_FAMS = {"p_cast": "USB", "p_cast2": "USB", "p_slice": "B", "p_msb": "B", "p_lsb": "B", "p_concat": "B",
                   "p_op": "USB", "p_resize": "US", "p_copy": "USB", "p_arr": "USB"}
# qualified level: descriptor ('Q', q, dir, (family, 'D', n))
Q_PRODUCERS = {
    "q_cast2": lambda q, d, v: type({"U": lambda: _Q(q, d, Signed[v[2]])().unsigned, "S": lambda: _Q(q, d, Unsigned[v[2]])().signed,
                                     "BV": lambda: _Q(q, d, Signed[v[2]])().bitvector}[v[0]]()),
    "q_slice": lambda q, d, v: type(_Q(q, d, Unsigned[v[2] + 1])()[v[2]:1]),
    "q_msb": lambda q, d, v: type(_Q(q, d, BitVector[v[2] + 1])().msb(v[2])),
    "q_lsb": lambda q, d, v: type(_Q(q, d, Signed[v[2] + 1])().lsb(v[2])),
    "q_arr": lambda q, d, v: type(_Q(q, d, Array[_K(v[0], v[2]), 2])()[0]),
    # results of operators are Temporary objects
    "t_concat": lambda q, d, v: type(Signal[BitVector[v[2] - 1]]() @ Bit()),
    "t_op": lambda q, d, v: type(Signal[BitVector[v[2]]]() & Variable[BitVector[v[2]]]()) if v[0] == "BV" else type(Signal[_K(v[0], v[2])](0) + Variable[_K(v[0], v[2])](0)),
    "t_resize": lambda q, d, v: type(Signal[_K(v[0], 1)](0).resize(v[2])),
    "t_copy": lambda q, d, v: type(Signal[_K(v[0], v[2])]().copy()),
}
Q_PRODUCER_FAMS = {"q_cast2": "USB", "q_slice": "B", "q_msb": "B", "q_lsb": "B", "q_arr": "USB",
                   "t_concat": "B", "t_op": "USB", "t_resize": "US", "t_copy": "USB"}
_FAMCODE = {"U": "U", "S": "S", "BV": "B"}


def producer_alphabet(widths, qkinds=None):
    """every way of obtaining 'K of width n, downto' other than writing K[n]"""
    qkinds = QKINDS if qkinds is None else qkinds
    ex = []
    for n in widths:
        for f in ("BV", "U", "S"):
            for r, fams in P_PRODUCER_FAMS.items():
                if _FAMCODE[f] in fams and not (r == "p_concat" and n < 2):
                    ex.append((r, (f, "D", n)))
            for q, direction in qkinds:
                d = ("Q", q, direction, (f, "D", n))
                for r in ("view_u", "view_s", "view_b"):
                    if {"view_u": "U", "view_s": "S", "view_b": "BV"}[r] == f:
                        ex.append((r, d))
                for r, fams in Q_PRODUCER_FAMS.items():
                    if r.startswith("q_") and _FAMCODE[f] in fams:
                        ex.append((r, d))
            for r, fams in Q_PRODUCER_FAMS.items():
                if r.startswith("t_") and _FAMCODE[f] in fams and not (r == "t_concat" and n < 2):
                    ex.append((r, ("Q", "Temporary", None, (f, "D", n))))
    return ex


def eval_expr(e):
    """Perform the 'first use' described by expression e and return the class it yields."""
    route, d = e
    if route == "sub":
        return eval_desc(d)
    if route == "slice":
        return eval_desc(d, "slice")
    if route in P_PRODUCERS:
        return P_PRODUCERS[route](d[0], d[2])
    _, q, direction, v = d
    if route == "inst":
        return type(eval_desc(d)())
    if route == "deduce":
        return type(QUAL[q](_instance_of_value(v)))
    if route == "helper":
        w = eval_value(v)
        fn = {"IN": Port.input, "OUT": Port.output, "INOUT": Port.inout}[direction]
        return type(fn(w))
    if route in ("view_u", "view_s", "view_b"):
        fam, order, n = v
        src_fam = {"view_u": "BV", "view_s": "BV", "view_b": "U"}[route]
        src = eval_desc(("Q", q, direction, (src_fam, order, n)))()
        view = {"view_u": lambda o: o.unsigned, "view_s": lambda o: o.signed, "view_b": lambda o: o.bitvector}[route](src)
        return type(view)
    if route == "index":
        src = eval_desc(("Q", q, direction, ("BV", "D", 2)))()
        return type(src[0])
    if route in Q_PRODUCERS:
        return Q_PRODUCERS[route](q, direction, v)
    raise ValueError(e)


# ---------------------------------------------------------------------------------------------
# the oracle: which subclass relations must / must not hold   (True / False / None = left open)
# ---------------------------------------------------------------------------------------------
_FAM_LE = {("BV", "BV"), ("U", "U"), ("S", "S"), ("U", "BV"), ("S", "BV")}


def value_le(a, b):
    """must class(a) be a subclass of class(b)?  a, b value descriptors."""
    if a == b:
        return True
    ta, tb = a[0], b[0]
    if ta in FAM and tb in FAM:
        if (ta, tb) not in _FAM_LE:
            return False
        if b[1] is None:
            return True  # K[n] <= K, Unsigned[n] <= BitVector, Unsigned <= BitVector
        if a[1] is None:
            return False  # a bare family is never a subclass of a sized class
        if a[2] != b[2]:
            return False  # different widths
        if a[1] == "D" and b[1] == "D":
            return True  # Unsigned[n] <= BitVector[n]
        # ascending ranges (K[0:n-1]): the statement only speaks about K[n]; the relation between an
        # ascending Unsigned/Signed and the BitVector of the same width (either direction) is left open
        return None
    if ta == "Array" and tb == "Array":
        if a[1] is None or b[1] is None:
            return None  # Array[T,n] vs Array: not mentioned by the statement
        if a[2] == b[2] and value_le(a[1], b[1]) is not False and a[1][0] in FAM and b[1][0] in FAM:
            return None  # element-type covariance of arrays: not mentioned
        return False
    return False  # different kinds


def q_le(qa, da, qb, db):
    """qualifier kind compatibility for sized/wrapped qualified classes"""
    if qa == qb and da == db:
        return True
    if qa == "Port" and qb == "Signal":
        return True  # every port type is a signal type of the same wrapped type
    return False


def expected(a, b):
    """Must class(a) be a subclass of class(b)?  True / False / None (open)."""
    if a == b:
        return True
    qa, qb = a[0] == "Q", b[0] == "Q"
    if qa != qb:
        return False  # qualified vs unqualified
    if not qa:
        return value_le(a, b)
    _, ka, da, va = a
    _, kb, db, vb = b
    if vb is None:  # b is a bare qualifier class
        return ka == kb or (ka == "Port" and kb == "Signal")
    if va is None:
        return False
    if not q_le(ka, da, kb, db):
        return False
    if va[0] == "Array" or vb[0] == "Array":
        return True if va == vb else (False if value_le(va, vb) is False else None)
    return value_le(va, vb)


# ---------------------------------------------------------------------------------------------
# classification of the cache contents (class -> descriptor) — reads only cache *keys*
# ---------------------------------------------------------------------------------------------
def _has_ascending(d):
    if d[0] == "Q":
        d = d[3]
    return d is not None and d[0] in FAM and len(d) == 3 and d[1] == "A"


class Malformed(Exception):
    pass


def describe_key(owner, key, classmap):
    """descriptor of the class cached in owner._SubTypes[key]; classmap: class -> descriptor of all
    classes known so far (needed for keys that contain classes)."""
    name = OWNER_NAME[owner]
    if not isinstance(key, tuple) or len(key) != 2:
        raise Malformed(f"{name} cache key of unexpected shape {key!r}")
    if name in FAM:
        order, width = key
        if order not in ORDER_NAME or not isinstance(width, int):
            raise Malformed(f"{name} cache key of unexpected shape {key!r}")
        return (name, ORDER_NAME[order], width)
    if name == "Array":
        elem, count = key
        if elem not in classmap:
            raise Malformed(f"Array cache key with unknown element class {elem!r}")
        return ("Array", classmap[elem], count)
    wrapped, direction = key
    if direction is not None and direction not in DIR_NAME:
        raise Malformed(f"{name} cache key of unexpected shape {key!r}")
    if wrapped not in classmap:
        raise Malformed(f"{name} cache key with unknown wrapped class {wrapped!r}")
    return ("Q", name, None if direction is None else DIR_NAME[direction], classmap[wrapped])


def attr_problems(cls, d):
    """class attributes documented in the .pyi (width/order/type/direction/len) must match the parameters"""
    out = []
    t = d[0]
    if t in FAM:
        if cls.width != d[2]:
            out.append(f"width={cls.width}")
        if ORDER_NAME.get(cls.order) != d[1]:
            out.append(f"order={cls.order}")
    elif t == "Array":
        if len(cls) != d[2]:
            out.append(f"len={len(cls)}")
    elif t == "Q":
        if d[1] == "Port":
            if DIR_NAME.get(cls.direction()) != d[2]:
                out.append(f"direction={cls.direction()}")
            if (cls.is_input(), cls.is_output(), cls.is_inout()) != (d[2] == "IN", d[2] == "OUT", d[2] == "INOUT"):
                out.append("is_input/is_output/is_inout")
    return out


# ---------------------------------------------------------------------------------------------
# alphabets
# ---------------------------------------------------------------------------------------------
QKINDS = [("Signal", None), ("Variable", None), ("Temporary", None), ("Port", "IN"), ("Port", "OUT"), ("Port", "INOUT")]


def value_alphabet(widths, arr_elems, arr_counts, upto_widths):
    vals = []
    for n in widths:
        for f in ("BV", "U", "S"):
            vals.append((f, "D", n))
    for n in upto_widths:
        for f in ("BV", "U", "S"):
            vals.append((f, "A", n))
    arrays = [("Array", el, m) for el in arr_elems for m in arr_counts]
    return vals, arrays


def alphabet(widths, arr_elems, arr_counts, upto_widths, route_widths=(), qkinds=None, bare=True, atoms=True, slice_widths=(),
             producer_widths=()):
    """list of expressions (route, descriptor)"""
    if producer_widths:
        return alphabet(widths, arr_elems, arr_counts, upto_widths, route_widths, qkinds, bare, atoms, slice_widths) + \
            producer_alphabet(producer_widths, qkinds)
    qkinds = QKINDS if qkinds is None else qkinds
    vals, arrays = value_alphabet(widths, arr_elems, arr_counts, upto_widths)
    ex = []
    for v in vals + arrays:
        ex.append(("sub", v))
    for n in slice_widths:
        for f in ("BV", "U", "S"):
            ex.append(("slice", (f, "D", n)))
    wrapped = list(vals) + arrays
    if bare:
        wrapped += [("BV", None), ("U", None), ("S", None)]
    if atoms:
        wrapped += [("Bit",), ("Bool",), ("Int",)]
    for q, direction in qkinds:
        for v in wrapped:
            ex.append(("sub", ("Q", q, direction, v)))
        for n in slice_widths:
            for f in ("BV", "U", "S"):
                ex.append(("slice", ("Q", q, direction, (f, "D", n))))
        for n in route_widths:
            for f in ("BV", "U", "S"):
                d = ("Q", q, direction, (f, "D", n))
                ex.append(("inst", d))
                if q == "Port":
                    ex.append(("helper", d))
                else:
                    ex.append(("deduce", d))
            ex.append(("view_u", ("Q", q, direction, ("U", "D", n))))
            ex.append(("view_s", ("Q", q, direction, ("S", "D", n))))
            ex.append(("view_b", ("Q", q, direction, ("BV", "D", n))))
        if route_widths:
            ex.append(("index", ("Q", q, direction, ("Bit",))))
            if q != "Port":
                ex.append(("deduce", ("Q", q, direction, ("Bool",))))
                ex.append(("deduce", ("Q", q, direction, ("Int",))))
    return ex


# ---------------------------------------------------------------------------------------------
# the explorer: DFS over sequences of distinct expressions, caches restored at every backtrack
# ---------------------------------------------------------------------------------------------
class Universe:
    """bit index per descriptor + expected up-sets as bit masks (filled lazily)"""

    def __init__(self):
        self.index = {}
        self.descs = []
        self._true = {}
        self._false = {}
        self._down = {}

    def bit(self, d):
        i = self.index.get(d)
        if i is None:
            i = self.index[d] = len(self.descs)
            self.descs.append(d)
            # masks computed before d was known lack d: extend them
            for a in self._true:
                r = expected(a, d)
                if r is True:
                    self._true[a] |= 1 << i
                elif r is False:
                    self._false[a] |= 1 << i
            for b in self._down:
                if b != d and expected(d, b) is True:
                    self._down[b] |= 1 << i
        return 1 << i

    def masks(self, a):
        t = self._true.get(a)
        if t is None:
            t = f = 0
            for i, d in enumerate(self.descs):
                r = expected(a, d)
                if r is True:
                    t |= 1 << i
                elif r is False:
                    f |= 1 << i
            self._true[a] = t
            self._false[a] = f
        return self._true[a], self._false[a]

    def down(self, b):
        """mask of descriptors a with expected(a, b) True (a != b)"""
        m = self._down.get(b)
        if m is None:
            m = 0
            for i, a in enumerate(self.descs):
                if a != b and expected(a, b) is True:
                    m |= 1 << i
            self._down[b] = m
        return m

    def names(self, mask):
        return [dtext(self.descs[i]) for i in range(len(self.descs)) if mask >> i & 1]


class Frame:
    __slots__ = ("caches", "classmap", "up", "present", "mro")

    def __init__(self, caches, classmap, up, present, mro):
        self.caches = caches      # owner -> dict copy
        self.classmap = classmap  # class -> descriptor (roots + cached)
        self.up = up              # class -> bitmask of descriptors of its present superclasses
        self.present = present    # bitmask of present descriptors
        self.mro = mro            # class -> its __mro__ tuple object at creation


class Explorer:
    def __init__(self, full_pairs_depth=2):
        self.U = Universe()
        self.full_pairs_depth = full_pairs_depth
        self.facts = {}       # fact text -> [shortest order (list of expr), count]
        self.counts = {"nodes": 0, "classes_created": 0, "pairs_checked": 0, "pairs_issubclass_calls": 0,
                       "cache_hits": 0, "raised": 0}
        self.max_present = 0
        self.sigs = {}        # order text -> signature hash (only for orders in self.want_sig)
        self.want_sig = None
        self.nontrivial = set()
        self.appended_only = False

    # -- bookkeeping ---------------------------------------------------------------------------
    def fact(self, text, order):
        r = self.facts.get(text)
        if r is None:
            self.facts[text] = [list(order), 1]
        else:
            r[1] += 1
            if len(order) < len(r[0]):
                r[0] = list(order)

    def root_frame(self):
        restore_caches()
        classmap = dict(ROOT_CLASSES)
        for c, d in ROOT_CLASSES.items():
            self.U.bit(d)
        frame = Frame(save_caches(), classmap, {}, 0, {})
        for c, d in ROOT_CLASSES.items():
            frame.present |= self.U.bit(d)
        # classes already present at import time (none in a pristine process) are classified like new ones
        empty = Frame({o: {} for o in CACHE_OWNERS}, dict(ROOT_CLASSES), {}, frame.present, {})
        for c in ROOT_CLASSES:
            empty.up[c] = self._up_of(c, empty.classmap)
            empty.mro[c] = c.__mro__
        if any(frame.caches[o] for o in CACHE_OWNERS):
            f2 = self._absorb(empty, [], None, None)
            return f2
        empty.caches = frame.caches
        return empty

    def _up_of(self, cls, classmap):
        m = 0
        bit = self.U.index
        for k in cls.__mro__:
            d = classmap.get(k)
            if d is not None:
                m |= 1 << bit[d]
        return m

    # -- one step --------------------------------------------------------------------------------
    def _absorb(self, parent: Frame, order, expr, result):
        """Classify everything that is new in the caches relative to `parent`, evaluate the invariant,
        return the child frame."""
        U = self.U
        new = []  # (owner, key, cls)
        caches = {}
        appended_only = True
        for o in CACHE_OWNERS:
            cur = o._SubTypes
            old = parent.caches[o]
            n_old = len(old)
            # stability of what existed before (identity for equal parameters over time): the old entries must
            # still be there, same key objects, same classes, same positions (dicts keep insertion order)
            it = iter(cur.items())
            ok = len(cur) >= n_old
            if ok:
                for (k0, c0), (k1, c1) in zip(old.items(), it):
                    if c0 is not c1 or (k0 is not k1 and k0 != k1):
                        ok = False
                        break
            if not ok:
                appended_only = False
                for k, c in old.items():
                    if cur.get(k) is not c:
                        self.fact(f"cache entry replaced or dropped: {OWNER_NAME[o]} key of {dtext(parent.classmap[c])}", order)
                for k, c in cur.items():
                    if k not in old:
                        new.append((o, k, c))
                caches[o] = dict(cur)
            elif len(cur) != n_old:
                for k, c in it:
                    new.append((o, k, c))
                caches[o] = dict(cur)
            else:
                caches[o] = old
        self.appended_only = appended_only
        if not new:
            self.counts["cache_hits"] += 1
            return Frame(parent.caches, parent.classmap, parent.up, parent.present, parent.mro)
        classmap = dict(parent.classmap)
        up = dict(parent.up)
        mro = dict(parent.mro)
        present = parent.present
        # value caches first, then Array, then qualifiers (keys of later ones mention earlier classes);
        # inside one cache insertion order already has dependencies first, but do a fixpoint to be safe
        pending = sorted(new, key=lambda t: CACHE_OWNERS.index(t[0]))
        newcls = []
        progress = True
        while pending and progress:
            progress = False
            rest = []
            for o, k, c in pending:
                try:
                    d = describe_key(o, k, classmap)
                except Malformed:
                    rest.append((o, k, c))
                    continue
                progress = True
                if c in classmap:
                    self.fact(f"same class object for different parameters: {dtext(classmap[c])} and {dtext(d)}", order)
                    continue
                classmap[c] = d
                present |= U.bit(d)
                newcls.append((c, d))
            pending = rest
        for o, k, c in pending:
            self.fact(f"{OWNER_NAME[o]} cache holds a key that does not describe its parameters "
                      f"(unexpected shape or a class that is in no cache): {str(k)[:80]}", order)
        self.counts["classes_created"] += len(newcls)
        for c, d in newcls:
            up[c] = self._up_of(c, classmap)
            mro[c] = c.__mro__
            for p in attr_problems(c, d):
                self.fact(f"attribute mismatch on {dtext(d)}: {p}", order)
            if d[0] == "Q" and d[3] is not None:
                w = c.type
                if classmap.get(w) != d[3] or (d[3][0] not in ("Bool", "Int", "Bit") and eval_value(d[3]) is not w):
                    self.fact(f"{dtext(d)}.type is not the canonical {vtext(d[3])}", order)
            if d[0] == "Array":
                if classmap.get(c._elemtype_) != d[1]:
                    self.fact(f"{dtext(d)} element type mismatch", order)
        # --- the subtype lattice: every pair (x, y) with at least one new member --------------------
        newbits = 0
        for c, d in newcls:
            newbits |= 1 << U.index[d]
        for c, d in newcls:
            t, f = U.masks(d)
            a = up[c]
            bad_extra = a & f
            bad_missing = t & present & ~a
            if bad_extra:
                for n in U.names(bad_extra):
                    self.fact(f"{dtext(d)} is a subclass of unrelated {n}", order)
            if bad_missing:
                for n in U.names(bad_missing):
                    self.fact(f"{dtext(d)} is not a subclass of {n}", order)
        pmro = parent.mro
        for c in pmro:
            if c.__mro__ is not pmro[c]:
                self.fact(f"__mro__ of existing class {dtext(parent.classmap[c])} changed", order)
                up[c] = self._up_of(c, classmap)
                t, f = U.masks(parent.classmap[c])
                if up[c] & f:
                    for n in U.names(up[c] & f):
                        self.fact(f"{dtext(parent.classmap[c])} is a subclass of unrelated {n}", order)
        # classes created earlier that must be subclasses of a class created now
        for c, d in newcls:
            must = U.down(d) & parent.present
            if must:
                bit_d = 1 << U.index[d]
                for c0, d0 in parent.classmap.items():
                    if must >> U.index[d0] & 1 and not up[c0] & bit_d:
                        self.fact(f"{dtext(d0)} (created earlier) is not a subclass of {dtext(d)} (created later)", order)
        # pairs the oracle leaves open (ascending ranges): the primitive and the qualified lattice must at least
        # tell the same story - issubclass(Q[a], Q'[b]) == issubclass(a, b) wherever Q[..] <= Q'[..] is possible
        if any(_has_ascending(d) for c, d in newcls):
            self._agreement(classmap, order)
        npresent = len(classmap)
        self.counts["pairs_checked"] += 2 * len(newcls) * npresent - len(newcls) * len(newcls)
        if npresent > self.max_present:
            self.max_present = npresent
        # --- the same with real issubclass calls on every pair (cross-validates the mro fast path) ---
        if len(order) <= self.full_pairs_depth:
            items = list(classmap.items())
            for c, d in newcls:
                for c2, d2 in items:
                    for x, dx, y, dy in ((c, d, c2, d2), (c2, d2, c, d)):
                        r = expected(dx, dy)
                        act = issubclass(x, y)
                        self.counts["pairs_issubclass_calls"] += 1
                        if r is not None and act != r:
                            self.fact(f"{dtext(dx)} is a subclass of unrelated {dtext(dy)}" if act else
                                      f"{dtext(dx)} is not a subclass of {dtext(dy)}", order)
                        if (up[x] >> U.index[dy] & 1) != act:
                            raise RuntimeError(f"tool: mro fast path disagrees with issubclass for {dtext(dx)} / {dtext(dy)}")
        return Frame(caches, classmap, up, present, mro)

    def _agreement(self, classmap, order):
        prim = {d: c for c, d in classmap.items() if d[0] in FAM}
        qual = [(c, d) for c, d in classmap.items() if d[0] == "Q" and d[3] is not None and d[3][0] in FAM]
        for cx, dx in qual:
            for cy, dy in qual:
                if cx is cy or not q_le(dx[1], dx[2], dy[1], dy[2]) or expected(dx, dy) is not None:
                    continue
                px, py = prim.get(dx[3]), prim.get(dy[3])
                if px is None or py is None:
                    continue
                self.counts["agreement_pairs"] = self.counts.get("agreement_pairs", 0) + 1
                qrel, prel = issubclass(cx, cy), issubclass(px, py)
                if qrel != prel:
                    self.fact(f"{dtext(dx)} {'is' if qrel else 'is not'} a subclass of {dtext(dy)} but {vtext(dx[3])} "
                              f"{'is' if prel else 'is not'} a subclass of {vtext(dy[3])} (qualified and primitive lattice disagree)",
                              order)

    def step(self, parent: Frame, order, expr):
        """evaluate expr on the current caches (must equal parent.caches), check, return child frame or None"""
        self.counts["nodes"] += 1
        try:
            r = eval_expr(expr)
        except Exception as e:  # noqa
            self.counts["raised"] += 1
            return None, f"{type(e).__name__}: {str(e)[:120]}"
        frame = self._absorb(parent, order, expr, r)
        d = frame.classmap.get(r)
        if d != expr[1]:
            self.fact(f"{etext(expr)} returned the class registered as {dtext(d) if d else repr(r)}", order)
        # identity for equal parameters: evaluating again (canonical spelling too) gives the same object
        try:
            again = eval_expr(expr)
            canon = again if expr[0] == "sub" else eval_desc(expr[1])
        except Exception as e:  # noqa
            self.fact(f"{etext(expr)} raises when evaluated a second time: {type(e).__name__}", order)
        else:
            if again is not r or canon is not r:
                self.fact(f"{etext(expr)} evaluated twice gives two different classes", order)
            for o in CACHE_OWNERS:
                if len(o._SubTypes) != len(frame.caches[o]):
                    self.fact(f"{etext(expr)} evaluated a second time creates new classes", order)
                    break
        if len(frame.classmap) > len(parent.classmap):
            self.nontrivial.add(frame.present)
        return frame, None

    def signature(self, frame: Frame):
        """structure of everything cached: descriptor -> mro rendered as descriptors/names"""
        rows = []
        for c, d in frame.classmap.items():
            rows.append((dtext(d), tuple(dtext(frame.classmap[k]) if k in frame.classmap else k.__name__ for k in c.__mro__)))
        rows.sort()
        return hashlib.sha1(repr(rows).encode()).hexdigest()[:16]

    def explore(self, root: Frame, prefix, alpha, depth, solo_ok):
        """all sequences prefix + (distinct expressions from alpha) up to total length `depth`.
        solo_ok: expr -> True if the expression evaluates without exception from the pristine state."""
        frame = root
        order = []
        restore_caches(root.caches)
        for e in prefix:
            order.append(e)
            frame, err = self.step(frame, order, e)
            if frame is None:
                if solo_ok.get(e):
                    self.fact(f"{etext(e)} raises ({err}) after earlier first uses but not alone", order)
                return
        self._rec(frame, order, alpha, depth, solo_ok)
        restore_caches(root.caches)

    def _rec(self, frame, order, alpha, depth, solo_ok):
        if self.want_sig is not None and len(order) <= 2:
            key = ";".join(etext(e) for e in order)
            if key in self.want_sig:
                self.sigs[key] = self.signature(frame)
        if len(order) >= depth:
            return
        used = set(order)
        for e in alpha:
            if e in used:
                continue
            order.append(e)
            self.appended_only = False
            child, err = self.step(frame, order, e)
            fast = self.appended_only
            if child is None:
                if solo_ok.get(e):
                    self.fact(f"{etext(e)} raises ({err}) after earlier first uses but not alone", order)
            else:
                self._rec(child, order, alpha, depth, solo_ok)
            order.pop()
            # after the recursion the caches equal child.caches again (restored by the deeper level), which
            # was verified to be frame.caches + appended entries
            restore_caches(frame.caches, appended_only=fast)


def run_order(order, full_pairs_depth=99):
    """Execute one order from the import-time caches with all checks (real issubclass on all pairs).
    Returns (facts dict, signature)."""
    ex = Explorer(full_pairs_depth=full_pairs_depth)
    frame = ex.root_frame()
    cur = []
    for e in order:
        cur.append(e)
        f2, err = ex.step(frame, cur, e)
        if f2 is None:
            ex.fact(f"{etext(e)} raises: {err}", cur)
            break
        frame = f2
    sig = ex.signature(frame)
    restore_caches()
    return {k: v for k, v in ex.facts.items()}, sig


def run_order_forked(order):
    """Same as run_order but in a forked child of the calling process (whose caches must be pristine):
    ground truth for 'restoring the dictionaries is equivalent to a fresh process'."""
    import json

    r, w = os.pipe()
    pid = os.fork()
    if pid == 0:
        try:
            os.close(r)
            try:
                facts, sig = run_order(order)
                out = {"facts": sorted(facts), "sig": sig}
            except BaseException as e:  # noqa
                out = {"error": repr(e)}
            with os.fdopen(w, "w") as f:
                json.dump(out, f)
        finally:
            os._exit(0)
    os.close(w)
    with os.fdopen(r) as f:
        data = f.read()
    os.waitpid(pid, 0)
    return json.loads(data)


def to_expr(x):
    """json round trip: lists -> tuples"""
    if isinstance(x, list):
        return tuple(to_expr(y) for y in x)
    return x

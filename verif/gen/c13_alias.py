"""C13 part 4: the flip side of view aliasing.

(a) DISTINCT roots must not alias: objects constructed from one piece of initialisation material (a list of
    typed elements, raw values, a primitive value object, another qualified object), their default values and
    copies own their storage; an element-wise / slice-wise write to one of them is visible nowhere else.
    Python level (all pairs of qualifier kinds x init forms x element x value) and emitted level (two array
    signals built from one list; power-up and reset values after element-wise writes).
(b) A view created with a RUN-TIME index designates the element selected WHEN THE VIEW WAS CREATED: the index
    variable is modified between creating and using the view (read and write, further view operations on top).
"""
from __future__ import annotations

from cohdl import Array, BitVector, Signal, Signed, Temporary, Unsigned, Variable

from .c13_views import (HEADER, apply_model, apply_py, chain_key, chain_text, extract, fmt, insert, ops_for, read_int,
                        type_text)

KIND = {"BV": BitVector, "U": Unsigned, "S": Signed}
QUAL = {"Signal": Signal, "Variable": Variable, "Temporary": Temporary}


# ---------------------------------------------------------------------------------------------
# (a) Python level
# ---------------------------------------------------------------------------------------------
def _val(kind, w, v):
    bits = format(v, f"0{w}b")
    return KIND[kind][w](BitVector[w](bits)) if kind != "BV" else BitVector[w](bits)


def _raw(kind, w, v):
    return format(v, f"0{w}b") if kind != "U" else v


def _write(obj, value):
    if isinstance(obj, Variable):
        obj.value = value
    else:
        obj.next = value


def _elems(obj, n):
    return [read_int(obj[i]) for i in range(n)]


def _prim_elems(arr, n):
    return [sum(1 << j for j, b in enumerate(arr[i]) if bool(b)) for i in range(n)]


def distinct_cases():
    """(shape, kind, elem width, count, q1, q2, init form)"""
    qs = ("Signal", "Variable")
    for kind in ("BV", "U", "S"):
        for q1 in qs:
            for q2 in qs + ("Temporary",):
                for form in ("typed", "raw", "prim", "qual"):
                    for n in (2, 3):
                        yield ("array", kind, 2, n, q1, q2, form)
                for form in ("typed", "raw", "qual"):
                    yield ("vector", kind, 3, 1, q1, q2, form)


def check_distinct(case):
    """returns (problems, stats); problems = list of text"""
    shape, kind, w, n, q1, q2, form = case
    problems = []
    stats = {"writes": 0}
    if shape == "array":
        T = Array[KIND[kind][w], n]
        vals0 = [(i + 1) % (1 << w) for i in range(n)]
        material = None
        if form == "typed":
            init = material = [_val(kind, w, v) for v in vals0]
            read_material = lambda: [sum(1 << j for j, b in enumerate(x) if bool(b)) for x in material]
        elif form == "raw":
            init = [_raw(kind, w, v) for v in vals0]
            read_material = lambda: list(vals0)
        elif form == "prim":
            init = material = T([_val(kind, w, v) for v in vals0])
            read_material = lambda: _prim_elems(material, n)
        else:
            init = material = Signal[T]([_val(kind, w, v) for v in vals0])
            read_material = lambda: _elems(material, n)
        try:
            a = QUAL[q1][T](init)
            b = QUAL[q2][T](init)
            prim = T(init if form != "qual" else [_val(kind, w, v) for v in vals0])
            cp = Variable[T](prim.copy())
        except BaseException as e:  # noqa
            return None, {"rejected": f"{type(e).__name__}: {str(e)[:80]}"}
        model = list(vals0)

        def observe(where):
            got = {"written object": _elems(a, n), "second object built from the same material": _elems(b, n),
                   "initialisation material": read_material(), "default of the written object": _prim_elems(a.default(), n),
                   "default of the second object": None if q2 == "Temporary" else _prim_elems(b.default(), n),
                   "primitive value built from the material": _prim_elems(prim, n)}
            exp = {"written object": model}
            for k, v in got.items():
                e = exp.get(k, vals0)
                if v is not None and v != e:
                    problems.append(f"{where}: {k} reads {v}, expected {e}")
                    return False
            return True

        if not observe("after construction"):
            return problems, stats
        for i in range(n):
            for v in range(1 << w):
                _write(a[i], _val(kind, w, v))
                stats["writes"] += 1
                model[i] = v
                if not observe(f"after {q1}[..][{i}] <- {v}"):
                    return problems, stats
        # the copy of a primitive value owns its storage
        for i in range(n):
            _write(cp[i], _val(kind, w, (vals0[i] + 1) % (1 << w)))
            stats["writes"] += 1
        if _prim_elems(prim, n) != vals0:
            problems.append(f"write to an object built from prim.copy() changed prim: {_prim_elems(prim, n)}")
        return problems, stats
    # vectors
    W = w
    T = KIND[kind][W]
    v0 = 0b101 & ((1 << W) - 1)
    if form == "typed":
        init = material = _val(kind, W, v0)
        read_material = lambda: sum(1 << j for j, b in enumerate(material) if bool(b))
    elif form == "raw":
        init = _raw(kind, W, v0)
        read_material = lambda: v0
    else:
        init = material = Signal[T](_val(kind, W, v0))
        read_material = lambda: read_int(material)
    try:
        a = QUAL[q1][T](init)
        b = QUAL[q2][T](init)
    except BaseException as e:  # noqa
        return None, {"rejected": f"{type(e).__name__}: {str(e)[:80]}"}
    model = v0
    for h in range(W):
        for l in range(h + 1):
            k = h - l + 1
            for v in range(1 << k):
                _write(a[h:l], BitVector[k](format(v, f"0{k}b")))
                stats["writes"] += 1
                model = insert(model, list(range(l, h + 1)), v)
                got = {"written object": read_int(a), "second object": read_int(b), "initialisation material": read_material(),
                       "default of the written object": sum(1 << j for j, x in enumerate(a.default()) if bool(x))}
                for name, g in got.items():
                    e = model if name == "written object" else v0
                    if g != e:
                        problems.append(f"after {q1}[..][{h}:{l}] <- {v:0{k}b}: {name} reads {g:0{W}b}, expected {e:0{W}b}")
                        return problems, stats
    return problems, stats


# ---------------------------------------------------------------------------------------------
# (a) emitted level: two array signals built from one list, power-up / reset values after element-wise writes
# ---------------------------------------------------------------------------------------------
def arrinit_cases():
    for kind in ("U", "BV"):
        for form in ("typed", "raw", "prim"):
            for vals in ((1, 2), (2, 1)):
                for I in (0, 1):
                    for J in (0, 1):
                        for C in range(4):
                            yield (kind, form, vals, I, J, C)


def render_arrinit(case):
    kind, form, vals, I, J, C = case
    et = type_text(kind, 2)
    lit = (lambda v: f"{et}({v})") if kind == "U" else (lambda v: f"{et}(\"{v:02b}\")")
    raw = (lambda v: str(v)) if kind == "U" else (lambda v: f"\"{v:02b}\"")
    if form == "typed":
        init = "[" + ", ".join(lit(v) for v in vals) + "]"
    elif form == "raw":
        init = "[" + ", ".join(raw(v) for v in vals) + "]"
    else:
        init = f"Array[{et},2]([" + ", ".join(lit(v) for v in vals) + "])"
    L = [HEADER, "class T(Entity):", "    clk = Port.input(Bit)", "    rst = Port.input(Bit)", "    we = Port.input(Bit)",
         "    wc = Port.input(Bit)", f"    d = Port.input({et})"]
    L += [f"    q{n}{i} = Port.output({et})" for n in "ab" for i in (0, 1)]
    L += ["    def architecture(self):", f"        init = {init}", f"        a = Signal[Array[{et},2]](init)",
          f"        b = Signal[Array[{et},2]](init)",
          "        @std.sequential(std.Clock(self.clk), std.Reset(self.rst))", "        def p():",
          "            if self.we:", f"                a[{I}] <<= self.d",
          "            if self.wc:", f"                a[{J}] <<= {raw(C)}",
          "        @std.concurrent", "        def c():"]
    L += [f"            self.q{n}{i} <<= {n}[{i}]" for n in "ab" for i in (0, 1)]
    return "\n".join(L) + "\n"


def check_arrinit(case):
    from ..cohdl_util import compile_source
    from ..vhdl.elab import compile_design

    kind, form, vals, I, J, C = case
    src = render_arrinit(case)
    res, _ = compile_source(src, entity="T")
    if not res.ok:
        return {"status": "rejected", "error": res.error, "src": src}
    d = compile_design(res.vhdl)
    if d.findings or d.multi_driven:
        return {"status": "static", "what": f"static findings {d.findings[:2]} {d.multi_driven}", "src": src}
    sim = d.sim()
    sim.set_many({"clk": 0, "rst": 0, "we": 0, "wc": 0, "d": 0})
    a = list(vals)
    evals = 0

    def cmp(where):
        nonlocal evals
        evals += 1
        got = {n + str(i): sim.get(f"q{n}{i}") for n in "ab" for i in (0, 1)}
        exp = {"a0": a[0], "a1": a[1], "b0": vals[0], "b1": vals[1]}
        for k in exp:
            g = got[k]
            g = int(g) if g is not None else None
            if g != exp[k]:
                return (f"{where}: element {k[1]} of signal {k[0]} reads {fmt(g, 2)}, expected {exp[k]:02b} (both signals are "
                        f"constructed from one list {list(vals)}; only a is written)")
        return None

    msg = cmp("at power-up")
    steps = [("we", dv) for dv in range(4)] + [("wc", 0), ("rst", 0), ("we", 3), ("rst", 0), ("wc", 0), ("we", 1), ("rst", 0)]
    for what, dv in steps:
        if msg:
            break
        sim.set_many({"we": int(what == "we"), "wc": int(what == "wc"), "rst": int(what == "rst"), "d": dv})
        sim.clock("clk")
        if what == "we":
            a[I] = dv
        elif what == "wc":
            a[J] = C
        else:
            a = list(vals)
        msg = cmp(f"after a clock with {what}=1" + (f", d={dv:02b}" if what == "we" else ""))
    if msg:
        return {"status": "mismatch", "what": msg, "src": src, "evals": evals}
    return {"status": "ok", "evals": evals}


# ---------------------------------------------------------------------------------------------
# (b) views created with a run-time index that is modified before the view is used
# ---------------------------------------------------------------------------------------------
def dynidx_cases():
    """(root, rest chain, terminal, mode, index home, modification)"""
    for root in ("VarArr", "SigArr", "VarVec", "SigVec"):
        if root.endswith("Arr"):
            rests = [()] + [(op,) for op in ops_for("BV", 2)]
        else:
            rests = [()]
        for rest in rests:
            m = ("BV", [0, 1]) if root.endswith("Arr") else ("Bit", [0])
            for op in rest:
                m = apply_model(m, op)
            for term in ("whole", "iter"):
                if term == "iter" and m[0] == "Bit":
                    continue
                for mode in ("read", "write"):
                    for home in ("local", "arch"):
                        for mod in ("input", "inc"):
                            yield (root, rest, term, mode, home, mod)


def render_dynidx(case):
    root, rest, term, mode, home, mod = case
    arr = root.endswith("Arr")
    sig = root.startswith("Sig")
    pw = 1 if arr else 2                      # width of the index
    m = ("BV", [0, 1]) if arr else ("Bit", [0])
    for op in rest:
        m = apply_model(m, op)
    mkind, rel = m
    k = len(rel)
    ct = chain_text(rest)
    rt = "Array[BitVector[2],2]" if arr else "BitVector[4]"
    vt = type_text("BV", k) if term == "iter" else type_text(mkind, k)
    L = [HEADER, "class T(Entity):", "    clk = Port.input(Bit)", f"    p = Port.input(Unsigned[{pw}])",
         f"    p2 = Port.input(Unsigned[{pw}])", "    d = Port.input(BitVector[4])"]
    if mode == "read":
        L.append(f"    o = Port.output({vt})")
    else:
        L += [f"    x = Port.input({vt})", "    o = Port.output(BitVector[4])"]
    setter = "next" if sig else "value"
    fill = ([f"r[{i}].{setter} = self.d[{2 * i + 1}:{2 * i}]" for i in (0, 1)] if arr else [f"r.{setter} = self.d"])
    back = ([f"self.o[{2 * i + 1}:{2 * i}] <<= r[{i}]" for i in (0, 1)] if arr else ["self.o <<= r"])
    pre = [f"r = {'Signal' if sig else 'Variable'}[{rt}]()"]
    if home == "arch":
        pre.append(f"ptr = Variable[Unsigned[{pw}]]()")
        mk = ["ptr.value = self.p"]
    else:
        mk = [f"ptr = Variable[Unsigned[{pw}]](self.p)"]
    change = ["ptr.value = self.p2"] if mod == "input" else ["ptr.value = ptr + 1"]
    asg = "<<=" if sig else "@="
    if mode == "read":
        use = [f"self.o <<= v"] if term == "whole" else ["for i, b in enumerate(v):", "    self.o[i] <<= b"]
    else:
        use = [f"v {asg} self.x"] if term == "whole" else ["for i, b in enumerate(v):", f"    b {asg} self.x[i]"]
    core = mk + [f"v = r[ptr]{ct}"] + change + use
    L.append("    def architecture(self):")
    L += ["        " + p for p in pre]
    if sig:
        # the signal root is filled (read mode) / observed concurrently, the view is used in a clocked process
        L += ["        @std.sequential(std.Clock(self.clk))", "        def p():"] + ["            " + b for b in core]
        conc = (fill if mode == "read" else back)
        L += ["        @std.concurrent", "        def c():"] + ["            " + b for b in conc]
    else:
        body = fill + core + (back if mode == "write" else [])
        L += ["        @std.sequential", "        def p():"] + ["            " + b for b in body]
    return "\n".join(L) + "\n", (mkind, rel, k, pw, arr, sig)


def check_dynidx(case):
    from ..cohdl_util import compile_source
    from ..vhdl.elab import compile_design

    root, rest, term, mode, home, mod = case
    src, (mkind, rel, k, pw, arr, sig) = render_dynidx(case)
    res, _ = compile_source(src, entity="T")
    if not res.ok:
        return {"status": "rejected", "error": res.error, "src": src}
    d = compile_design(res.vhdl)
    if d.findings or d.multi_driven:
        return {"status": "static", "what": f"static findings {d.findings[:2]} {d.multi_driven}", "src": src}
    sim = d.sim()
    sim.set_many({"clk": 0, "p": 0, "p2": 0, "d": 0})
    evals = 0
    seen = set()
    np_ = 1 << pw
    state = None  # contents of a signal root written over several clocks (write mode): unknown until fully written
    known = 0
    for dv in range(16):
        for pv in range(np_):
            for p2v in (range(np_) if mod == "input" else [0]):
                E = [(2 * pv if arr else pv) + j for j in rel]
                for xv in (range(1 << k) if mode == "write" else [0]):
                    ins = {"p": pv, "p2": p2v, "d": dv}
                    if mode == "write":
                        ins["x"] = xv
                    sim.set_many(ins)
                    if sig:
                        sim.clock("clk")
                    got = sim.get("o")
                    evals += 1
                    if mode == "read":
                        exp = extract(dv, E)
                        width = k
                    elif not sig:
                        exp = insert(dv, E, xv)
                        width = 4
                    else:
                        # signal root without default: only the bits written so far are defined; compare those
                        state = insert(state or 0, E, xv)
                        for e in E:
                            known |= 1 << e
                        if known != 15:
                            continue
                        exp = state
                        width = 4
                    g = int(got) if got is not None else None
                    seen.add(g)
                    if g != exp:
                        return {"status": "mismatch", "src": src, "evals": evals,
                                "what": f"p={pv} (index when the view is created), index then changed to "
                                        f"{p2v if mod == 'input' else 'p+1'}, d={dv:04b}"
                                        f"{', x=' + format(xv, '0%db' % k) if mode == 'write' else ''}: "
                                        f"{'view reads' if mode == 'read' else 'root becomes'} {fmt(g, width)}, expected {exp:0{width}b} "
                                        f"(the view denotes bits {E} of the root, selected at creation)"}
    return {"status": "ok", "evals": evals, "distinct_outputs": len(seen)}


def dynidx_key(case):
    root, rest, term, mode, home, mod = case
    return f"alias/dynidx/{root}/{chain_key(rest)}/{term}/{mode}/index={home}/change={mod}"

"""Stand-alone reproduction (C20): a reg32.Register behind Axi4Light.connect_addr_map ignores WSTRB.

An AXI4-Lite write with wstrb=0001 (only byte 0 valid) to a register whose MemField occupies bits 31:16
overwrites that field; with wstrb=0000 (no byte valid) it still overwrites it, sets a FlagField and fires the
write notification.  reg32.MemWord at the same place honours the strobes.

run: /venv/bin/python -W ignore /verif/verif/gen/c20_repro_wstrb.py
"""
import sys

sys.path.insert(0, "/verif")
from verif.cohdl_util import compile_source
from verif.vhdl.elab import compile_design

SRC = '''
from __future__ import annotations
import cohdl
from cohdl import Port, Bit, BitVector, Null
from cohdl.std.axi import axi4_light as axi
from cohdl.std.reg import reg32

class R(reg32.Register):
    low: reg32.MemField[15:0, Null]
    up: reg32.MemField[31:16, Null]

class Map(reg32.AddrMap):
    r: R[0x0]
    w: reg32.MemWord[0x4]
    def _config_(self, e):
        self._e = e
    def _impl_concurrent_(self):
        self._e.o_up <<= self.r.up.val()
        self._e.o_low <<= self.r.low.val()
        self._e.o_w <<= self.w.raw

class T(axi.addr_map_entity(addr_width=4)):
    o_up = Port.output(BitVector[16])
    o_low = Port.output(BitVector[16])
    o_w = Port.output(BitVector[32])
    def architecture(self):
        self.interface_connection().connect_addr_map(Map(self))
'''

res, _ = compile_source(SRC, entity="T")
assert res.ok, res.error
sim = compile_design(res.vhdl).sim()
for n, (sid, ty, mode) in sim.ports.items():
    if mode == "in":
        sim.set(n, 0, settle=False)
sim.set("axi_reset", 1)  # active low


def write(addr, data, strb):
    for _ in range(3):
        sim.clock("axi_clk")
    sim.set_many({"axi_awaddr": addr, "axi_awvalid": 1, "axi_wdata": data, "axi_wstrb": strb, "axi_wvalid": 1, "axi_bready": 1})
    assert sim.get("axi_awready") == 1 and sim.get("axi_wready") == 1
    sim.clock("axi_clk")
    sim.set_many({"axi_awvalid": 0, "axi_wvalid": 0})
    assert sim.get("axi_bvalid") == 1
    sim.clock("axi_clk")
    assert sim.get("axi_bvalid") == 0


write(0x0, 0x11112222, 0b1111)
write(0x4, 0x11112222, 0b1111)
print(f"after full writes   : r.up={sim.get('o_up'):04x} r.low={sim.get('o_low'):04x}  w={sim.get('o_w'):08x}")
write(0x0, 0xAAAABBBB, 0b0001)
write(0x4, 0xAAAABBBB, 0b0001)
print(f"after wstrb=0001    : r.up={sim.get('o_up'):04x} r.low={sim.get('o_low'):04x}  w={sim.get('o_w'):08x}"
      "   expected r.up=1111 r.low=22bb w=111122bb")
write(0x0, 0xCCCCDDDD, 0b0000)
write(0x4, 0xCCCCDDDD, 0b0000)
print(f"after wstrb=0000    : r.up={sim.get('o_up'):04x} r.low={sim.get('o_low'):04x}  w={sim.get('o_w'):08x}"
      "   expected unchanged")

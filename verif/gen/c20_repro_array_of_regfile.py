"""Observation (C20, not a property violation - a compiler rejection): reg32.Array whose element type is a RegFile.

GenericArg accepts any RegisterObject as array element type, but Array._impl_flatten returns the RegFile elements
themselves instead of their members: the members are never configured (`MemWord` has no `raw`) and the bus dispatch
would call _basic_read_/_basic_write_ on a RegFile.  Compilation fails with
    AssertionError: attemted access to non existing member 'raw' of object 'w : 0x... : MemWord[4]'
Proposed change (scratch worktree: such arrays then compile and decode correctly, incl. per-instance notifications):

     def _impl_flatten(self, include_devices):
    +    elements = [e._impl_flatten(include_devices=include_devices) for e in self._elements]
         if include_devices:
    -        return [self, *self._elements]
    +        return [self, *elements]
         else:
    -        return [*self._elements]
    +        return elements

run: /venv/bin/python -W ignore /verif/verif/gen/c20_repro_array_of_regfile.py    (exit 1 = rejected)
"""
from __future__ import annotations

import sys

sys.path.insert(0, "/verif")
from verif.cohdl_util import compile_source
from verif.gen import c20_trees

res, _ = compile_source(c20_trees.build("Af8@4s")["source"], entity="T")
print("accepted" if res.ok else f"rejected: {res.error}")
sys.exit(0 if res.ok else 1)

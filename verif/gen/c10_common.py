"""C10 plumbing shared by all generators: case representation, CPython reference execution,
structural canonical form of results, module rendering for the cohdl side.

A *case* is a plain dict (picklable):
    key   canonical identity of the input            "sig/def/-/a,b=/1,b=12"
    defs  module-level Python source (pure Python, no hardware objects).  The token __S__ is replaced
          by a per-case suffix so that many cases can live in one generated module.
    call  an expression (may use __S__) evaluated inside the `std.concurrent` body; its value is handed
          to the pyeval probe.  The very same text is evaluated by CPython for the reference.
    solo  (optional) True when the case needs a generated module of its own.
    binding  True when every TypeError CPython can raise for this case is an argument-binding error by
          construction (family `sig`): then cohdl must reject as well.
"""
from __future__ import annotations

import ast
import types

SUFFIX = "__S__"

HEAD = '''from cohdl import std, Entity, Port, Bit
from verif.gen.c10_probe import probe
'''


def case(key, defs, call, binding=False, solo=False):
    """solo: the definitions rebind a builtin name at module level, so the case must not share a module with others"""
    c = {"key": key, "defs": defs, "call": call, "binding": binding}
    if solo:
        c["solo"] = True
    return c


def subst(text, idx):
    return text.replace(SUFFIX, f"_c{idx}")


# ---------------------------------------------------------------------------------------------
# canonical (structural) form of a result
# ---------------------------------------------------------------------------------------------
_SCALARS = (bool, int, float, str, type(None))


def canon(x, depth=0):
    """Structural canonical form.  Type-aware (True != 1, (1,) != [1]); dicts are compared as mappings
    (insertion order is not part of `==`), instances of generated classes by class name + attributes."""
    if depth > 12:
        return ("deep",)
    t = type(x)
    if t in _SCALARS:
        return (t.__name__, x)
    if t is tuple or t is list:
        return (t.__name__, tuple(canon(e, depth + 1) for e in x))
    if t is dict:
        items = [(canon(k, depth + 1), canon(v, depth + 1)) for k, v in x.items()]
        items.sort(key=repr)
        return ("dict", tuple(items))
    if t is slice:
        return ("slice", canon(x.start, depth + 1), canon(x.stop, depth + 1), canon(x.step, depth + 1))
    if t is range:
        return ("range", x.start, x.stop, x.step)
    if x is NotImplemented:
        return ("NotImplemented",)
    if isinstance(x, type):
        return ("type", x.__name__)
    if isinstance(x, (types.FunctionType, types.BuiltinFunctionType, types.MethodType)):
        return ("function", getattr(x, "__name__", "?"))
    mod = getattr(t, "__module__", "") or ""
    if mod.startswith("cohdl") or mod == "builtins":
        # compiler-internal wrapper objects (or builtin types we do not model) leaking into a result
        return ("opaque", f"{mod}.{t.__qualname__}")
    if hasattr(x, "__dict__"):
        return ("obj", t.__name__, canon(dict(vars(x)), depth + 1))
    return ("opaque", f"{mod}.{t.__qualname__}")


def show(c, limit=160):
    """short printable rendering of a canonical form"""

    def r(c):
        k = c[0]
        if k in ("bool", "int", "float", "str", "NoneType"):
            return repr(c[1])
        if k == "tuple":
            inner = ", ".join(r(e) for e in c[1])
            return f"({inner}{',' if len(c[1]) == 1 else ''})"
        if k == "list":
            return "[" + ", ".join(r(e) for e in c[1]) + "]"
        if k == "dict":
            return "{" + ", ".join(f"{r(a)}: {r(b)}" for a, b in c[1]) + "}"
        if k == "obj":
            return f"<{c[1]} {r(c[2])}>"
        if k == "type":
            return f"<class {c[1]}>"
        if k == "opaque":
            return f"<{c[1]} object>"
        return repr(c)

    s = r(c)
    return s if len(s) <= limit else s[: limit - 3] + "..."


# ---------------------------------------------------------------------------------------------
# CPython reference
# ---------------------------------------------------------------------------------------------
class _BoolOps(ast.NodeTransformer):
    """`a and b` / `a or b`  ->  bool(a and b): the property compares and/or by truth value."""

    def visit_BoolOp(self, node):
        self.generic_visit(node)
        return ast.copy_location(
            ast.Call(func=ast.Name(id="bool", ctx=ast.Load()), args=[node], keywords=[]), node
        )


_BINDING_MARKERS = (
    "required positional argument",
    "required keyword-only argument",
    "positional argument but",
    "positional arguments but",
    "positional arguments (and",
    "positional argument (and",
    "unexpected keyword argument",
    "multiple values for argument",
    "multiple values for keyword argument",
    "positional-only arguments passed as keyword",
    "takes no arguments",
    "takes exactly one argument",
)


def is_binding_error(exc):
    if not isinstance(exc, TypeError):
        return False
    msg = str(exc)
    return any(m in msg for m in _BINDING_MARKERS)


def reference(defs, call):
    """Run the case under CPython.  -> ("val", canon) | ("exc", type_name, message, is_binding)"""
    ns = {"__name__": "c10ref"}
    try:
        tree = ast.parse(defs)
        tree = ast.fix_missing_locations(_BoolOps().visit(tree))
        exec(compile(tree, "<c10ref>", "exec"), ns)
        etree = ast.parse(call, mode="eval")
        etree = ast.fix_missing_locations(_BoolOps().visit(etree))
        val = eval(compile(etree, "<c10ref-call>", "eval"), ns)
    except RecursionError as e:
        return ("exc", "RecursionError", "", False)
    except Exception as e:  # noqa
        return ("exc", type(e).__name__, str(e)[:200], is_binding_error(e))
    return ("val", canon(val))


# ---------------------------------------------------------------------------------------------
# cohdl side
# ---------------------------------------------------------------------------------------------
def render_module(cases_idx):
    """cases_idx: list of (idx, case).  One throw-away entity, one probe per case."""
    parts = [HEAD]
    for idx, c in cases_idx:
        parts.append(subst(c["defs"], idx))
        parts.append("\n")
    parts.append(
        "class T(Entity):\n"
        "    o = Port.output(Bit)\n"
        "    def architecture(self):\n"
        "        @std.concurrent\n"
        "        def logic():\n"
    )
    for idx, c in cases_idx:
        parts.append(f"            probe({idx}, {subst(c['call'], idx)})\n")
    parts.append("            self.o <<= True\n")
    return "".join(parts)

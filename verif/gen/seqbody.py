"""Bounded-exhaustive generator of bodies of synchronous (non-async) sequential contexts, their CoHDL
rendering and a direct reference interpreter implementing the assignment semantics of property C03.

Objects of the wrapper entity
  inputs : a Unsigned[2], b Bit, c Bit (+ clk, optional rst)
  s      : Signal[Unsigned[2]] default 0        (registered, internal; published on port os continuously)
  mem    : Signal[Array[Bit,2]] default (0,0)   (element targets with run-time index; published on om0, om1)
  v      : Variable[Unsigned[2]] default 0      (published by statements only)
  o      : output Port Unsigned[2] default 0    (registered)
  p      : output Port Unsigned[2] default 0    (push target: value for one step, default otherwise)
  oa     : output Port Unsigned[2]              (driven from `with cohdl.always:` inside the sequential body)
  oc     : output Port Unsigned[2]              (driven by a separate concurrent context: s ^ a)

Abstract statements
  (T, E)                     assignment; T in TARGETS2 with E in EXPR2, or T in TARGETS1 with E in EXPR1
  ('if', c, then, else|None) ; ('elif', c1, b1, c2, b2, else|None)
  ('match', (arm0, arm1), default|None)       match self.a: case 0 / case 1 / case _
  ('F1',) ('F2',) ('F3',) ('F4',)             fixed for-loop shapes (see FOR_SRC)
  ('alw', E)                                  with cohdl.always: self.oa <<= E     (E over signals/inputs)
"""
from __future__ import annotations

import itertools

TARGETS2 = {"S": "s <<= {e}", "O": "self.o <<= {e}", "V": "v @= {e}", "P": "self.p ^= {e}", "SN": "s.next = {e}", "VV": "v.value = {e}",
            "PP": "self.p.push = {e}", "PN": "self.pn ^= {e}"}
TARGETS1 = {"PN0": "self.pn[0] ^= {e}", "S0": "s[0] <<= {e}", "M": "mem[self.b] <<= {e}", "M1": "mem[1] <<= {e}", "S10": "s[1:0][1] <<= {e}"}
EXPR2 = {"a": "self.a", "s": "s", "v": "v", "s1": "s + 1", "v1": "v + 1", "o": "self.o", "k2": "2", "fa": "pick(self.a)", "fs": "pick(s)",
         "ie": "(self.a if self.c else s)", "ga": "pick2(self.a)", "gs": "pick2(s)", "ha": "pick3(self.a)"}
EXPR1 = {"c": "self.c", "s0": "s[0]", "mb": "mem[self.b]", "a1": "self.a[1]", "v0": "v[0]",
         # alternatives that are different parts of the same object (if-expression / helper return merge)
         "sx": "(self.a[0] if self.c else self.a[1])", "pb": "pickbit()", "mx": "(mem[0] if self.c else mem[1])"}
CONDS = {"c": "self.c", "s0": "s[0]", "v0": "v[0]", "mb": "mem[self.b]", "ae": "self.a == 2", "cmp": "v < self.a"}
ALW = {"a": "self.a", "s": "s", "sa": "s ^ self.a", "s1": "s + 1"}

FOR_SRC = {
    # a reference taken with a run-time (variable) index keeps the index value it was created with
    "R1": ["slot = mem[vi]", "vi @= vi + 1", "slot <<= self.c"],
    "R2": ["slot = mem[vi]", "vi @= vi + 1", "self.o <<= slot @ slot"],
    "F1": ["for i in range(2):", "    if self.a[i]:", "        s <<= i + 1", "        break"],
    "F2": ["for i in range(2):", "    if self.a[i]:", "        s <<= i + 1", "        break", "else:", "    s <<= 3"],
    "F3": ["self.o <<= first_set()"],
    "F4": ["for bit in self.a:", "    if bit:", "        v @= v + 1"],
    # bool(x) / x.__bool__() of a Variable[bool] is a snapshot: a later assignment to the variable does not change it
    "B1": ["was = bool(vb)", "vb @= self.c", "if was:", "    v @= v + 1"],
    "B2": ["was = vb.__bool__()", "vb @= self.c", "if was:", "    s <<= 3"],
    # helper with an early return nested in one branch of an if whose other branch falls through, then another call,
    # then statements with an effect (must not run on the returned path)
    "N1": ["proc_nested(s, v)"],
    "N2": ["self.o <<= val_nested()"],
    # helper whose for loop (no else clause) returns conditionally in its iterations, followed by code that runs when
    # the loop falls through
    "N3": ["proc_loop(s, v)"],
    "N4": ["self.o <<= val_loop()"],
    # repeated match patterns / select keys denoting the same value: the first one applies
    "MD1": ["match self.a:", "    case 0:", "        s <<= 1", "    case 1:", "        s <<= 2", "    case 0:", "        s <<= 3", "    case _:", "        pass"],
    "MD2": ["self.o <<= cohdl.select_with(self.a, {0: Unsigned[2](1), 1: Unsigned[2](2), Unsigned[2](0): Unsigned[2](3)}, default=Unsigned[2](0))"],
    # signals constructed inside the body: without delayed_init the initial value is visible immediately (like a variable),
    # with delayed_init=True it is a normal signal assignment (reads in the same activation see the value of the last one)
    "LS1": ["loc1 = Signal[Unsigned[2]](self.a, name='loc1')", "self.o <<= loc1"],
    "LS2": ["loc2 = Signal[Unsigned[2]](self.a, name='loc2', delayed_init=True)", "self.o <<= loc2"],
    "LS3": ["loc3 = Signal[Unsigned[2]](self.a, name='loc3', delayed_init=False)", "self.o <<= loc3"],
    "LS4": ["loc4 = Signal[Unsigned[2]](self.a if self.c else cohdl.Null, name='loc4')", "self.o <<= loc4"],
    # a record of signals pushed as a whole from a record value: every member carries the value for one step only
    "RP1": ["if self.c:", "    prec ^= RecP(f=self.a, g=self.b[0])"],
    "RP2": ["if self.c:", "    prec.push = RecP(self.a, self.b[0])"],
    # constants merged from the return paths of a helper, bound to a name and assigned to a variable LATER, inside a branch
    "VC1": ["kc = pickconst()", "if self.b[0]:", "    v @= kc"],
    "VC2": ["kc = (1 if self.c else 2)", "v @= v + 1", "if self.b[0]:", "    v @= kc"],
}
FRAGS = ("F1", "F2", "F3", "F4", "R1", "R2", "B1", "B2", "N1", "N2", "N3", "N4", "MD1", "MD2", "LS1", "LS2", "LS3", "LS4", "RP1", "RP2", "VC1", "VC2")

M2 = 3


def ev2(e, st, inp):
    a, b, c = inp
    if e == "a":
        return a
    if e == "s":
        return st["s"]
    if e == "v":
        return st["v"]
    if e == "s1":
        return (st["s"] + 1) & M2
    if e == "v1":
        return (st["v"] + 1) & M2
    if e == "o":
        return st["o"]
    if e == "k2":
        return 2
    if e == "fa":
        return a if c else (a + 1) & M2
    if e == "fs":
        return st["s"] if c else (st["s"] + 1) & M2
    if e == "ie":
        return a if c else st["s"]
    if e == "ga":
        return a if c else (a + 1) & M2
    if e == "gs":
        return st["s"] if c else (st["s"] + 1) & M2
    if e == "ha":
        # pick3: match on a with early returns in some arms, fall-through to a trailing return
        return 3 if a == 0 else (2 if a == 1 else (a + 1) & M2)
    if e == "sa":
        return st["s"] ^ a
    raise KeyError(e)


def ev1(e, st, inp):
    a, b, c = inp
    if e == "c":
        return c
    if e == "s0":
        return st["s"] & 1
    if e == "mb":
        return st["mem"][b]
    if e == "a1":
        return (a >> 1) & 1
    if e == "v0":
        return st["v"] & 1
    if e in ("sx", "pb"):
        return (a & 1) if c else (a >> 1) & 1
    if e == "mx":
        return st["mem"][0] if c else st["mem"][1]
    if e == "ae":
        return int(a == 2)
    if e == "cmp":
        return int(st["v"] < a)
    raise KeyError(e)


class Ref:
    """state: s, mem(tuple), v, o ; p is a pure output (push)"""

    def __init__(self, prog, c04=False, on_reset=False):
        self.prog = prog
        self.c04 = c04
        self.on_reset = on_reset
        self.ond = None
        self.onr = 0
        self.onr2 = 0
        self.onrr = 0
        self.orst = 0
        self.reset_state()

    def reset_state(self):
        self.st = {"s": 0, "mem": (0, 0), "v": 0, "o": 0}
        self.p = 0
        self.pn = 0
        self.vi = 0
        self.vb = 0
        self.prec = (0, 0)  # pushed record: value for one step, default otherwise
        self.loc = None  # signal constructed inside the body without default: undefined until first assigned, kept by reset

    def snapshot(self):
        st = self.st
        return (st["s"], st["mem"], st["v"], st["o"], self.p, self.ond, self.onr, self.orst, self.onr2, self.pn, self.onrr, self.vi, self.vb, self.loc, self.prec)

    def restore(self, sn):
        self.st = {"s": sn[0], "mem": sn[1], "v": sn[2], "o": sn[3]}
        self.p, self.ond, self.onr, self.orst, self.onr2, self.pn, self.onrr, self.vi, self.vb, self.loc, self.prec = sn[4:]

    def do_reset(self):
        pn = self.pn  # noreset: keeps its value while reset is active
        loc = self.loc  # no default: not reset
        self.reset_state()
        self.pn = pn
        self.loc = loc
        self.orst = 3 if self.on_reset else 0

    def regs(self):
        d = {"o": self.st["o"], "p": self.p, "pn": self.pn}
        if self.c04:
            d.update(ond=self.ond, onr=self.onr, orst=self.orst, onr2=self.onr2)
        return d

    def comb(self, inp):
        """continuously driven outputs for the current state and inputs"""
        st = self.st
        d = {"oc": st["s"] ^ inp[0], "os": st["s"], "om0": st["mem"][0], "om1": st["mem"][1], "orf": self.prec[0], "org": self.prec[1]}
        if self.c04:
            d["onrr"] = self.onrr
        alw = find_alw(self.prog)
        d["oa"] = ev2(alw, st, inp) if alw is not None else 0
        return d

    def step(self, inp):
        st = self.st  # signals keep old value during the activation; v changes immediately
        nxt = {}
        nmem = list(st["mem"])
        mem_written = False
        sbits = {}  # bit index -> value for partial writes to s
        push = None
        pushn = [None]

        def run(blk):
            nonlocal push, mem_written
            for s_ in blk:
                k = s_[0]
                if k in TARGETS2:
                    val = ev2(s_[1], st, inp)
                    if k in ("S", "SN"):
                        nxt["s"] = val
                        sbits.clear()
                    elif k == "O":
                        nxt["o"] = val
                    elif k in ("V", "VV"):
                        st["v"] = val
                    elif k == "PN":
                        pushn[0] = val
                    else:
                        push = val
                elif k in TARGETS1:
                    val = ev1(s_[1], st, inp)
                    if k == "PN0":
                        pushn[0] = ((pushn[0] or 0) & 2) | val
                    elif k == "S0":
                        sbits[0] = val
                    elif k == "S10":
                        sbits[1] = val
                    elif k == "M":
                        nmem[inp[1]] = val
                        mem_written = True
                    else:
                        nmem[1] = val
                        mem_written = True
                elif k == "if":
                    if ev1(s_[1], st, inp):
                        run(s_[2])
                    elif s_[3] is not None:
                        run(s_[3])
                elif k == "elif":
                    if ev1(s_[1], st, inp):
                        run(s_[2])
                    elif ev1(s_[3], st, inp):
                        run(s_[4])
                    elif s_[5] is not None:
                        run(s_[5])
                elif k == "match":
                    a = inp[0]
                    if a == 0:
                        run(s_[1][0])
                    elif a == 1:
                        run(s_[1][1])
                    elif s_[2] is not None:
                        run(s_[2])
                elif k in ("F1", "F2"):
                    a = inp[0]
                    if a & 1:
                        nxt["s"] = 1
                        sbits.clear()
                    elif a & 2:
                        nxt["s"] = 2
                        sbits.clear()
                    elif k == "F2":
                        nxt["s"] = 3
                        sbits.clear()
                elif k == "R1":
                    nmem[self.vi] = inp[2]
                    mem_written = True
                    self.vi ^= 1
                elif k == "R2":
                    bit = st["mem"][self.vi]
                    nxt["o"] = bit * 3
                    self.vi ^= 1
                elif k == "F3":
                    a = inp[0]
                    nxt["o"] = 1 if a & 1 else 2 if a & 2 else 0
                elif k in ("B1", "B2"):
                    was = self.vb
                    self.vb = inp[2]
                    if was:
                        if k == "B1":
                            st["v"] = (st["v"] + 1) & M2
                        else:
                            nxt["s"] = 3
                            sbits.clear()
                elif k == "N1":
                    if inp[2]:
                        st["v"] = (st["v"] + 1) & M2
                        nxt["s"] = inp[0]
                        sbits.clear()
                    elif inp[1]:
                        pass
                    else:
                        nxt["s"] = inp[0]
                        sbits.clear()
                elif k == "N2":
                    nxt["o"] = inp[0] if (inp[2] or not inp[1]) else 3
                elif k == "N3":
                    if inp[2] or inp[1]:
                        st["v"] = (st["v"] + 1) & M2
                    else:
                        nxt["s"] = inp[0]
                        sbits.clear()
                elif k == "N4":
                    nxt["o"] = 1 if inp[2] else 2 if inp[1] else inp[0]
                elif k == "MD1":
                    if inp[0] in (0, 1):
                        nxt["s"] = inp[0] + 1
                        sbits.clear()
                elif k == "MD2":
                    nxt["o"] = {0: 1, 1: 2}.get(inp[0], 0)
                elif k in ("LS1", "LS3"):
                    nxt["o"] = inp[0]
                elif k == "LS2":
                    nxt["o"] = self.loc
                    self.loc_next = inp[0]
                elif k == "LS4":
                    nxt["o"] = inp[0] if inp[2] else 0
                elif k in ("RP1", "RP2"):
                    if inp[2]:
                        self.prec_next = (inp[0], inp[1])
                elif k == "VC1":
                    if inp[1]:
                        st["v"] = 1 if inp[2] else 2
                elif k == "VC2":
                    st["v"] = (st["v"] + 1) & M2
                    if inp[1]:
                        st["v"] = 1 if inp[2] else 2
                elif k == "F4":
                    a = inp[0]
                    st["v"] = (st["v"] + bin(a).count("1")) & M2
                elif k == "alw":
                    pass
                else:
                    raise AssertionError(k)

        # v is a process variable: mutate a copy of the dict but keep signal reads on old values
        st = dict(self.st)
        self.loc_next = self.loc
        self.prec_next = (0, 0)
        run(self.prog)
        self.loc = self.loc_next
        self.prec = self.prec_next
        new = dict(self.st)
        new["v"] = st["v"]
        if "s" in nxt:
            new["s"] = nxt["s"]
        for bit, val in sbits.items():
            new["s"] = (new["s"] & ~(1 << bit)) | (val << bit)
        if "o" in nxt:
            new["o"] = nxt["o"]
        if mem_written:
            new["mem"] = tuple(nmem)
        self.st = new
        self.p = push if push is not None else 0
        self.pn = pushn[0] if pushn[0] is not None else 0
        if self.c04:
            self.ond = inp[0]
            self.onr = inp[0]
            self.onr2 = inp[0]
            self.onrr = inp[0]
            self.orst = 1
        return self.regs()


def find_alw(prog):
    for s_ in prog:
        if s_[0] == "alw":
            return s_[1]
    return None


def _partial_then_whole_ok(prog):
    return True


# ---------------------------------------------------------------------------------
def render(prog, reset=None, entity="T", locals_in_body=False, c04=False, on_reset=False):
    L = ["from __future__ import annotations", "from cohdl import std, Entity, Port, Bit, BitVector, Unsigned, Signal, Variable, Array", "import cohdl", "",
         "class RecNR(std.Record):", "    f: Unsigned[2]", "    g: Bit", "",
         "class RecP(std.Record):", "    f: Unsigned[2]", "    g: Bit", "",
         f"class {entity}(Entity):", "    clk = Port.input(Bit)"]
    if reset is not None:
        L.append("    rst = Port.input(Bit)")
    L += ["    a = Port.input(Unsigned[2])", "    b = Port.input(Unsigned[1])", "    c = Port.input(Bit)",
          "    o = Port.output(Unsigned[2], default=0)", "    p = Port.output(Unsigned[2], default=0)",
          "    pn = Port.output(Unsigned[2], default=0, noreset=True)",
          "    oa = Port.output(Unsigned[2])", "    oc = Port.output(Unsigned[2])", "    os = Port.output(Unsigned[2])",
          "    om0 = Port.output(Bit)", "    om1 = Port.output(Bit)", "    orf = Port.output(Unsigned[2])", "    org = Port.output(Bit)"]
    if c04:
        L += ["    ond = Port.output(Unsigned[2])", "    onr = Port.output(Unsigned[2], default=0, noreset=True)",
              "    onr2 = Port.output(Unsigned[2], default=0, noreset=True)", "    orst = Port.output(Unsigned[2], default=0)",
              "    onrr = Port.output(Unsigned[2])"]
    if reset is not None and reset.get("step_cond"):
        L.append("    en = Port.input(Bit)")
    L += ["    def architecture(self):",
          "        s = Signal[Unsigned[2]](0)", "        mem = Signal[Array[Bit, 2]]([False, False])", "        v = Variable[Unsigned[2]](0)",
          "        vi = Variable[Unsigned[1]](0)", "        vb = Variable[bool](False)",
          "        prec = std.Signal[RecP](f=0, g=False)",
          "        def pickconst():", "            if self.c:", "                return 1", "            return 2",
          "        def nop():", "            pass",
          "        def proc_nested(sig, var):", "            if self.c:", "                var @= var + 1", "            else:",
          "                if self.b[0]:", "                    return", "            nop()", "            sig <<= self.a",
          "        def proc_loop(sig, var):", "            for cnd in (self.c, self.b[0]):", "                if cnd:",
          "                    var @= var + 1", "                    return", "            sig <<= self.a",
          "        def val_loop():", "            for k, cnd in enumerate((self.c, self.b[0])):", "                if cnd:",
          "                    nop()", "                    return Unsigned[2](k + 1)", "            return self.a",
          "        def val_nested():", "            if self.c:", "                pass", "            else:",
          "                if self.b[0]:", "                    return Unsigned[2](3)", "            nop()", "            return self.a",
          "        def pickbit():", "            if self.c:", "                return self.a[0]", "            return self.a[1]",
          *(["        nrr = std.NoresetSignal[RecNR](f=0, g=False)"] if c04 else []),
          "        def pick(x):", "            if self.c:", "                return x", "            return x + 1",
          "        def pick2(x):", "            if self.c:", "                pass", "            else:", "                return x + 1",
          "            return x",
          "        def pick3(x):", "            match x:", "                case 0:", "                    return Unsigned[2](3)",
          "                case 1:", "                    return ~x", "                case _:", "                    pass",
          "            return x + 1",
          "        def first_set():", "            for i in range(2):", "                if self.a[i]:",
          "                    return Unsigned[2](i + 1)", "            return Unsigned[2](0)",
          "        @std.concurrent", "        def conc():", "            self.oc <<= s ^ self.a", "            self.os <<= s",
          "            self.om0 <<= mem[0]", "            self.om1 <<= mem[1]", "            self.orf <<= prec.f", "            self.org <<= prec.g"]
    if find_alw(prog) is None:
        L.append("            self.oa <<= Unsigned[2](0)")
    if c04:
        L.append("            self.onrr <<= nrr.f")
    if c04 and on_reset:
        L += ["        def on_rst():", "            self.orst <<= 3"]
    onr = ", on_reset=on_rst" if (c04 and on_reset) else ""
    if reset is None:
        L.append("        @std.sequential(std.Clock(self.clk))")
    else:
        sc = ", step_cond=lambda: self.en" if reset.get("step_cond") else ""
        if reset.get("with_params"):
            # process created from a derived context: the on_reset actions of the base context must survive with_params()
            L.append(f"        base_ctx = std.SequentialContext(std.Clock(self.clk), std.Reset(self.rst, is_async={reset['is_async']}, active_low={reset['active_low']}){onr})")
            L.append("        @base_ctx.with_params(step_cond=lambda: self.en)")
        else:
            L.append(f"        @std.sequential(std.Clock(self.clk), std.Reset(self.rst, is_async={reset['is_async']}, active_low={reset['active_low']}){sc}{onr})")
    L += ["        def proc():", "            nonlocal s, v, vi, vb, prec"]
    if c04:
        L += ["            self.ond <<= self.a", "            self.onr <<= self.a", "            self.orst <<= 1",
              "            self.onr2[0] <<= self.a[0]", "            self.onr2[1:1] <<= self.a[1:1]", "            nrr.f <<= self.a"]
    L += block(prog, 3)
    L.append("")
    return "\n".join(L)


def block(blk, ind):
    pre = "    " * ind
    L = []
    if not blk:
        return [pre + "pass"]
    for s_ in blk:
        k = s_[0]
        if k in TARGETS2:
            L.append(pre + TARGETS2[k].format(e=EXPR2[s_[1]]))
        elif k in TARGETS1:
            L.append(pre + TARGETS1[k].format(e=EXPR1[s_[1]]))
        elif k == "if":
            L.append(pre + f"if {CONDS.get(s_[1]) or EXPR1[s_[1]]}:")
            L += block(s_[2], ind + 1)
            if s_[3] is not None:
                L.append(pre + "else:")
                L += block(s_[3], ind + 1)
        elif k == "elif":
            L.append(pre + f"if {CONDS[s_[1]]}:")
            L += block(s_[2], ind + 1)
            L.append(pre + f"elif {CONDS[s_[3]]}:")
            L += block(s_[4], ind + 1)
            if s_[5] is not None:
                L.append(pre + "else:")
                L += block(s_[5], ind + 1)
        elif k == "match":
            L.append(pre + "match self.a:")
            for i, arm in enumerate(s_[1]):
                L.append(pre + f"    case {i}:")
                L += block(arm, ind + 2)
            if s_[2] is not None:
                L.append(pre + "    case _:")
                L += block(s_[2], ind + 2)
        elif k in FOR_SRC:
            L += [pre + l for l in FOR_SRC[k]]
        elif k == "alw":
            L += [pre + "with cohdl.always:", pre + f"    self.oa <<= {ALW[s_[1]]}"]
        else:
            raise AssertionError(k)
    return L


# ---------------------------------------------------------------------------------
def atoms(level):
    """level 0: core atoms; 1: all"""
    if level == 0:
        t2 = [("S", "a"), ("S", "s1"), ("S", "v"), ("O", "s"), ("O", "v"), ("O", "a"), ("V", "v1"), ("V", "a"), ("V", "s"), ("P", "a"),
              ("P", "v"), ("S", "fa"), ("O", "ie"), ("PN", "a"), ("O", "ga"), ("S", "gs"), ("O", "ha")]
        t1 = [("S0", "c"), ("M", "c"), ("M1", "s0"), ("S0", "mb"), ("PN0", "c"), ("S0", "sx"), ("M1", "pb"), ("S0", "mx")]
    else:
        t2 = [(t, e) for t in TARGETS2 for e in EXPR2]
        t1 = [(t, e) for t in TARGETS1 for e in EXPR1]
    return t2 + t1


def programs(size, level=0, conds=("c", "s0", "v0")):
    at = atoms(level)
    small = atoms(0)[:8] if level == 0 else atoms(0)
    if size == 1:
        for a in at:
            yield (a,)
        for f in FRAGS:
            yield ((f,),)
        return
    if size == 2:
        for x in at:
            for y in at:
                yield (x, y)
        for c in conds:
            for x in at:
                yield (("if", c, (x,), None),)
        for f in FRAGS:
            for x in small:
                yield ((f,), x)
                yield (x, (f,))
        for e in ALW:
            for x in small:
                yield (("alw", e), x)
        return
    if size == 3:
        for c in conds + (("mb", "ae", "cmp") if level else ()):
            for x in small:
                for y in small:
                    yield (("if", c, (x,), (y,)),)
                    yield (("if", c, (x,), None), y)
                    yield (x, ("if", c, (y,), None))
                    yield (("if", c, (x, y), None),)
        for x in small:
            for y in small:
                yield (("match", ((x,), (y,)), None),)
        for x in small[:5]:
            for y in small[:5]:
                for z in small[:5]:
                    yield (x, y, z)
        return
    if size == 4:
        for x in small:
            for y in small:
                for z in small[:5]:
                    yield (("match", ((x,), (y,)), (z,)),)
                    yield (("elif", "c", (x,), "s0", (y,), (z,)),)
                    yield (("elif", "v0", (x,), "c", (y,), None), z)
        for c1 in conds:
            for c2 in conds:
                for x in small[:6]:
                    for y in small[:6]:
                        yield (("if", c1, (("if", c2, (x,), (y,)),), None),)
                        yield (("if", c1, (x,), (("if", c2, (y,), None),)),)
        return
    raise ValueError(size)

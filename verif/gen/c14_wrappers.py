"""C14: CoHDL source text of the wrapper entities around std.Fifo / std.Stack and the configuration lists.

A configuration is a plain tuple (picklable, printable, usable as a finding key):

    ("fifo",  T, N, tx_delay, rx_delay, contexts)     T in {"Bit", "BitVector[2]"}, contexts in {1, "1r", 2}
                                                      (1: one context, push code first; "1r": one context, pop code
                                                       first; 2: sender and receiver contexts on the same clock;
                                                       "2o": as 2, and each context also registers its own view of
                                                       full()/empty() every clock, read AFTER its push/pop code;
                                                       "2b": as 2o but the views are read BEFORE the push/pop code)
    ("stack", T, N, mode)                             mode in {"NO_OVERFLOW", "DROP_OLD"}

The wrappers respect the documented preconditions *as seen from the calling context*: a push request is
forwarded only while the container's own full() is false, a pop request only while empty() is false
(DROP_OLD stack: every push is forwarded - that is what the mode documents).
"""
from __future__ import annotations

TYPES = {"Bit": 1, "BitVector[2]": 2}


def width(T):
    return TYPES[T]


def delay_kwargs(tx, rx):
    """constructor arguments; (0,0) = the zero-delay Fifo / flag"""
    if tx == 0 and rx == 0:
        return ""
    if tx == rx:
        return f"delay={tx}"
    return f"tx_delay={tx}, rx_delay={rx}"


QUICK_DELAYS = [(1, 1), (1, 2), (2, 1)]
ONE_SIDED = [(0, 1), (1, 0)]
MORE_DELAYS = [(2, 2), (3, 3), (0, 2), (2, 0), (1, 3), (3, 1), (0, 3), (3, 0)]


def fifo_configs(thorough):
    """DESIGN.md C14: T x N x delay configs x {single, two} contexts.  The reachable space grows with
    |T|^N (stale memory words are design state and are not abstracted), so the largest N are explored
    with the smaller element type (sizes measured, see notes/C14.md)."""
    out = []

    def add(T, ns, delays, ctx_kinds=(1, "1r", 2)):
        for n in ns:
            for tx, rx in delays:
                for ctxs in ctx_kinds:
                    c = ("fifo", T, n, tx, rx, ctxs)
                    if c not in out:
                        out.append(c)

    # complete small bound (quick, seed independent)
    add("Bit", (2, 3, 4, 5), [(0, 0)])
    add("BitVector[2]", (2, 3, 4, 5), [(0, 0)])
    add("Bit", (2, 3, 4), QUICK_DELAYS)
    add("BitVector[2]", (2,), QUICK_DELAYS)
    add("BitVector[2]", (3,), [(1, 1)])
    add("Bit", (2, 3), ONE_SIDED)
    add("Bit", (2, 3), [(0, 0)] + QUICK_DELAYS + ONE_SIDED, ("2o",))
    add("Bit", (2, 3), [(0, 0), (1, 1)], ("2b",))
    if thorough:
        add("Bit", (6, 7, 8), [(0, 0)])
        add("BitVector[2]", (6,), [(0, 0)], (1, 2))
        add("Bit", (5,), QUICK_DELAYS)
        add("Bit", (6,), [(1, 1)])
        add("Bit", (4, 5), ONE_SIDED)
        add("Bit", (2, 3, 4, 5), MORE_DELAYS)
        add("BitVector[2]", (3,), QUICK_DELAYS)
        add("BitVector[2]", (4,), [(1, 1)])
        add("BitVector[2]", (2, 3), ONE_SIDED + [(2, 2), (0, 2), (2, 0)])
        add("Bit", (4, 5), [(0, 0)] + QUICK_DELAYS + ONE_SIDED, ("2o",))
        add("BitVector[2]", (2, 3), [(0, 0)] + QUICK_DELAYS, ("2o",))
        add("Bit", (2, 3), MORE_DELAYS, ("2o",))
        add("Bit", (2, 3), QUICK_DELAYS[1:] + ONE_SIDED, ("2b",))
    return out


def stack_configs(thorough):
    ns = (1, 2, 3, 4, 5, 6) if thorough else (1, 2, 3, 4)
    out = []
    for T in TYPES:
        for n in ns:
            for mode in ("NO_OVERFLOW", "DROP_OLD"):
                out.append(("stack", T, n, mode))
    return out


HEADER = """import cohdl
from cohdl import std, Bit, BitVector, Port, Null, Unsigned
"""


def render_fifo(cfg):
    _, T, n, tx, rx, ctxs = cfg
    kw = delay_kwargs(tx, rx)
    push = """            self.push_ack <<= False
            if self.push_req and not fifo.full():
                fifo.push(self.push_data)
                self.push_ack <<= True
"""
    pop = """            self.pop_valid <<= False
            self.pop_data <<= Null
            if self.pop_req and not fifo.empty():
                self.pop_data <<= fifo.pop()
                self.pop_valid <<= True
"""
    if ctxs in (1, "1r"):
        first, second = (push, pop) if ctxs == 1 else (pop, push)
        procs = f"""        @std.sequential(clk)
        def proc():
{first}{second}"""
    elif ctxs == 2:
        procs = f"""        @std.sequential(clk)
        def sender():
{push}
        @std.sequential(clk)
        def receiver():
{pop}"""
    else:
        obs_tx = """            self.tx_full <<= fifo.full()
            self.tx_empty <<= fifo.empty()
"""
        obs_rx = """            self.rx_full <<= fifo.full()
            self.rx_empty <<= fifo.empty()
"""
        s_body, r_body = (push + obs_tx, pop + obs_rx) if ctxs == "2o" else (obs_tx + push, obs_rx + pop)
        procs = f"""        @std.sequential(clk)
        def sender():
{s_body}
        @std.sequential(clk)
        def receiver():
{r_body}"""
    views = """    tx_full = Port.output(Bit, default=False)
    tx_empty = Port.output(Bit, default=True)
    rx_full = Port.output(Bit, default=False)
    rx_empty = Port.output(Bit, default=True)
""" if ctxs in ("2o", "2b") else ""
    return f"""{HEADER}

class T(cohdl.Entity):
    clk = Port.input(Bit)
    push_req = Port.input(Bit)
    push_data = Port.input({T})
    pop_req = Port.input(Bit)

    push_ack = Port.output(Bit, default=False)
    pop_valid = Port.output(Bit, default=False)
    pop_data = Port.output({T}, default=Null)
    empty = Port.output(Bit)
    full = Port.output(Bit)
    front = Port.output({T})
{views}
    def architecture(self):
        clk = std.Clock(self.clk)
        fifo = std.Fifo[{T}, {n}]({kw})

        @std.concurrent
        def logic():
            self.empty <<= fifo.empty()
            self.full <<= fifo.full()
            self.front <<= fifo.front()

{procs}
"""


def render_stack(cfg):
    _, T, n, mode = cfg
    sw = max(1, n.bit_length())
    gate = "self.push_req" if mode == "DROP_OLD" else "self.push_req and not stack.full()"
    return f"""{HEADER}

class T(cohdl.Entity):
    clk = Port.input(Bit)
    push_req = Port.input(Bit)
    push_data = Port.input({T})
    pop_req = Port.input(Bit)
    reset_req = Port.input(Bit)

    push_ack = Port.output(Bit, default=False)
    pop_valid = Port.output(Bit, default=False)
    pop_data = Port.output({T}, default=Null)
    empty = Port.output(Bit)
    full = Port.output(Bit)
    size = Port.output(Unsigned[{sw}])
    front_valid = Port.output(Bit, default=False)
    front = Port.output({T}, default=Null)

    def architecture(self):
        clk = std.Clock(self.clk)
        stack = std.Stack[{T}, {n}](mode=std.StackMode.{mode})

        @std.concurrent
        def logic():
            self.empty <<= stack.empty()
            self.full <<= stack.full()
            self.size <<= stack.size()

        @std.sequential(clk)
        def proc():
            self.push_ack <<= False
            self.pop_valid <<= False
            self.pop_data <<= Null
            self.front <<= Null
            # front() is undefined while empty: only look at it when there is something (as upstream test_stack_01)
            self.front_valid <<= False
            if not stack.empty():
                self.front <<= stack.front()
                self.front_valid <<= True
            if {gate}:
                stack.push(self.push_data)
                self.push_ack <<= True
            if self.pop_req and not stack.empty():
                self.pop_data <<= stack.pop()
                self.pop_valid <<= True
            if self.reset_req:
                stack.reset()
"""


def render(cfg):
    return render_fifo(cfg) if cfg[0] == "fifo" else render_stack(cfg)


def key(cfg):
    if cfg[0] == "fifo":
        _, T, n, tx, rx, ctxs = cfg
        return f"fifo/{T}/N={n}/tx={tx},rx={rx}/ctx={ctxs}"
    _, T, n, mode = cfg
    return f"stack/{T}/N={n}/{mode}"

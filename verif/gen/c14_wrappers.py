"""C14: CoHDL source text of the wrapper entities around std.Fifo / std.Stack and the configuration lists.

A configuration is a plain tuple (picklable, printable, usable as a finding key):

    ("fifo",  T, N, tx_delay, rx_delay, contexts)     T in {"Bit", "BitVector[2]"}, contexts in {1, "1r", 2}
                                                      (1: one context, push code first; "1r": one context, pop code
                                                       first; 2: sender and receiver contexts on the same clock;
                                                       "2o": as 2, and each context also registers its own view of
                                                       full()/empty() every clock, read AFTER its push/pop code;
                                                       "2b": as 2o but the views are read BEFORE the push/pop code)
    ("stack", T, N, mode)                             mode in {"NO_OVERFLOW", "DROP_OLD"}

The wrappers respect the documented preconditions *as seen from the calling context*: a push request is
forwarded only while the container's own full() is false, a pop request only while empty() is false
(DROP_OLD stack: every push is forwarded - that is what the mode documents).
"""
from __future__ import annotations

TYPES = {"Bit": 1, "BitVector[2]": 2}


def width(T):
    return AGG[T][0] if T in AGG else TYPES[T]


def delay_kwargs(tx, rx):
    """constructor arguments; (0,0) = the zero-delay Fifo / flag"""
    if tx == 0 and rx == 0:
        return ""
    if tx == rx:
        return f"delay={tx}"
    return f"tx_delay={tx}, rx_delay={rx}"


QUICK_DELAYS = [(1, 1), (1, 2), (2, 1)]
ONE_SIDED = [(0, 1), (1, 0)]
MORE_DELAYS = [(2, 2), (3, 3), (0, 2), (2, 0), (1, 3), (3, 1), (0, 3), (3, 0)]


def fifo_configs(thorough):
    """DESIGN.md C14: T x N x delay configs x {single, two} contexts.  The reachable space grows with
    |T|^N (stale memory words are design state and are not abstracted), so the largest N are explored
    with the smaller element type (sizes measured, see notes/C14.md)."""
    out = []

    def add(T, ns, delays, ctx_kinds=(1, "1r", 2)):
        for n in ns:
            for tx, rx in delays:
                for ctxs in ctx_kinds:
                    c = ("fifo", T, n, tx, rx, ctxs)
                    if c not in out:
                        out.append(c)

    # complete small bound (quick, seed independent)
    add("Bit", (2, 3, 4, 5), [(0, 0)])
    add("BitVector[2]", (2, 3, 4, 5), [(0, 0)])
    add("Bit", (2, 3, 4), QUICK_DELAYS)
    add("BitVector[2]", (2,), QUICK_DELAYS)
    add("BitVector[2]", (3,), [(1, 1)])
    add("Bit", (2, 3), ONE_SIDED)
    # delay lines of >= 2 stages (delay >= 3) in each direction, and through the `delay=` shorthand
    add("Bit", (2, 3), [(3, 0), (0, 3), (3, 3), (4, 4)], (2,))
    add("Bit", (2, 3), [(0, 0)] + QUICK_DELAYS + ONE_SIDED, ("2o",))
    add("Bit", (2, 3), [(0, 0), (1, 1)], ("2b",))
    # aggregate element types (serialised records / arrays), zero delay, two contexts; N bounded by the width
    for T in (AGG if thorough else QUICK_AGG):
        w = AGG[T][0]
        ns = (2, 3) if w <= 3 else (2,)
        if thorough and w <= 3:
            ns = (2, 3, 4)
        add(T, ns, [(0, 0)], (2,))
    add("Rec2:kwrev", (2,), [(1, 1)], (2,))
    add("RecA:list", (2,), [(1, 1)], (2,))
    if thorough:
        add("Bit", (6, 7, 8), [(0, 0)])
        add("BitVector[2]", (6,), [(0, 0)], (1, 2))
        add("Bit", (5,), QUICK_DELAYS)
        add("Bit", (6,), [(1, 1)])
        add("Bit", (4, 5), ONE_SIDED)
        add("Bit", (2, 3, 4, 5), MORE_DELAYS)
        add("BitVector[2]", (3,), QUICK_DELAYS)
        add("BitVector[2]", (4,), [(1, 1)])
        add("BitVector[2]", (2, 3), ONE_SIDED + [(2, 2), (0, 2), (2, 0)])
        add("Bit", (4, 5), [(0, 0)] + QUICK_DELAYS + ONE_SIDED, ("2o",))
        add("BitVector[2]", (2, 3), [(0, 0)] + QUICK_DELAYS, ("2o",))
        add("Bit", (2, 3), MORE_DELAYS, ("2o",))
        add("Bit", (2, 3), QUICK_DELAYS[1:] + ONE_SIDED, ("2b",))
    return out


def stack_configs(thorough):
    ns = (1, 2, 3, 4, 5, 6) if thorough else (1, 2, 3, 4)
    out = []
    for T in TYPES:
        for n in ns:
            for mode in ("NO_OVERFLOW", "DROP_OLD"):
                out.append(("stack", T, n, mode))
    for T in (AGG if thorough else QUICK_AGG):
        w = AGG[T][0]
        for n in ((2, 3) if thorough and w <= 3 else (2,)):
            for mode in ("NO_OVERFLOW", "DROP_OLD"):
                out.append(("stack", T, n, mode))
    return out



# ---------------------------------------------------------------------------------------------------
# aggregate element types (serialised through to_bits / from_bits inside the container's std.Array).
# The wrapper gets the element as BitVector[W] `push_data`, builds the aggregate FIELD BY FIELD (never via
# from_bits), and after pop/front re-assembles BitVector[W] field by field (never via to_bits), so the reference
# simply compares integers: what went in comes out.   d = self.push_data;  {v} = the popped / front object.
#   name -> (W, module-level definitions, element type, local set-up in architecture (concurrent), build expr, unpack expr)
REC2 = "class Rec2(std.Record):\n    a: Bit\n    b: Unsigned[2]\n"
REC3 = "class Rec3(std.Record):\n    a: Bit\n    b: BitVector[2]\n    c: Bit\n"
OUTER = REC2 + "\n\nclass Outer(std.Record):\n    x: Bit\n    inner: Rec2\n"
RECA = "class RecA(std.Record):\n    u: Bit\n    arr: std.Array[Bit, 2]\n"
RECU = "class RecU(std.Record):\n    t: Bit\n    arr: std.Array[Unsigned[2], 2]\n"
U2 = "{v}.b.bitvector @ {v}.a"
U3 = "{v}.c @ {v}.b @ {v}.a"
UO = "{v}.inner.b.bitvector @ {v}.inner.a @ {v}.x"
UA = "{v}.arr[1] @ {v}.arr[0] @ {v}.u"
UU = "{v}.arr[1].bitvector @ {v}.arr[0].bitvector @ {v}.t"
SIG2 = "rsig = Signal[Rec2]()\n@std.concurrent\ndef fill():\n    rsig.a <<= d[0]\n    rsig.b <<= d[2:1].unsigned\n"
ARR2 = "in_arr = std.Array[Bit, 2]()\n@std.concurrent\ndef fill():\n    in_arr[0] <<= d[1]\n    in_arr[1] <<= d[2]\n"
ARR3 = "in_arr = std.Array[Bit, 3]()\n@std.concurrent\ndef fill():\n    in_arr[0] <<= d[0]\n    in_arr[1] <<= d[1]\n    in_arr[2] <<= d[2]\n"
ARRU = "in_arr = std.Array[Unsigned[2], 2]()\n@std.concurrent\ndef fill():\n    in_arr[0] <<= d[1:0].unsigned\n    in_arr[1] <<= d[3:2].unsigned\n"
ENUM = "class En(std.Enum[BitVector[2]]):\n    a = \"00\"\n    b = \"01\"\n    c = \"10\"\n    e = \"11\"\n"
RECE = ENUM + "\n\nclass RecE(std.Record):\n    f: Bit\n    en: En\n"
BITF = "from cohdl.std.bitfield import BitField, Field\n\n\nclass Bf(BitField[3]):\n    lo: Field[0]\n    hi: Field[2:1]\n"
AGG = {
    # Record, every constructor form
    "Rec2:pos": (3, REC2, "Rec2", "", "Rec2(d[0], d[2:1].unsigned)", U2),
    "Rec2:kw": (3, REC2, "Rec2", "", "Rec2(a=d[0], b=d[2:1].unsigned)", U2),
    "Rec2:kwrev": (3, REC2, "Rec2", "", "Rec2(b=d[2:1].unsigned, a=d[0])", U2),
    "Rec2:mix": (3, REC2, "Rec2", "", "Rec2(d[0], b=d[2:1].unsigned)", U2),
    "Rec2:sig": (3, REC2, "Rec2", SIG2, "rsig", U2),
    "Rec2:copy": (3, REC2, "Rec2", SIG2, "Rec2(rsig)", U2),
    "Rec3:cab": (4, REC3, "Rec3", "", "Rec3(c=d[3], a=d[0], b=d[2:1])", U3),
    "Rec3:bca": (4, REC3, "Rec3", "", "Rec3(b=d[2:1], c=d[3], a=d[0])", U3),
    "Rec3:mix": (4, REC3, "Rec3", "", "Rec3(d[0], c=d[3], b=d[2:1])", U3),
    # nested record
    "Outer:pos": (4, OUTER, "Outer", "", "Outer(d[0], Rec2(d[1], d[3:2].unsigned))", UO),
    "Outer:kwrev": (4, OUTER, "Outer", "", "Outer(inner=Rec2(b=d[3:2].unsigned, a=d[1]), x=d[0])", UO),
    # record with a std.Array member (as upstream test_fifo_03 / test_stack_02)
    "RecA:list": (3, RECA, "RecA", "", "RecA(u=d[0], arr=[d[1], d[2]])", UA),
    "RecA:kwrev": (3, RECA, "RecA", "", "RecA(arr=[d[1], d[2]], u=d[0])", UA),
    "RecA:sigarr": (3, RECA, "RecA", ARR2, "RecA(d[0], in_arr)", UA),
    "RecU:list": (5, RECU, "RecU", "", "RecU(t=d[0], arr=[d[2:1].unsigned, d[4:3].unsigned])", UU),
    # enum, record with an enum member, bit field
    "Enum": (2, ENUM, "En", "", "En._unsafe_init_(d)", "{v}.raw"),
    "RecE:kwrev": (3, RECE, "RecE", "", "RecE(en=En._unsafe_init_(d[2:1]), f=d[0])", "{v}.en.raw @ {v}.f"),
    "BitField": (3, BITF, "Bf", "", "Bf(d)", "{v}.hi @ {v}.lo"),
    # std.Array itself as element type
    "ArrB3": (3, "", "std.Array[Bit, 3]", ARR3, "in_arr", "{v}[2] @ {v}[1] @ {v}[0]"),
    "ArrU2": (4, "", "std.Array[Unsigned[2], 2]", ARRU, "in_arr", "{v}[1].bitvector @ {v}[0].bitvector"),
}
QUICK_AGG = [k for k in AGG if k != "RecU:list"]


def is_agg(T):
    return T in AGG


def _elem(T):
    """(port type, element type, module definitions, architecture set-up, push expression, unpack template)"""
    if T in AGG:
        w, defs, et, setup, build, unpack = AGG[T]
        return f"BitVector[{w}]", et, defs, setup, build, unpack
    return T, T, "", "", "self.push_data", "{v}"


def _indent(text, n):
    return "".join(" " * n + l + "\n" if l else "\n" for l in text.split("\n")) if text else ""


HEADER = """from __future__ import annotations
import cohdl
from cohdl import std, Bit, BitVector, Port, Null, Unsigned, Signal
"""


def render_fifo(cfg):
    _, T, n, tx, rx, ctxs = cfg
    kw = delay_kwargs(tx, rx)
    PT, ET, defs, setup, build, unpack = _elem(T)
    if is_agg(T):
        pop_stmt = "popped = fifo.pop()\n                self.pop_data <<= " + unpack.format(v="popped")
        front_stmt = "fr = fifo.front()\n            self.front <<= " + unpack.format(v="fr")
    else:
        pop_stmt = "self.pop_data <<= fifo.pop()"
        front_stmt = "self.front <<= fifo.front()"
    push = f"""            self.push_ack <<= False
            if self.push_req and not fifo.full():
                fifo.push({build})
                self.push_ack <<= True
"""
    pop = f"""            self.pop_valid <<= False
            self.pop_data <<= Null
            if self.pop_req and not fifo.empty():
                {pop_stmt}
                self.pop_valid <<= True
"""
    if ctxs in (1, "1r"):
        first, second = (push, pop) if ctxs == 1 else (pop, push)
        procs = f"""        @std.sequential(clk)
        def proc():
{first}{second}"""
    elif ctxs == 2:
        procs = f"""        @std.sequential(clk)
        def sender():
{push}
        @std.sequential(clk)
        def receiver():
{pop}"""
    else:
        obs_tx = """            self.tx_full <<= fifo.full()
            self.tx_empty <<= fifo.empty()
"""
        obs_rx = """            self.rx_full <<= fifo.full()
            self.rx_empty <<= fifo.empty()
"""
        s_body, r_body = (push + obs_tx, pop + obs_rx) if ctxs == "2o" else (obs_tx + push, obs_rx + pop)
        procs = f"""        @std.sequential(clk)
        def sender():
{s_body}
        @std.sequential(clk)
        def receiver():
{r_body}"""
    views = """    tx_full = Port.output(Bit, default=False)
    tx_empty = Port.output(Bit, default=True)
    rx_full = Port.output(Bit, default=False)
    rx_empty = Port.output(Bit, default=True)
""" if ctxs in ("2o", "2b") else ""
    return f"""{HEADER}
{defs}

class T(cohdl.Entity):
    clk = Port.input(Bit)
    push_req = Port.input(Bit)
    push_data = Port.input({PT})
    pop_req = Port.input(Bit)

    push_ack = Port.output(Bit, default=False)
    pop_valid = Port.output(Bit, default=False)
    pop_data = Port.output({PT}, default=Null)
    empty = Port.output(Bit)
    full = Port.output(Bit)
    front = Port.output({PT})
{views}
    def architecture(self):
        clk = std.Clock(self.clk)
        d = self.push_data
        fifo = std.Fifo[{ET}, {n}]({kw})
{_indent(setup, 8)}
        @std.concurrent
        def logic():
            self.empty <<= fifo.empty()
            self.full <<= fifo.full()
            {front_stmt}

{procs}
"""


def render_stack(cfg):
    _, T, n, mode = cfg
    sw = max(1, n.bit_length())
    gate = "self.push_req" if mode == "DROP_OLD" else "self.push_req and not stack.full()"
    PT, ET, defs, setup, build, unpack = _elem(T)
    if is_agg(T):
        pop_stmt = "popped = stack.pop()\n                self.pop_data <<= " + unpack.format(v="popped")
        front_stmt = "fr = stack.front()\n                self.front <<= " + unpack.format(v="fr")
    else:
        pop_stmt = "self.pop_data <<= stack.pop()"
        front_stmt = "self.front <<= stack.front()"
    return f"""{HEADER}
{defs}

class T(cohdl.Entity):
    clk = Port.input(Bit)
    push_req = Port.input(Bit)
    push_data = Port.input({PT})
    pop_req = Port.input(Bit)
    reset_req = Port.input(Bit)

    push_ack = Port.output(Bit, default=False)
    pop_valid = Port.output(Bit, default=False)
    pop_data = Port.output({PT}, default=Null)
    empty = Port.output(Bit)
    full = Port.output(Bit)
    size = Port.output(Unsigned[{sw}])
    front_valid = Port.output(Bit, default=False)
    front = Port.output({PT}, default=Null)

    def architecture(self):
        clk = std.Clock(self.clk)
        d = self.push_data
        stack = std.Stack[{ET}, {n}](mode=std.StackMode.{mode})
{_indent(setup, 8)}
        @std.concurrent
        def logic():
            self.empty <<= stack.empty()
            self.full <<= stack.full()
            self.size <<= stack.size()

        @std.sequential(clk)
        def proc():
            self.push_ack <<= False
            self.pop_valid <<= False
            self.pop_data <<= Null
            self.front <<= Null
            # front() is undefined while empty: only look at it when there is something (as upstream test_stack_01)
            self.front_valid <<= False
            if not stack.empty():
                {front_stmt}
                self.front_valid <<= True
            if {gate}:
                stack.push({build})
                self.push_ack <<= True
            if self.pop_req and not stack.empty():
                {pop_stmt}
                self.pop_valid <<= True
            if self.reset_req:
                stack.reset()
"""


def render_fifo2(cfg):
    """two delayed Fifos whose push ends live in one context and whose pop ends live in another one;
    Fifo 0 has (tx, rx), Fifo 1 has (rx, tx); each with its own requests"""
    _, T, n, tx, rx, _ = cfg
    ports = "    clk = Port.input(Bit)\n"
    decl = push = pop = ""
    for i, (t, r) in enumerate(((tx, rx), (rx, tx))):
        ports += f"""    push_req{i} = Port.input(Bit)
    push_data{i} = Port.input({T})
    pop_req{i} = Port.input(Bit)
    push_ack{i} = Port.output(Bit, default=False)
    pop_valid{i} = Port.output(Bit, default=False)
    pop_data{i} = Port.output({T}, default=Null)
"""
        decl += f"        fifo{i} = std.Fifo[{T}, {n}](name=\"fifo{i}\", {delay_kwargs(t, r)})\n"
        push += f"""            self.push_ack{i} <<= False
            if self.push_req{i} and not fifo{i}.full():
                fifo{i}.push(self.push_data{i})
                self.push_ack{i} <<= True
"""
        pop += f"""            self.pop_valid{i} <<= False
            self.pop_data{i} <<= Null
            if self.pop_req{i} and not fifo{i}.empty():
                self.pop_data{i} <<= fifo{i}.pop()
                self.pop_valid{i} <<= True
"""
    return f"""{HEADER}

class T(cohdl.Entity):
{ports}
    def architecture(self):
        clk = std.Clock(self.clk)
{decl}
        @std.sequential(clk)
        def sender():
{push}
        @std.sequential(clk)
        def receiver():
{pop}"""


def fifo2_configs(thorough):
    """two delayed Fifos in one sender / one receiver context, independent requests for each (full product menu);
    measured: Bit N=2 (1,1) = 35k states x 36 choices; N=3 is beyond 10^6 states (the two index ping-pongs drift)"""
    out = [("fifo2", "Bit", 2, 1, 1, 2), ("fifo2", "Bit", 2, 1, 2, 2), ("fifo2", "Bit", 2, 0, 1, 2)]
    if thorough:
        out += [("fifo2", "Bit", 2, 2, 2, 2), ("fifo2", "Bit", 2, 3, 1, 2), ("fifo2", "Bit", 2, 0, 2, 2),
                ("fifo2", "BitVector[2]", 2, 1, 1, 2)]
    return out


def render(cfg):
    if cfg[0] == "fifo2":
        return render_fifo2(cfg)
    return render_fifo(cfg) if cfg[0] == "fifo" else render_stack(cfg)


def key(cfg):
    if cfg[0] == "fifo2":
        _, T, n, tx, rx, ctxs = cfg
        return f"fifo2/{T}/N={n}/tx={tx},rx={rx}+tx={rx},rx={tx}/ctx={ctxs}"
    if cfg[0] == "fifo":
        _, T, n, tx, rx, ctxs = cfg
        return f"fifo/{T}/N={n}/tx={tx},rx={rx}/ctx={ctxs}"
    _, T, n, mode = cfg
    return f"stack/{T}/N={n}/{mode}"

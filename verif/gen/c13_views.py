"""C13 part 2: views of qualified objects alias the storage of their root.

A *chain* is a sequence of view operations applied to a root object of some qualifier kind, followed by a
terminal access mode ('whole' = use the view itself, 'iter' = iterate it and use every element).

The reference model of a view is independent of cohdl: the list of root bit positions (LSB first) the
view stands for, plus the documented kind of the result (from _type_qualifier.pyi: slices give BitVector,
.unsigned/.signed/.bitvector give that kind, indices/iteration/msb()/lsb() give Bit).
"""
from __future__ import annotations

from cohdl import AssignMode, Bit, BitVector, Port, Signal, Signed, Temporary, Unsigned, Variable

HEADER = ("from cohdl import Entity, Port, Bit, BitVector, Unsigned, Signed, Signal, Variable, Temporary, Array\n"
          "from cohdl import std\n")

KIND_PY = {"BV": "BitVector", "U": "Unsigned", "S": "Signed"}
QKINDS = [("Signal", None), ("Variable", None), ("Temporary", None), ("Port", "IN"), ("Port", "OUT"), ("Port", "INOUT")]
WRITABLE = [("Signal", None), ("Variable", None), ("Port", "OUT"), ("Port", "INOUT")]


def qname(q):
    return {"LSignal": "local Signal(init)", "LVariable": "local Variable(init)"}.get(q[0], q[0]) if q[1] is None else f"Port.{q[1]}"


# ---------------------------------------------------------------------------------------------
# view operations and the reference model
# ---------------------------------------------------------------------------------------------
ARR_ELEM_W, ARR_COUNT = 2, 2  # the array root used in emitted designs: Array[BitVector[2], 2] (4 bits)


def root_model(kind, W):
    if kind == "ARR":
        return ("ARR", [list(range(i * ARR_ELEM_W, (i + 1) * ARR_ELEM_W)) for i in range(ARR_COUNT)])
    return (kind, list(range(W)))


def ops_for(kind, k, extended=False):
    """all view operations applicable to a vector view of documented kind `kind` and width k"""
    if kind == "ARR":
        return [("ai", i) for i in range(k)]
    out = [("u",), ("s",), ("b",)]
    out += [("i", j) for j in range(k)]
    out += [("sl", h, l) for l in range(k) for h in range(l, k)]
    out += [("msb",), ("lsb",)]
    out += [("msbn", n) for n in range(1, k + 1)]
    out += [("lsbn", n) for n in range(1, k + 1)]
    if extended:
        out += [("msbr", r) for r in range(0, k)]
        out += [("lsbr", r) for r in range(0, k)]
        out += [("left",), ("right",)]
        out += [("leftn", n) for n in range(1, k + 1)]
        out += [("rightn", n) for n in range(1, k + 1)]
    return out


def apply_model(model, op):
    """model = (kind, [root bit positions LSB first]); returns the model of op(view)"""
    kind, L = model
    k = len(L)
    t = op[0]
    if kind == "Bit":
        raise ValueError("no views of a Bit")
    if t == "ai":
        return ("BV", L[op[1]])
    if t == "u":
        return ("U", L)
    if t == "s":
        return ("S", L)
    if t == "b":
        return ("BV", L)
    if t == "i":
        return ("Bit", [L[op[1]]])
    if t == "sl":
        return ("BV", L[op[2]:op[1] + 1])
    # all vectors here are 'downto': left = most significant side
    if t in ("msb", "left"):
        return ("Bit", [L[-1]])
    if t in ("lsb", "right"):
        return ("Bit", [L[0]])
    if t in ("msbn", "leftn"):
        return ("BV", L[k - op[1]:])
    if t in ("lsbn", "rightn"):
        return ("BV", L[:op[1]])
    if t == "msbr":
        return ("BV", L[op[1]:])
    if t == "lsbr":
        return ("BV", L[:k - op[1]])
    raise ValueError(op)


def naive_last_offset_model(root_model, chain):
    """What a view would denote if, inside the addressed vector (the root, or the array element selected by a
    leading element index), only the offsets of the LAST range-producing operation were honoured and the
    offsets of the enclosing ranges dropped.  Used only to label a mismatch, never as an oracle."""
    base = root_model
    ops = list(chain)
    if ops and ops[0][0] == "ai":
        base = apply_model(base, ops[0])
        ops = ops[1:]
    last_range = None
    for i, op in enumerate(ops):
        if is_range_op(op):
            last_range = i
    if last_range is None:
        return None
    cur = base
    for i, op in enumerate(ops):
        nxt = apply_model(cur, op)
        if i == last_range:
            rel = apply_model((cur[0], list(range(len(cur[1])))), op)[1]
            nxt = (nxt[0], [base[1][j] for j in rel])
        cur = nxt
    return cur


def op_text(op):
    t = op[0]
    if t == "u":
        return ".unsigned"
    if t == "s":
        return ".signed"
    if t == "b":
        return ".bitvector"
    if t in ("i", "ai"):
        return f"[{op[1]}]"
    if t == "sl":
        return f"[{op[1]}:{op[2]}]"
    if t == "msb":
        return ".msb()"
    if t == "lsb":
        return ".lsb()"
    if t == "msbn":
        return f".msb({op[1]})"
    if t == "lsbn":
        return f".lsb({op[1]})"
    if t == "msbr":
        return f".msb(rest={op[1]})"
    if t == "lsbr":
        return f".lsb(rest={op[1]})"
    if t in ("left", "right"):
        return f".{t}()"
    if t in ("leftn", "rightn"):
        return f".{t[:-1]}({op[1]})"
    raise ValueError(op)


def op_key(op):
    """bracket free rendering for finding keys (keys are matched with fnmatch)"""
    t = op[0]
    return {"u": "unsigned", "s": "signed", "b": "bitvector", "msb": "msb()", "lsb": "lsb()"}.get(t) or (
        f"idx({op[1]})" if t == "i" else f"elem({op[1]})" if t == "ai" else f"slice({op[1]}:{op[2]})" if t == "sl" else
        f"msb({op[1]})" if t == "msbn" else f"lsb({op[1]})" if t == "lsbn" else
        f"msb(rest={op[1]})" if t == "msbr" else f"lsb(rest={op[1]})" if t == "lsbr" else
        f"{t}()" if t in ("left", "right") else f"{t[:-1]}({op[1]})")


def chain_text(chain):
    return "".join(op_text(o) for o in chain)


def chain_key(chain):
    return ".".join(op_key(o) for o in chain) or "root"


def is_range_op(op):
    return op[0] in ("sl", "msbn", "lsbn", "msbr", "lsbr", "leftn", "rightn")


def chain_class(chain):
    n = sum(1 for o in chain if is_range_op(o))
    return "nested-slice" if n >= 2 else ("slice" if n == 1 else "plain")


SUBSCRIPTS = ("i", "sl", "ai")


def chains(root_kind, W, max_len, extended=False, only=None):
    """all chains of <= max_len operations starting at a vector root; yields (chain, model).
    only: restrict the operations to these kinds (e.g. SUBSCRIPTS = plain [i] / [h:l] subscripts)"""
    root = root_model(root_kind, W)
    frontier = [((), root)]
    yield (), root
    for _ in range(max_len):
        nxt = []
        for ch, m in frontier:
            if m[0] == "Bit":
                continue
            for op in ops_for(m[0], len(m[1]), extended):
                if only is not None and op[0] not in only:
                    continue
                m2 = apply_model(m, op)
                c2 = ch + (op,)
                yield c2, m2
                nxt.append((c2, m2))
        frontier = nxt


# ---------------------------------------------------------------------------------------------
# Python level
# ---------------------------------------------------------------------------------------------
def _imports():
    return dict(Bit=Bit, BV=BitVector, U=Unsigned, S=Signed, Signal=Signal, Variable=Variable,
                Temporary=Temporary, Port=Port, AssignMode=AssignMode)


def qclass(env, q, wrapped):
    Port = env["Port"]
    if q[0] == "Port":
        return Port[wrapped, getattr(Port.Direction, {"IN": "INPUT", "OUT": "OUTPUT", "INOUT": "INOUT"}[q[1]])]
    return env[q[0]][wrapped]


_value_cache = {}


def value_obj(env, kind, k, val):
    """an unqualified cohdl value of documented kind/width holding the bit pattern val (only ever used as the
    source of an assignment, so the objects are shared)"""
    key = (kind, k, val)
    r = _value_cache.get(key)
    if r is None:
        if kind == "Bit":
            r = env["Bit"](bool(val & 1))
        else:
            bits = format(val, f"0{k}b")
            r = env[kind][k](env["BV"][k](bits)) if kind != "BV" else env["BV"][k](bits)
        _value_cache[key] = r
    return r


def bits_of(obj):
    """the Bit objects behind a qualified object, LSB first, through the public API (get() + iteration)"""
    v = obj.get()
    if isinstance(v, Bit):
        return [v]
    return list(v)


def read_int(obj):
    n = 0
    for i, b in enumerate(bits_of(obj)):
        if bool(b):
            n |= 1 << i
    return n


def apply_py(view, op):
    t = op[0]
    if t == "u":
        return view.unsigned
    if t == "s":
        return view.signed
    if t == "b":
        return view.bitvector
    if t == "i":
        return view[op[1]]
    if t == "sl":
        return view[op[1]:op[2]]
    if t == "msb":
        return view.msb()
    if t == "lsb":
        return view.lsb()
    if t == "msbn":
        return view.msb(op[1])
    if t == "lsbn":
        return view.lsb(op[1])
    if t == "msbr":
        return view.msb(rest=op[1])
    if t == "lsbr":
        return view.lsb(rest=op[1])
    if t == "ai":
        return view[op[1]]
    if t == "left":
        return view.left()
    if t == "right":
        return view.right()
    if t == "leftn":
        return view.left(op[1])
    if t == "rightn":
        return view.right(op[1])
    raise ValueError(op)


def refspec_positions(view, rootm):
    """absolute root bit positions designated by view._ref_spec (what the backend will name in the emitted
    text): every entry is simplified exactly like the backend does (constant base offsets folded into
    offset / start / stop) and applied to the positions of the root.  None if not constant."""
    from cohdl._core._type_qualifier import Offset, Slice

    L = rootm[1]
    for spec in view._ref_spec:
        sp = spec.copy()
        sp.base_offset = list(sp.base_offset)
        sp.simplify()
        if sp.base_offset:
            return None
        if isinstance(sp, Offset):
            if not isinstance(sp.offset, int) or not 0 <= sp.offset < len(L):
                return ("out of range", sp.offset)
            L = L[sp.offset]
            if isinstance(L, int):
                L = [L]
        elif isinstance(sp, Slice):
            if not 0 <= sp.stop <= sp.start < len(L):
                return ("out of range", sp.start, sp.stop)
            L = L[sp.stop:sp.start + 1]
        else:
            return None
    return list(L)


def array_root(q):
    from cohdl import Array

    return qclass(_imports(), q, Array[BitVector[ARR_ELEM_W], ARR_COUNT])()


def canonical_type_problems(env, q, v, mkind, k):
    """canonicity: a view of documented kind K and width k of a 'downto' root is an object of THE class Q[K[k]]
    (identical object, primitive and qualified level) - not merely of some class that prints the same"""
    out = []
    prim = env[mkind][k]
    if type(v.get()) is not prim:
        out.append(("type", f"type(view.get()) is {type(v.get())!s} (order {getattr(type(v.get()), 'order', None)}), "
                            f"a different class object than {KIND_PY[mkind]}[{k}]"))
    if type(v) is not qclass(env, q, prim):
        out.append(("type", f"type(view) is {type(v)!s}, a different class object than {qname(q)}[{KIND_PY[mkind]}[{k}]]"))
    return out


def py_check_structure(env, q, kind, W, chain, iter_elem, siblings=True):
    """cheap Python-level check of one chain (no writes): root identity, direction/qualifier, storage identity
    (vector roots) and the bit positions designated by _root + _ref_spec against the reference model."""
    problems = []
    rootm = root_model(kind, W)
    model = rootm
    for op in chain:
        model = apply_model(model, op)
    if model[0] == "ARR":
        return [], None
    if iter_elem is not None:
        model = ("Bit", [model[1][iter_elem]])
    E = model[1]
    try:
        root = array_root(q) if kind == "ARR" else make_root(env, q, kind, W, 0)
        v = root
        for op in chain:
            v = apply_py(v, op)
        if iter_elem is not None:
            v = list(v)[iter_elem]
    except BaseException as e:  # noqa
        return None, f"{type(e).__name__}: {str(e)[:100]}"
    if v._root is not root:
        problems.append(("root", "view._root is not the root object"))
    if q[0] == "Port":
        if type(v).direction() is not type(root).direction():
            problems.append(("qualifier", "port direction not preserved"))
    elif v.qualifier is not root.qualifier:
        problems.append(("qualifier", f"view.qualifier is {v.qualifier}, root.qualifier is {root.qualifier}"))
    if model[0] != "Bit":
        if v.width != len(E):
            problems.append(("type", f"view width {v.width}, expected {len(E)}"))
        problems += canonical_type_problems(env, q, v, model[0], len(E))
    if kind != "ARR":
        rb = bits_of(root)
        vb = bits_of(v)
        if len(vb) != len(E) or any(vb[i] is not rb[p] for i, p in enumerate(E)):
            got = [next((j for j, b in enumerate(rb) if b is x), None) for x in vb]
            problems.append(("storage", f"view bits are root bits {got}, expected {E}"))
    pos = refspec_positions(v, rootm)
    if pos != list(E):
        problems.append(("refspec", f"_root + _ref_spec designate root bits {pos}, the view denotes bits {list(E)}"))
    # sibling views must not affect each other: the view, its cast views and a second copy of the view are all
    # resolved, then each one in turn gets the in-place simplify() the backend applies when it formats a reference,
    # and all of them are resolved again
    if siblings and iter_elem is None and model[0] != "Bit" and not problems:
        try:
            sibs = [("view", v), ("view.unsigned", v.unsigned), ("view.signed", v.signed), ("view.bitvector", v.bitvector)]
            v2 = root
            for op in chain:
                v2 = apply_py(v2, op)
            sibs.append(("second copy", v2))
        except BaseException as e:  # noqa
            return problems, None
        for first in range(len(sibs)):
            if first:  # fresh objects for every formatting order
                r2 = array_root(q) if kind == "ARR" else make_root(env, q, kind, W, 0)
                w = r2
                for op in chain:
                    w = apply_py(w, op)
                w2 = r2
                for op in chain:
                    w2 = apply_py(w2, op)
                sibs = [("view", w), ("view.unsigned", w.unsigned), ("view.signed", w.signed), ("view.bitvector", w.bitvector),
                        ("second copy", w2)]
            order = sibs[first:] + sibs[:first]
            for name, obj in order:
                for sp in obj._ref_spec:
                    sp.simplify()
                for n2, o2 in sibs:
                    p2 = refspec_positions(o2, rootm)
                    if p2 != list(E):
                        problems.append(("sibling", f"after the reference of '{name}' was simplified (as the backend does when it "
                                                    f"formats it) '{n2}' designates root bits {p2} instead of {list(E)}"))
                        return problems, None
    return problems, None


def write_apis(q):
    if q[0] in ("Signal", "Port"):
        return ["next", "ilshift", "assign", "push"]
    if q[0] == "Variable":
        return ["value", "imatmul", "assign"]
    return []


def do_write(env, q, api, target, value):
    AssignMode = env["AssignMode"]
    if api == "next":
        target.next = value
    elif api == "ilshift":
        target <<= value
    elif api == "push":
        target ^= value
    elif api == "value":
        target.value = value
    elif api == "imatmul":
        target @= value
    elif api == "assign":
        target._assign_(value, AssignMode.NEXT if q[0] != "Variable" else AssignMode.VALUE)
    else:
        raise ValueError(api)


def extract(val, positions):
    return sum(((val >> p) & 1) << i for i, p in enumerate(positions))


def insert(base, positions, val):
    for i, p in enumerate(positions):
        base = (base & ~(1 << p)) | (((val >> i) & 1) << p)
    return base


def make_root(env, q, kind, W, val):
    cls = qclass(env, q, env[kind][W])
    return cls(value_obj(env, kind, W, val))


def py_api_baseline(env, q, kind, W):
    """which write APIs work on the root object itself? returns {api: None | 'raises: ..' | 'lost'}"""
    out = {}
    for api in write_apis(q):
        root = make_root(env, q, kind, W, 0)
        try:
            do_write(env, q, api, root, value_obj(env, kind, W, (1 << W) - 1))
        except BaseException as e:  # noqa
            out[api] = f"raises {type(e).__name__}: {str(e)[:80]}"
            continue
        out[api] = None if read_int(root) == (1 << W) - 1 else "lost"
    return out


def py_check_chain(env, q, kind, W, chain, iter_elem, apis, root_values):
    """Python-level check of one chain (optionally followed by taking element `iter_elem` of iter(view)).
    Returns (problems, stats); problems: list of (tag, text)."""
    problems = []
    stats = {"py_reads": 0, "py_writes": 0, "py_api_rejected": 0}
    model = (kind, list(range(W)))
    for op in chain:
        model = apply_model(model, op)
    if iter_elem is not None:
        model = ("Bit", [model[1][iter_elem]])
    mkind, E = model
    k = len(E)

    def build(val):
        root = make_root(env, q, kind, W, val)
        v = root
        for op in chain:
            v = apply_py(v, op)
        if iter_elem is not None:
            elems = list(v)
            if len(elems) != len(v.get()):
                problems.append(("iter-len", f"iteration yields {len(elems)} elements"))
            v = elems[iter_elem]
        return root, v

    try:
        root, v = build(0)
    except BaseException as e:  # noqa
        return None, {"py_chain_rejected": 1, "why": f"{type(e).__name__}: {str(e)[:100]}"}

    # --- root and qualifier are preserved ---------------------------------------------------------
    if v._root is not root:
        problems.append(("root", "view._root is not the root object"))
    Port = env["Port"]
    want_cls = qclass(env, q, env["Bit"] if mkind == "Bit" else env[mkind])
    if mkind == "Bit":
        if type(v) is not want_cls:
            problems.append(("type", f"type(view) is {type(v)} not {want_cls}"))
    else:
        if not isinstance(v, want_cls) or v.width != k:
            problems.append(("type", f"type(view) is {type(v)}, expected a {want_cls} of width {k}"))
        problems += canonical_type_problems(env, q, v, mkind, k)
    if type(v) is not qclass(env, q, type(v).type):
        problems.append(("type", f"type(view) {type(v)} is not the canonical qualified class of its wrapped type"))
    if q[0] == "Port":
        if not isinstance(v, Port) or type(v).direction() is not type(root).direction():
            problems.append(("qualifier", "port direction not preserved"))
        if getattr(v.qualifier, "_direction", None) is not getattr(root.qualifier, "_direction", 0):
            problems.append(("qualifier", "view.qualifier direction differs from root.qualifier"))
    else:
        if v.qualifier is not root.qualifier or v.qualifier is not env[q[0]]:
            problems.append(("qualifier", f"view.qualifier is {v.qualifier}, root.qualifier is {root.qualifier}"))
    # --- storage identity through the public API ---------------------------------------------------
    rb = bits_of(root)
    vb = bits_of(v)
    if len(vb) != k or any(vb[i] is not rb[p] for i, p in enumerate(E)):
        got = [next((j for j, b in enumerate(rb) if b is x), None) for x in vb]
        problems.append(("storage", f"view bits are root bits {got}, expected {E}"))
    # --- read-through / write-through by value ------------------------------------------------------
    can_write_root = q[0] != "Temporary"
    for r in range(1 << W):
        if can_write_root and r != 0:
            do_write(env, q, "value" if q[0] == "Variable" else "next", root, value_obj(env, kind, W, r))
        elif r != 0:
            root, v = build(r)
        stats["py_reads"] += 1
        if read_int(v) != extract(r, E):
            problems.append(("read", f"root={r:0{W}b}: view reads {read_int(v):0{k}b}, expected {extract(r, E):0{k}b}"))
            break
    for api in apis:
        bad = False
        for r in root_values:
            for val in range(1 << k):
                do_write(env, q, "value" if q[0] == "Variable" else "next", root, value_obj(env, kind, W, r))
                try:
                    do_write(env, q, api, v, value_obj(env, mkind, k, val))
                except BaseException as e:  # noqa
                    stats["py_api_rejected"] += 1
                    bad = True
                    break
                stats["py_writes"] += 1
                got = read_int(root)
                exp = insert(r, E, val)
                if got != exp:
                    problems.append((f"write-{api}", f"root={r:0{W}b}, {val:0{k}b} written through the view with "
                                                     f"'{api}': root reads {got:0{W}b}, expected {exp:0{W}b}"))
                    bad = True
                    break
            if bad:
                break
    return problems, stats


# ---------------------------------------------------------------------------------------------
# emitted designs
# ---------------------------------------------------------------------------------------------
TYPED_TERMS = ("deduce", "op")
ASCENDING_DECL = None


def type_text(kind, k):
    return "Bit" if kind == "Bit" else f"{KIND_PY[kind]}[{k}]"


def render(q, kind, W, chain, term, mode):
    """CoHDL source of the wrapper entity for one chain.  Returns (source, model, out_kind, k)."""
    model = root_model(kind, W)
    for op in chain:
        model = apply_model(model, op)
    mkind, E = model
    k = len(E)
    if (term == "iter" and mkind == "Bit") or mkind == "ARR":
        return None
    if term in TYPED_TERMS and (mode != "read" or kind == "ARR"):
        return None
    if kind == "ARR":
        return render_array(q, W, chain, term, mode, model)
    ct = chain_text(chain)
    rt = type_text(kind, W)
    L = [HEADER, "class T(Entity):"]
    body = []
    pre = []
    if mode == "read":
        vt = type_text("BV", k) if term == "iter" else type_text(mkind, k)
        L.append(f"    x = Port.input({rt})")
        L.append(f"    o = Port.output({vt})")
        use = {"whole": lambda r: [f"self.o <<= {r}{ct}"],
               "iter": lambda r: [f"for i, b in enumerate({r}{ct}):", "    self.o[i] <<= b"],
               # uses of the view's TYPE: a variable whose type is deduced from the view / an operator with an
               # operand of the documented type of the view
               "deduce": lambda r: [f"t = Variable({r}{ct})", "self.o <<= t"],
               "op": lambda r: [f"self.o <<= {r}{ct} {'+' if mkind in ('U', 'S') else '&'} self.y"]}[term]
        if term == "op":
            L.append(f"    y = Port.input({vt})")
        typed = term in TYPED_TERMS
        split = []
        if q == ("Port", "IN"):
            ctx, body = ("sequential" if typed else "concurrent"), use("self.x")
        elif q[0] == "Port":
            L.append(f"    r = Port.{'output' if q[1] == 'OUT' else 'inout'}({rt})")
            ctx, body = "concurrent", ["self.r <<= self.x"] + use("self.r")
            if typed:
                ctx, body, split = "sequential", use("self.r"), ["self.r <<= self.x"]
        elif q[0] == "Signal":
            pre = [f"r = Signal[{rt}]()"]
            ctx, body = "concurrent", ["r.next = self.x"] + use("r")
            if typed:
                ctx, body, split = "sequential", use("r"), ["r.next = self.x"]
        elif q[0] == "Variable":
            pre = [f"r = Variable[{rt}]()"]
            ctx, body = "sequential", ["r.value = self.x"] + use("r")
        else:
            ctx, body = "sequential", [f"r = Temporary[{rt}](self.x)"] + use("r")
        extra = (["@std.concurrent", "def c0():"] + ["    " + b for b in split]) if split else []
    else:
        xt = type_text("BV", k) if term == "iter" else type_text(mkind, k)
        L.append(f"    d = Port.input({rt})")
        L.append(f"    x = Port.input({xt})")
        asg = "@=" if q[0] == "Variable" else "<<="
        wr = (lambda r: [f"v = {r}{ct}", f"v {asg} self.x"]) if term == "whole" else (
            lambda r: [f"for i, b in enumerate({r}{ct}):", f"    b {asg} self.x[i]"])
        extra = []
        if q[0] == "Port":
            L.append(f"    o = Port.{'output' if q[1] == 'OUT' else 'inout'}({rt})")
            ctx, body = "sequential", ["self.o <<= self.d"] + wr("self.o")
        elif q[0] == "Signal":
            L.append(f"    o = Port.output({rt})")
            pre = [f"r = Signal[{rt}]()"]
            ctx, body = "sequential", ["r.next = self.d"] + wr("r")
            extra = ["@std.concurrent", "def c():", "    self.o <<= r"]
        elif q[0] == "Variable":
            L.append(f"    o = Port.output({rt})")
            pre = [f"r = Variable[{rt}]()"]
            ctx, body = "sequential", ["r.value = self.d"] + wr("r") + ["self.o <<= r"]
        else:
            return None
    L.append("    def architecture(self):")
    for p in pre:
        L.append("        " + p)
    L.append(f"        @std.{ctx}")
    L.append("        def p():")
    for b in body:
        L.append("            " + b)
    for e in extra:
        L.append("        " + e)
    return "\n".join(L) + "\n", model, k


def render_array(q, W, chain, term, mode, model):
    """wrapper for a root of type Array[BitVector[2], 2] (Signal or Variable); the flat 4 bit ports d/x/o are
    copied element-wise into / out of the array"""
    if q[0] not in ("Signal", "Variable"):
        return None
    mkind, E = model
    k = len(E)
    ct = chain_text(chain)
    ew = ARR_ELEM_W
    at = f"Array[BitVector[{ew}],{ARR_COUNT}]"
    setter = "next" if q[0] == "Signal" else "value"
    fill = lambda src: [f"r[{i}].{setter} = self.{src}[{(i + 1) * ew - 1}:{i * ew}]" for i in range(ARR_COUNT)]
    back = [f"self.o[{(i + 1) * ew - 1}:{i * ew}] <<= r[{i}]" for i in range(ARR_COUNT)]
    L = [HEADER, "class T(Entity):"]
    extra = []
    if mode == "read":
        vt = type_text("BV", k) if term == "iter" else type_text(mkind, k)
        L += [f"    x = Port.input(BitVector[{W}])", f"    o = Port.output({vt})"]
        use = [f"self.o <<= r{ct}"] if term == "whole" else [f"for i, b in enumerate(r{ct}):", "    self.o[i] <<= b"]
        ctx, body = ("concurrent" if q[0] == "Signal" else "sequential"), fill("x") + use
    else:
        xt = type_text("BV", k) if term == "iter" else type_text(mkind, k)
        L += [f"    d = Port.input(BitVector[{W}])", f"    x = Port.input({xt})", f"    o = Port.output(BitVector[{W}])"]
        asg = "@=" if q[0] == "Variable" else "<<="
        wr = [f"v = r{ct}", f"v {asg} self.x"] if term == "whole" else [f"for i, b in enumerate(r{ct}):", f"    b {asg} self.x[i]"]
        ctx = "sequential"
        if q[0] == "Signal":
            body = fill("d") + wr
            extra = ["@std.concurrent", "def c():"] + ["    " + b for b in back]
        else:
            body = fill("d") + wr + back
    L.append("    def architecture(self):")
    L.append(f"        r = {q[0]}[{at}]()")
    L.append(f"        @std.{ctx}")
    L.append("        def p():")
    L += ["            " + b for b in body]
    L += ["        " + e for e in extra]
    return "\n".join(L) + "\n", model, k


LOCAL_Q = [("LSignal", None), ("LVariable", None)]  # constructed INSIDE the clocked body from a run-time value
SIB_TERMS = ("sib", "sibR", "sibC", "sibRC")         # siblings together; R = reversed statement order, C = clocked
CLOCK = "@std.sequential(std.Clock(self.clk))"


def render_local(q, kind, W, chain, term, mode, model):
    """root = Signal/Variable constructed in the clocked process from an input; read in the same activation through
    the view and as a whole (output f).  Per the documentation of Signal.__init__ such an initialisation 'takes place
    immediately like variable assignment', so in that activation the object reads as the input."""
    mkind, E = model
    k = len(E)
    ct = chain_text(chain)
    rt = type_text(kind, W)
    ctor = "Signal" if q[0] == "LSignal" else "Variable"
    L = [HEADER, "class T(Entity):", "    clk = Port.input(Bit)"]
    if mode == "read":
        vt = type_text("BV", k) if term == "iter" else type_text(mkind, k)
        L += [f"    x = Port.input({rt})", f"    o = Port.output({vt})", f"    f = Port.output({rt})"]
        use = [f"self.o <<= r{ct}"] if term == "whole" else [f"for i, b in enumerate(r{ct}):", "    self.o[i] <<= b"]
        body = [f"r = {ctor}[{rt}](self.x)"] + use + ["self.f <<= r"]
    else:
        if q[0] != "LVariable":
            return None  # a signal assignment to a local signal is not readable in the same activation: left open
        xt = type_text("BV", k) if term == "iter" else type_text(mkind, k)
        L += [f"    d = Port.input({rt})", f"    x = Port.input({xt})", f"    o = Port.output({rt})"]
        wr = [f"v = r{ct}", "v @= self.x"] if term == "whole" else [f"for i, b in enumerate(r{ct}):", "    b @= self.x[i]"]
        body = [f"r = Variable[{rt}](self.d)"] + wr + ["self.o <<= r"]
    L += ["    def architecture(self):", "        " + CLOCK, "        def p():"] + ["            " + b for b in body]
    return "\n".join(L) + "\n", model, k


SIB_OUTS = [("o0", "v", None), ("o1", "v.unsigned", "U"), ("o2", "v.signed", "S"), ("o3", "v.bitvector", "BV"), ("o4", None, None)]


def render_siblings(q, kind, W, chain, term, model):
    """one design that reads the view, each of its cast views and a second copy of the view"""
    mkind, E = model
    k = len(E)
    if mkind == "Bit" or kind == "ARR":
        return None
    clocked = term.endswith("C")
    rev = "R" in term
    ct = chain_text(chain)
    rt = type_text(kind, W)
    L = [HEADER, "class T(Entity):", f"    x = Port.input({rt})"]
    if clocked:
        L.append("    clk = Port.input(Bit)")
    for name, _, kd in SIB_OUTS:
        L.append(f"    {name} = Port.output({type_text(kd or mkind, k)})")
    pre, fill_conc, fill_seq = [], [], []
    if q == ("Port", "IN"):
        R = "self.x"
    elif q[0] == "Signal":
        pre, fill_conc, R = [f"r = Signal[{rt}]()"], ["r.next = self.x"], "r"
    elif q[0] == "Variable":
        pre, fill_seq, R = [f"r = Variable[{rt}]()"], ["r.value = self.x"], "r"
    elif q[0] == "LSignal":
        if not clocked:
            return None
        fill_seq, R = [f"r = Signal[{rt}](self.x)"], "r"
    else:
        return None
    stm = [f"self.{name} <<= {expr or (R + ct)}" for name, expr, _ in SIB_OUTS]
    if rev:
        stm.reverse()
    body = fill_seq + [f"v = {R}{ct}"] + stm
    if clocked:
        ctx = CLOCK
    else:
        ctx = "@std.sequential" if q[0] == "Variable" else "@std.concurrent"
        if not fill_seq and not clocked and fill_conc:
            body, fill_conc = fill_conc + body, []
    L.append("    def architecture(self):")
    L += ["        " + p for p in pre]
    L += ["        " + ctx, "        def p():"] + ["            " + b for b in body]
    if fill_conc:
        L += ["        @std.concurrent", "        def c0():"] + ["            " + b for b in fill_conc]
    return "\n".join(L) + "\n", model, k


def conv_terms(k):
    """sources of an assignment conversion through a view of width k: run-time Unsigned/Signed of width <= k"""
    return [f"conv:{sk}{m}" for sk in ("U", "S") for m in range(1, k + 1)]


NORESET_TERMS = ("nr1:whole", "nr1:iter", "nr0:whole", "nr0:iter")


def default_pattern(W):
    return 0x66 & ((1 << W) - 1) if W > 1 else 1


def render_conv(q, kind, W, chain, term, model):
    """write a NARROWER (or equal) run-time Unsigned/Signed source through a view whose documented type is
    Unsigned/Signed: the assignment converts to the VIEW's type (value preserving)"""
    mkind, E = model
    k = len(E)
    sk, m = term[5], int(term[6:])
    if mkind not in ("U", "S") or m > k or not chain or q not in WRITABLE:
        return None
    ct = chain_text(chain)
    rt = type_text(kind, W)
    L = [HEADER, "class T(Entity):", f"    d = Port.input({rt})", f"    x = Port.input({type_text(sk, m)})"]
    asg = "@=" if q[0] == "Variable" else "<<="
    pre, extra = [], []
    if q[0] == "Port":
        L.append(f"    o = Port.{'output' if q[1] == 'OUT' else 'inout'}({rt})")
        body = ["self.o <<= self.d", f"v = self.o{ct}", f"v {asg} self.x"]
    elif q[0] == "Signal":
        L.append(f"    o = Port.output({rt})")
        pre = [f"r = Signal[{rt}]()"]
        body = ["r.next = self.d", f"v = r{ct}", f"v {asg} self.x"]
        extra = ["@std.concurrent", "def c():", "    self.o <<= r"]
    else:
        L.append(f"    o = Port.output({rt})")
        pre = [f"r = Variable[{rt}]()"]
        body = ["r.value = self.d", f"v = r{ct}", f"v {asg} self.x", "self.o <<= r"]
    L.append("    def architecture(self):")
    L += ["        " + p for p in pre] + ["        @std.sequential", "        def p():"] + ["            " + b for b in body]
    L += ["        " + e for e in extra]
    return "\n".join(L) + "\n", model, k


def render_noreset(q, kind, W, chain, term, model):
    """root with a default value, declared with noreset=True|False, written ONLY through the view in a clocked context
    with reset; the root is observable on o"""
    mkind, E = model
    k = len(E)
    nr, sub = term[2] == "1", term[4:]
    if kind != "BV" or q not in (("Signal", None), ("Port", "OUT")) or (sub == "iter" and mkind == "Bit"):
        return None
    ct = chain_text(chain)
    rt = type_text(kind, W)
    dflt = format(default_pattern(W), f"0{W}b")
    xt = type_text("BV", k) if sub == "iter" else type_text(mkind, k)
    L = [HEADER, "class T(Entity):", "    clk = Port.input(Bit)", "    rst = Port.input(Bit)", f"    x = Port.input({xt})"]
    if q[0] == "Port":
        L.append(f"    o = Port.output({rt}, default=\"{dflt}\", noreset={nr})")
        pre, R, extra = [], "self.o", []
    else:
        L.append(f"    o = Port.output({rt})")
        pre, R = [f"r = Signal[{rt}](\"{dflt}\", noreset={nr})"], "r"
        extra = ["@std.concurrent", "def c():", "    self.o <<= r"]
    wr = [f"v = {R}{ct}", "v <<= self.x"] if sub == "whole" else [f"for i, b in enumerate({R}{ct}):", "    b <<= self.x[i]"]
    L.append("    def architecture(self):")
    L += ["        " + p for p in pre]
    L += ["        @std.sequential(std.Clock(self.clk), std.Reset(self.rst))", "        def p():"] + ["            " + b for b in wr]
    L += ["        " + e for e in extra]
    return "\n".join(L) + "\n", model, k


def check_emitted(q, kind, W, chain, term, mode, full_background=True):
    """compile + simulate one wrapper; returns dict(status=..., ...)"""
    from ..cohdl_util import compile_source
    from ..vhdl.elab import compile_design

    if term.startswith("conv:") or term.startswith("nr"):
        model = root_model(kind, W)
        for op in chain:
            model = apply_model(model, op)
        if model[0] in ("ARR", "Bit") and not term.startswith("nr") or model[0] == "ARR" or kind == "ARR" or mode != "write":
            return {"status": "na"}
        r = render_conv(q, kind, W, chain, term, model) if term.startswith("conv:") else render_noreset(q, kind, W, chain, term, model)
    elif term in SIB_TERMS or q in LOCAL_Q:
        model = root_model(kind, W)
        for op in chain:
            model = apply_model(model, op)
        if model[0] == "ARR" or kind == "ARR" or (term == "iter" and model[0] == "Bit") or (term in SIB_TERMS and mode != "read"):
            return {"status": "na"}
        r = render_siblings(q, kind, W, chain, term, model) if term in SIB_TERMS else \
            (render_local(q, kind, W, chain, term, mode, model) if term in ("whole", "iter") else None)
    else:
        r = render(q, kind, W, chain, term, mode)
    if r is None:
        return {"status": "na"}
    src, model, k = r
    mkind, E = model
    res, _ = compile_source(src, entity="T")
    if not res.ok:
        if term in TYPED_TERMS and chain and mkind != "Bit":
            # the same typed use applied to an object whose class is written K[k] directly
            ctl = _control_accepts(q, mkind, k, term)
            if ctl:
                return {"status": "mismatch", "src": src, "evals": 0, "observed": None,
                        "what": f"rejected ({res.error[:120]}) although the identical use of a {qname(q)}[{type_text(mkind, k)}] "
                                f"object is accepted: the view is not an object of the class {type_text(mkind, k)}"}
        return {"status": "rejected", "error": res.error, "src": src}
    import re

    asc = re.search(r"\b(std_logic_vector|unsigned|signed)\s*\(\s*\d+\s+to\s+\d+\s*\)", res.vhdl)
    if asc:
        return {"status": "static", "src": src, "vhdl": res.vhdl,
                "what": f"the design declares an object of ascending type '{asc.group(0)}' although every type in the source is 'downto'"}
    d = compile_design(res.vhdl)
    if d.findings or d.multi_driven:
        return {"status": "static", "what": f"static findings {d.findings[:2]} multi_driven={d.multi_driven}",
                "src": src, "vhdl": res.vhdl}
    sim = d.sim()
    evals = 0
    seen = set()
    if "clk = Port.input" in src:
        sim.set("clk", 0)
    if term.startswith("conv:"):
        sk, m = term[5], int(term[6:])
        for dv in sorted({0, (1 << W) - 1, 0x5 & ((1 << W) - 1), 0xA & ((1 << W) - 1)}):
            for xv in range(1 << m):
                val = xv - (1 << m) if sk == "S" and xv >> (m - 1) & 1 else xv
                lo, hi = (-(1 << (k - 1)), 1 << (k - 1)) if mkind == "S" else (0, 1 << k)
                if not lo <= val < hi:
                    continue  # not representable in the view's type: the statement says nothing
                sim.set_many({"d": dv, "x": xv})
                got = sim.get("o")
                got = int(got) if got is not None else None
                evals += 1
                seen.add(got)
                exp = insert(dv, E, val & ((1 << k) - 1))
                if got != exp:
                    return {"status": "mismatch", "src": src, "vhdl": res.vhdl, "evals": evals, "observed": None,
                            "what": f"d={dv:0{W}b}, {type_text(sk, m)} value {val} written through the {type_text(mkind, k)} view "
                                    f"(bits {E}): root becomes {fmt(got, W)}, the view must hold {val} = {val & ((1 << k) - 1):0{k}b}, "
                                    f"root {exp:0{W}b}"}
    elif term.startswith("nr"):
        nr = term[2] == "1"
        dflt = default_pattern(W)
        sim.set_many({"rst": 0, "x": 0})
        cur = dflt
        for xv in list(range(1 << k)) + list(range((1 << k) - 1, -1, -1)):
            for rst in (0, 1):
                sim.set_many({"rst": rst, "x": xv})
                sim.clock("clk")
                evals += 1
                if rst:
                    cur = cur if nr else dflt
                else:
                    cur = insert(cur, E, xv)
                got = sim.get("o")
                got = int(got) if got is not None else None
                seen.add(got)
                if got != cur:
                    return {"status": "mismatch", "src": src, "vhdl": res.vhdl, "evals": evals, "observed": None,
                            "what": f"root declared with default {dflt:0{W}b}, noreset={nr}, written only through the view: after "
                                    f"{'a clock with reset asserted' if rst else 'writing %s' % format(xv, '0%db' % k)} the root is "
                                    f"{fmt(got, W)}, expected {cur:0{W}b}"
                                    f"{' (noreset roots keep their value under reset)' if rst and nr else ''}"}
    elif term in SIB_TERMS:
        clocked = term.endswith("C")
        for xv in range(1 << W):
            sim.set("x", xv)
            if clocked:
                sim.clock("clk")
            exp = extract(xv, E)
            evals += 1
            for name, expr, _ in SIB_OUTS:
                got = sim.get(name)
                got = int(got) if got is not None else None
                seen.add(got)
                if got != exp:
                    return {"status": "mismatch", "src": src, "vhdl": res.vhdl, "evals": evals, "observed": None,
                            "what": f"x={xv:0{W}b}: output {name} (= {expr or 'second copy of the view'}) reads {fmt(got, k)}, "
                                    f"the view denotes bits {E} = {exp:0{k}b}"}
    elif q in LOCAL_Q and mode == "read":
        # a de Bruijn walk: every ordered pair (previous value, current value) occurs in consecutive clocks
        walk = debruijn2(1 << W)
        for i, xv in enumerate(walk):
            x1 = x2 = walk[i - 1] if i else xv
            if True:
                if True:
                    sim.set("x", xv)
                    sim.clock("clk")
                    evals += 1
                    got, full = sim.get("o"), sim.get("f")
                    got = int(got) if got is not None else None
                    full = int(full) if full is not None else None
                    seen.add(got)
                    exp = extract(xv, E)
                    if full != xv or got != exp:
                        return {"status": "mismatch", "src": src, "vhdl": res.vhdl, "evals": evals, "observed": None,
                                "what": f"clock {i} of the walk, previous x={x1:0{W}b}, x={xv:0{W}b}: whole object reads {fmt(full, W)}, "
                                        f"view reads {fmt(got, k)}; the view denotes bits {E} of the same object = {exp:0{k}b}"}
    elif q in LOCAL_Q:
        for dv in range(1 << W):
            for xv in range(1 << k):
                sim.set_many({"d": dv, "x": xv})
                sim.clock("clk")
                got = sim.get("o")
                got = int(got) if got is not None else None
                evals += 1
                seen.add(got)
                exp = insert(dv, E, xv)
                if got != exp:
                    return {"status": "mismatch", "src": src, "vhdl": res.vhdl, "evals": evals, "observed": None,
                            "what": f"d={dv:0{W}b} x={xv:0{k}b}: local variable becomes {fmt(got, W)}, writing the view (bits {E}) must give {exp:0{W}b}"}
    elif mode == "read" and term == "op":
        mask = (1 << k) - 1
        for xv in range(1 << W):
            for yv in range(1 << k):
                sim.set_many({"x": xv, "y": yv})
                got = sim.get("o")
                got = int(got) if got is not None else None
                evals += 1
                a = extract(xv, E)
                exp = (a + yv) & mask if mkind in ("U", "S") else a & yv
                seen.add(got)
                if got != exp:
                    return {"status": "mismatch", "src": src, "vhdl": res.vhdl, "evals": evals, "observed": None,
                            "what": f"x={xv:0{W}b} y={yv:0{k}b}: design computes {fmt(got, k)}, view (bits {E}) "
                                    f"{'+' if mkind in ('U', 'S') else '&'} y = {exp:0{k}b}"}
    elif mode == "read":
        for xv in range(1 << W):
            sim.set("x", xv)
            got = sim.get("o")
            got = int(got) if got is not None else None
            evals += 1
            exp = extract(xv, E)
            seen.add(got)
            if got != exp:
                return {"status": "mismatch", "src": src, "vhdl": res.vhdl, "evals": evals,
                        "what": f"x={xv:0{W}b}: design reads {fmt(got, k)} through the view, the view denotes bits {E} = {exp:0{k}b}",
                        "observed": observed_positions_read(sim, W, k)}
    else:
        dvals = range(1 << W) if full_background else sorted({0, (1 << W) - 1, 0x55 & ((1 << W) - 1), 0xAA & ((1 << W) - 1)})
        for dv in dvals:
            for xv in range(1 << k):
                sim.set_many({"d": dv, "x": xv})
                got = sim.get("o")
                got = int(got) if got is not None else None
                evals += 1
                exp = insert(dv, E, xv)
                seen.add(got)
                if got != exp:
                    return {"status": "mismatch", "src": src, "vhdl": res.vhdl, "evals": evals,
                            "what": f"d={dv:0{W}b} x={xv:0{k}b}: root becomes {fmt(got, W)}, writing the view (bits {E}) must give {exp:0{W}b}",
                            "observed": observed_positions_write(sim, W, k)}
    return {"status": "ok", "evals": evals, "distinct_outputs": len(seen), "k": k}


_control_cache = {}


def _control_accepts(q, mkind, k, term):
    from ..cohdl_util import compile_source

    key = (q, mkind, k, term)
    if key not in _control_cache:
        r = render(q, mkind, k, (), term, "read")
        _control_cache[key] = bool(r) and compile_source(r[0], entity="T")[0].ok
    return _control_cache[key]


def debruijn2(n):
    """cyclic sequence over range(n) in which every ordered pair occurs once as neighbours (+ first element repeated)"""
    a = [0] * (2 * n)
    seq = []

    def db(t, p):
        if t > 2:
            if 2 % p == 0:
                seq.extend(a[1:p + 1])
        else:
            a[t] = a[t - p]
            db(t + 1, p)
            for j in range(a[t - p] + 1, n):
                a[t] = j
                db(t + 1, t)

    db(1, 1)
    return seq + seq[:1]


def fmt(v, k):
    return "undefined" if v is None else format(v, f"0{k}b")


def observed_positions_read(sim, W, k):
    """which root bit does each output bit follow? (one-hot probing; None if not a plain copy)"""
    pos = [None] * k
    sim.set("x", 0)
    if sim.get("o") not in (0, False):
        return None
    for p in range(W):
        sim.set("x", 1 << p)
        o = sim.get("o")
        if o is None:
            return None
        o = int(o)
        for i in range(k):
            if o >> i & 1:
                if pos[i] is not None:
                    return None
                pos[i] = p
    return pos


def observed_positions_write(sim, W, k):
    pos = [None] * k
    sim.set_many({"d": 0, "x": 0})
    if sim.get("o") not in (0, False):
        return None
    for i in range(k):
        sim.set_many({"d": 0, "x": 1 << i})
        o = sim.get("o")
        if o is None:
            return None
        o = int(o)
        ones = [p for p in range(W) if o >> p & 1]
        if len(ones) != 1:
            return None
        pos[i] = ones[0]
    return pos

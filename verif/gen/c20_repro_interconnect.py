"""Stand-alone reproduction (C20): std.axi.axi4_light.interconnect.Interconnect is unusable on the unchanged tree.

Design: master port (addr_width=5) -> Interconnect -> register-map slave reserved at 0x10 (two MemWords).

Observed (unchanged tree):
 1. the background slave covers the whole address space and is last in `_all_slaves()`, so in `proc_connect` its
    assignments towards the master override those of every real slave: a write to 0x10 does reach the register, but the
    master gets the background slave's DECERR response; reads of 0x10 are answered with DECERR/0 instead of the register;
 2. the background slave raises rvalid/bvalid in the very cycle the interconnect activates it, i.e. together with
    arready/awready and therefore BEFORE the address handshake (AXI: a response must follow the request handshake);
 3. `await master.rddata.valid & master.rddata.ready` parses as `(await valid) & ready`: the route is torn down as soon as
    valid is seen, so a response that is not accepted at once is withdrawn (visible once 1. is out of the way);
 4. `master.wrdata.ready ^= slv.axi.wraddr.ready` (copy/paste: must be slv.axi.wrdata.ready): a slave that drops awready
    and wready separately (the register-map slave does) answers a write whose W beat the master never saw accepted
    (visible once 1. and 3. are out of the way; currently masked by 1.).

run: /venv/bin/python -W ignore /verif/verif/gen/c20_repro_interconnect.py     (exit 1 = defects present)
"""
from __future__ import annotations

import sys

sys.path.insert(0, "/verif")
from verif.cohdl_util import compile_source
from verif.vhdl.elab import compile_design
from verif.gen.c20_layouts import SRC_ICON

res, _ = compile_source(SRC_ICON, entity="T")
assert res.ok, res.error
sim = compile_design(res.vhdl).sim()
for n, (sid, ty, mode) in sim.ports.items():
    if mode == "in":
        sim.set(n, 0, settle=False)
sim.set("axi_reset", 1)  # active low
for _ in range(3):
    sim.clock("axi_clk")

bad = 0
# --- write 0x10 := 0x11223344 (AW and W together, bready high), wait for B
sim.set_many({"axi_awaddr": 0x10, "axi_awvalid": 1, "axi_wdata": 0x11223344, "axi_wstrb": 15, "axi_wvalid": 1, "axi_bready": 1})
aw_done = w_done = False
for clk in range(8):
    awr, wr, bv = sim.get("axi_awready"), sim.get("axi_wready"), sim.get("axi_bvalid")
    if bv and not (aw_done and w_done):
        print(f"clk {clk}: bvalid=1 (bresp={sim.get('axi_bresp'):02b}) although AW/W handshakes done = {aw_done}/{w_done}")
        bad = 1
    aw_done |= bool(awr)
    w_done |= bool(wr)
    sim.clock("axi_clk")
    if aw_done:
        sim.set("axi_awvalid", 0)
    if w_done:
        sim.set("axi_wvalid", 0)
print(f"after write of 0x10: register output o_w0 = {sim.get('o_w0'):08x}   expected 11223344")
bad |= sim.get("o_w0") != 0x11223344
sim.set("axi_bready", 0)
for _ in range(3):
    sim.clock("axi_clk")
# --- read 0x10, rready low for a while
sim.set_many({"axi_araddr": 0x10, "axi_arvalid": 1, "axi_rready": 0})
ar_done = False
for clk in range(6):
    arr, rv = sim.get("axi_arready"), sim.get("axi_rvalid")
    print(f"read clk {clk}: arvalid={sim.get_raw('axi_arvalid')} arready={arr} rvalid={rv} rresp={sim.get('axi_rresp'):02b} rdata={sim.get('axi_rdata'):08x}")
    if rv and not ar_done:
        print("          rvalid before the AR handshake")
        bad = 1
    ar_done |= bool(arr)
    sim.clock("axi_clk")
    if ar_done:
        sim.set("axi_arvalid", 0)
sys.exit(bad)

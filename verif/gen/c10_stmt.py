"""C10 family `stmt`: statement-level programs.

unpack   every target shape (TARGETS: plain, nested, starred at every position) x every source (SOURCES: lists, tuples,
         range, str, dict, nested) in four contexts: assignment from a literal, from a parameter, comprehension target,
         for-loop target.  CPython ValueError/TypeError on a length/shape mismatch is "no claim".
if       constant if / elif / else programs: every shape in IF_SHAPES x every condition (pair) in CONDS x every argument
         value in VALUES.
for      constant for loops and comprehension scoping (FOR table), argument n in 0..3.
assign   assignment forms and simple statements (ASSIGN table).
"""
from __future__ import annotations

import ast
import itertools
import re

from .c10_common import case

TARGETS = {
    "ab": "a, b", "abc": "a, b, c", "a_sb": "a, *b", "sa_b": "*a, b", "a_sb_c": "a, *b, c", "sa": "*a,", "a_b_sc": "a, b, *c",
    "list_ab": "[a, b]", "list_a_sb": "[a, *b]", "n_ab_c": "(a, b), c", "a_n_bc": "a, (b, c)", "a_n_b_sc": "a, (b, *c)",
    "n_a_sb_sc": "(a, *b), *c", "single_paren": "(a)", "one_tuple": "a,",
}
SOURCES = {
    "l3": "[1, 2, 3]", "t3": "(1, 2, 3)", "l2": "[1, 2]", "t2": "(1, 2)", "l1": "[1]", "t0": "()", "l4": "[1, 2, 3, 4]", "r3": "range(3)", "s3": "'abc'", "s2": "'ab'",
    "nest_t": "((1, 2), (3, 4))", "nest_l": "[(1, 2), 3]", "nest_r": "[1, (2, 3)]", "nest_long": "[1, [2, 3, 4]]", "nest_ll": "[[1, 2, 3], 4, 5]",
    "d2": "{'x': 1, 'y': 2}", "items": "list({'x': 1, 'y': 2}.items())", "zip2": "list(zip((1, 2), (3, 4)))",
}


def _names(target):
    return sorted(set(re.findall(r"[a-c]", target)))


def _ok(src):
    try:
        compile(src.replace("__S__", "_c0"), "<gen>", "exec")
        return True
    except SyntaxError:
        return False


def _star_from_tuple(target, value):
    """input feature used in keys: does some starred target take its items from a *tuple*?"""
    if not isinstance(target, (ast.Tuple, ast.List)):
        return False
    if not isinstance(value, (tuple, list)):
        return False
    elts = target.elts
    stars = [i for i, e in enumerate(elts) if isinstance(e, ast.Starred)]
    if stars:
        if len(value) < len(elts) - 1:
            return False
        if isinstance(value, tuple):
            return True
        i = stars[0]
        after = len(elts) - i - 1
        parts = list(value[:i]) + [list(value[i:len(value) - after])] + list(value[len(value) - after:])
    else:
        if len(value) != len(elts):
            return False
        parts = list(value)
    return any(_star_from_tuple(e, v) for e, v in zip(elts, parts) if not isinstance(e, ast.Starred))


def unpack_cases():
    for tk, t in TARGETS.items():
        names = _names(t)
        ret = "(" + "".join(n + ", " for n in names) + ")"
        tast = ast.parse(f"{t} = 0").body[0].targets[0]
        for sk, s in SOURCES.items():
            feat = "startuple" if _star_from_tuple(tast, eval(s)) else "plain"
            progs = (
                ("lit", f"def case__S__():\n    {t} = {s}\n    return {ret}\n", "case__S__()"),
                ("par", f"def case__S__(src):\n    {t} = src\n    return {ret}\n", f"case__S__({s})"),
                ("comp", f"def case__S__(src):\n    return [{ret} for ({t}) in [src, src]]\n", f"case__S__({s})"),
                ("for", f"def case__S__(src):\n    for {t} in [src]:\n        keep = {ret}\n    return 'done'\n", f"case__S__({s})"),
            )
            for ctx, defs, call in progs:
                if _ok(defs):
                    yield case(f"stmt/unpack/{ctx}/{feat}/{tk}/{sk}", defs, call)


CONDS = {
    "a": "a", "nota": "not a", "gt0": "a > 0", "eq1": "a == 1", "chain": "0 < a < 2", "and": "a and a > 1", "or": "a < 0 or a > 1",
    "isbool": "isinstance(a, bool)", "true": "True", "false": "False", "ne": "a != 2", "notgt": "not a > 1",
}
VALUES = ("0", "1", "2", "-1", "True", "False")

IF_SHAPES = {
    # one condition
    "ifelse_assign": ("    if {c}:\n        r = 'T'\n    else:\n        r = 'F'\n    return r\n", 1),
    "ifelse_return": ("    if {c}:\n        return 'T'\n    else:\n        return 'F'\n", 1),
    "if_fallthrough": ("    if {c}:\n        return 'T'\n    return 'F'\n", 1),
    "if_noelse_assign": ("    if {c}:\n        r = 'T'\n    return 'end'\n", 1),
    "if_pass": ("    if {c}:\n        pass\n    else:\n        return 'F'\n    return 'T'\n", 1),
    "ifexp": ("    return 'T' if {c} else 'F'\n", 1),
    "ifexp_nested": ("    return ('TT' if a == 1 else 'TF') if {c} else ('FT' if a == 0 else 'FF')\n", 1),
    "if_then_use": ("    if {c}:\n        k = 1\n    else:\n        k = 2\n    return [k, k + 1]\n", 1),
    "if_in_comp": ("    return [x for x in range(3) if {c}]\n", 1),
    "if_call": ("    def pick(t):\n        if t:\n            return 'T'\n        return 'F'\n    return pick({c})\n", 1),
    "if_none_return": ("    if {c}:\n        return\n    return 'F'\n", 1),
    # two conditions
    "elif": ("    if {c}:\n        r = 'A'\n    elif {d}:\n        r = 'B'\n    else:\n        r = 'C'\n    return r\n", 2),
    "elif_return": ("    if {c}:\n        return 'A'\n    elif {d}:\n        return 'B'\n    return 'C'\n", 2),
    "nested": ("    if {c}:\n        if {d}:\n            r = 'AA'\n        else:\n            r = 'AB'\n    else:\n        r = 'B'\n    return r\n", 2),
    "nested_else": ("    if {c}:\n        r = 'A'\n    else:\n        if {d}:\n            r = 'BA'\n        else:\n            r = 'BB'\n    return r\n", 2),
    "seq": ("    if {c}:\n        p = 'A'\n    else:\n        p = 'B'\n    if {d}:\n        q = 'C'\n    else:\n        q = 'D'\n    return (p, q)\n", 2),
    "and2": ("    if {c} and {d}:\n        return 'T'\n    return 'F'\n", 2),
    "or_not": ("    if {c} or not ({d}):\n        return 'T'\n    return 'F'\n", 2),
    "mixed_return": ("    if {c}:\n        if {d}:\n            return 'AA'\n        r = 'A'\n    else:\n        r = 'B'\n    return r\n", 2),
}


def if_cases(thorough):
    one_vals = VALUES
    for sk, (tmpl, n) in IF_SHAPES.items():
        if n == 1:
            for ck, c in CONDS.items():
                body = tmpl.format(c=c)
                for v in one_vals:
                    yield case(f"stmt/if/{sk}/{ck}/{v}", f"def case__S__(a):\n{body}", f"case__S__({v})")
        else:
            conds = list(CONDS.items()) if thorough else [kv for kv in CONDS.items() if kv[0] in ("a", "gt0", "eq1", "chain", "and", "false")]
            for (ck, c), (dk, d) in itertools.product(conds, conds):
                body = tmpl.format(c=c, d=d)
                for v in (VALUES if thorough else ("0", "1", "2", "-1")):
                    yield case(f"stmt/if/{sk}/{ck}.{dk}/{v}", f"def case__S__(a):\n{body}", f"case__S__({v})")


FOR = {
    "pass": "    for i in range(n):\n        pass\n    return 'end'\n",
    "local_in_body": "    for i in range(n):\n        x = i * 2\n        y = x + 1\n    return 'end'\n",
    "var_after": "    for i in range(n):\n        pass\n    return i\n",
    "body_local_after": "    for i in range(n):\n        x = i\n    return x\n",
    "else": "    for i in range(n):\n        pass\n    else:\n        return 'else'\n    return 'end'\n",
    "nested": "    for i in range(n):\n        for j in range(i):\n            k = (i, j)\n    return 'end'\n",
    "if_inside": "    for i in range(n):\n        if i == 1:\n            x = 'one'\n        else:\n            x = 'other'\n    return 'end'\n",
    "return_inside": "    for i in range(n):\n        return i\n    return 'none'\n",
    "return_in_if": "    for i in range(n):\n        if i == 1:\n            return 'hit'\n    return 'miss'\n",
    "break": "    for i in range(n):\n        if i == 1:\n            break\n    return 'end'\n",
    "tuple_target": "    for i, c in enumerate('ab'):\n        x = (i, c)\n    return n\n",
    "dict_items": "    for k, v in {'a': 1}.items():\n        x = (k, v)\n    return n\n",
    "zip": "    for a, b in zip([1, 2], (3, 4)):\n        x = a + b\n    return n\n",
    "same_name_twice": "    for i in range(n):\n        pass\n    for i in range(n):\n        pass\n    return 'end'\n",
    "comp_after_for": "    for i in range(n):\n        pass\n    return [i for i in range(n)]\n",
    "call_in_body": "    def g(v):\n        return v + 1\n    for i in range(n):\n        x = g(i)\n    return g(n)\n",
    "comp_basic": "    return [i * n for i in range(n)]\n",
    "comp_shadow_outer": "    i = 10\n    r = [i for i in range(n)]\n    return (i, r)\n",
    "comp_then_bind": "    r = [i for i in range(n)]\n    i = 10\n    return (i, r)\n",
    "comp_leak": "    r = [i for i in range(n)]\n    return i\n",
    "comp_uses_param": "    return [n for n in range(n)]\n",
    "comp_nested_dep": "    return [[j for j in range(i)] for i in range(n)]\n",
    "comp_two_gen": "    return [(i, j) for i in range(n) for j in range(i)]\n",
    "comp_same_var_twice": "    a = [i for i in range(n)]\n    b = [i + 1 for i in range(n)]\n    return (a, b)\n",
    "comp_in_comp_same_var": "    return [[i for i in range(2)] for i in range(n)]\n",
    "comp_cond_outer": "    k = 1\n    return [i for i in range(n) if i != k]\n",
    "comp_tuple_iter": "    return [x + n for x in (1, 2)]\n",
    "comp_call": "    def g(v):\n        return v * v\n    return [g(i) for i in range(n)]\n",
    "comp_ifexp_filter": "    return [('e' if i % 2 == 0 else 'o') for i in range(n) if i > 0]\n",
    "dictcomp": "    return {i: i + n for i in range(n)}\n",
    "dictcomp_dup": "    return {i % 2: i for i in range(n)}\n",
    "dictcomp_from_dict": "    d = {'a': n, 'b': 2}\n    return {k: v * 2 for k, v in d.items() if v > 0}\n",
    "genexp_list": "    return list(i for i in range(n))\n",
    "genexp_tuple": "    return tuple(i for i in range(n))\n",
    "genexp_any": "    return any(i > 1 for i in range(n))\n",
    "setcomp": "    return len({i for i in range(n)})\n",
}

ASSIGN = {
    "multi": "    a = b = n\n    return (a, b)\n",
    "multi_tuple": "    a = b, c = (n, 2)\n    return (a, b, c)\n",
    "ann": "    a: int = n\n    return a\n",
    "ann_noval": "    a: int\n    return n\n",
    "swap": "    a, b = 1, n\n    c, d = b, a\n    return (c, d)\n",
    "dependent": "    a = n + 1\n    b = a * 2\n    c = (a, b)\n    return c\n",
    "rebind": "    a = n\n    a = a + 1\n    return a\n",
    "rebind_other_branch": "    if n > 1:\n        a = 1\n    else:\n        a = 2\n    return a\n",
    "augadd": "    a = n\n    a += 1\n    return a\n",
    "del": "    a = n\n    del a\n    return n\n",
    "assert_true": "    assert n >= 0\n    return n\n",
    "assert_msg": "    assert n >= 0, 'neg'\n    return n\n",
    "assert_false": "    assert n < 0\n    return n\n",
    "pass": "    pass\n    return n\n",
    "docstring": "    'doc'\n    return n\n",
    "expr_stmt": "    n + 1\n    return n\n",
    "call_stmt": "    len([n])\n    return n\n",
    "bare_return": "    return\n",
    "fall_off": "    a = n\n",
    "return_tuple": "    return n, n + 1\n",
    "return_star": "    return (*[n], n)\n",
    "walrus": "    return (m := n + 1) + m\n",
    "global_read": "    return (len, int, n)[2]\n",
    "none_default": "    def g(v=None):\n        return v is None\n    return (g(), g(n))\n",
    "subscript_chain": "    d = {'k': [n, (n + 1, n + 2)]}\n    return d['k'][1][0]\n",
    "slice_obj": "    s = slice(0, n)\n    return [5, 6, 7][s]\n",
    "slice_of_slice": "    return [1, 2, 3, 4, 5][1:][:n]\n",
    "neg_index": "    return (1, 2, 3)[-n]\n",
    "str_index": "    return 'abcd'[n]\n",
    "attr_of_const": "    return (n).bit_length()\n",
    "tuple_paren": "    return ((n))\n",
    "nested_display": "    return [(n, [n, {'k': (n,)}])]\n",
    "dict_int_keys": "    return {n: 'a', n + 1: 'b'}\n",
    "dict_dup_keys": "    return {'k': n, 'k': n + 1}\n",
    "ellipsis": "    return ... is ...\n",
    "bigint": "    return 2 ** 70 + n\n",
    "float": "    return 0.5 + n\n",
    "strcmp": "    return 'a' == 'a', 'a' == 'b'\n",
    "is_identity": "    a = [n]\n    b = a\n    return (a is b, a is not b, a is [n])\n",
    "bool_arith": "    return True + n\n",
    "cmp_mixed": "    return (n < 1.5, n == 1.0, True == 1)\n",
    "minmax_kw": "    return max([n, 1], key=None)\n",
    "star_call_range": "    def g(*a):\n        return a\n    return g(*range(n))\n",
    "star_call_str": "    def g(*a):\n        return a\n    return g(*'ab', *[n])\n",
    "kwargs_call_order": "    def g(**k):\n        return list(k.items())\n    return g(b=1, a=n, **{'c': 3})\n",
    "kwargs_nonstr": "    def g(**k):\n        return k\n    return g(**{1: n})\n",
    "lambda_default_none": "    return (lambda v=None: v)()\n",
}


def cases(thorough):
    yield from unpack_cases()
    yield from if_cases(thorough)
    for k, body in FOR.items():
        for n in range(4):
            yield case(f"stmt/for/{k}/{n}", f"def case__S__(n):\n{body}", f"case__S__({n})")
    for k, body in ASSIGN.items():
        for n in (0, 1, 2):
            yield case(f"stmt/assign/{k}/{n}", f"def case__S__(n):\n{body}", f"case__S__({n})")


STRIPES = 6


def tasks(thorough, seed):
    return [("stmt", thorough, i) for i in range(STRIPES)]


def expand(desc):
    _, thorough, i = desc
    return itertools.islice(cases(thorough), i, None, STRIPES)
